#!/bin/bash
# Run every claimed check (quick tier by default) against /repo, refreshing evidence/.
cd "$(dirname "$0")"
tier=${1:-quick}
ids=$(python3 -c "import json;print(' '.join(c['property_id'] for c in json.load(open('MANIFEST.json'))['checks']))")
rc=0
for id in $ids; do
  out=$(./check $id --tier $tier 2>&1); r=$?
  echo "$id exit=$r $(echo "$out" | grep -c '^VIOLATION') violation(s) $(echo "$out" | grep -c '^KNOWN-FINDING') known; $(echo "$out" | tail -1)"
  [ $r -ne 0 ] && { rc=1; echo "$out" | grep '^VIOLATION'; }
done
exit $rc
