"""Minimal reproducers for the defects found while reading the code (DESIGN.md §6).

    PYTHONPATH=/repo /venv/bin/python findings/repro.py F1 [F2 ...]   (no args: all)

prints `Fx: DEFECT PRESENT ...` / `Fx: ok` and exits 1 if any requested defect is present.
"""
import datetime
import itertools
import sys
import warnings

import numpy as np

warnings.simplefilter("ignore")
from bermuda import Cell, CumulativeCell, IncrementalCell, Metadata, Triangle  # noqa: E402

D = datetime.date


def mk(ps, pe, ev, vals, meta=None, cls=Cell):
    return cls(period_start=ps, period_end=pe, evaluation_date=ev, values=vals, metadata=meta or Metadata())


def cells4():
    ms = [Metadata(loss_details={"cov": c}) for c in ("A", "B")]
    out = []
    for m in ms:
        for ev in (D(2020, 3, 31), D(2020, 6, 30)):
            out.append(mk(D(2020, 1, 1), D(2020, 3, 31), ev, {"paid_loss": 1}, m))
    return out


def F1():
    cs = cells4()
    seqs = set()
    for perm in itertools.permutations(cs):
        t = Triangle(list(perm))
        seqs.add(tuple((c.metadata.loss_details["cov"], c.evaluation_date) for c in t.cells))
    return len(seqs) != 1, f"{len(seqs)} different cell sequences from the 24 permutations of 4 cells"


def F2():
    cs = cells4()
    t = Triangle(c for c in cs)
    t2 = Triangle(cs)
    inter = t2 & t2
    return len(t) != 4 or len(inter) != 4, f"len(Triangle(generator))={len(t)}, len(t & t)={len(inter)}"


def F3():
    cs = cells4()
    return Triangle(cs) == Triangle(cs[:1]) or Triangle(cs) == Triangle([]), "a proper prefix compares equal"


def F4():
    a = mk(D(2020, 1, 1), D(2020, 3, 31), D(2020, 3, 31), {"paid_loss": 1})
    b = mk(D(2020, 1, 1), D(2020, 3, 31), D(2020, 3, 31), {"paid_loss": 1}, cls=CumulativeCell)
    return a == b and hash(a) != hash(b), "Cell == CumulativeCell but hashes differ"


def F5():
    ms = [Metadata(details={"s": i}) for i in (1, 2)]
    cs = [mk(D(2020, 1, 1), D(2020, 3, 31), D(2020, 3, 31),
             {"paid_loss_developed": 10 * (i + 1), "reported_loss_developed": 100 * (i + 1)}, m)
          for i, m in enumerate(ms)]
    s = Triangle(cs).summarize()
    got = s.cells[0]["paid_loss_developed"]
    return got != 30, f"paid_loss_developed of 10+20 summarised to {got}"


def F6():
    from bermuda.plot import FieldSummary

    q = FieldSummary.quantiles()
    return q != sorted(q) or q[0] != 0.025 or 0.8 not in q, f"quantiles() = {q}"


def F7():
    from bermuda.utils.fill import fill_forward_gaps

    ms = [Metadata(details={"s": i}) for i in (1, 2)]
    cs = []
    for m in ms:
        for ev in (D(2020, 3, 31), D(2020, 9, 30)):
            cs.append(mk(D(2020, 1, 1), D(2020, 3, 31), ev, {"paid_loss": 1}, m))
    out = fill_forward_gaps(Triangle(cs), eval_resolution=3)
    per_slice = {m: len([c for c in out if c.metadata == m]) for m in ms}
    return set(per_slice.values()) != {3}, f"cells per slice after fill: {list(per_slice.values())} (want 3 each)"


def F8():
    import tempfile, os

    ms = [Metadata(country=c) for c in ("US", "DE")]
    cs = [mk(D(2020, 1, 1), D(2020, 3, 31), D(2020, 3, 31), {"paid_loss": 1.0 + i}, m) for i, m in enumerate(ms)]
    t = Triangle(cs)
    with tempfile.TemporaryDirectory() as d:
        p = os.path.join(d, "w.csv")
        t.to_wide_csv(p)
        try:
            back = Triangle.from_wide_csv(p, field_cols=["paid_loss"])
            bad = len(back) != 2 or len(back.slices) != 2
            msg = f"wide CSV round trip of 2 slices differing in country: {len(back)} cells, {len(back.slices)} slices"
        except Exception as ex:
            bad, msg = True, f"wide CSV load of slices differing only in country raised {type(ex).__name__}"
    return bad, msg


def F11():
    t = Triangle([mk(D(2020, 1, 1), D(2020, 3, 31), D(2020, 3, 31), {"paid_loss": 1}, Metadata(risk_basis=None))])
    back = Triangle.from_dict(t.to_dict())
    return back.cells[0].metadata.risk_basis is not None, f"risk_basis None read back as {back.cells[0].metadata.risk_basis!r}"


def F12():
    from bermuda.io.matrix import matrix_to_triangle, triangle_to_matrix

    cs = [mk(D(2020, 1, 1), D(2020, 12, 31), D(2020, 12, 31) if k == 0 else D(2022, 12, 31), {"paid_loss": 1.0 + k})
          for k in range(2)]
    t = Triangle(cs)
    try:
        back = matrix_to_triangle(triangle_to_matrix(t))
        got = sorted(c.evaluation_date for c in back if c.values.get("paid_loss") is not None and not np.isnan(c["paid_loss"]))
        want = sorted(c.evaluation_date for c in t)
        return got != want, f"Matrix round trip of a holey triangle: evaluation dates {got} (want {want})"
    except Exception as ex:
        return False, f"(raised {type(ex).__name__}: not the F12 symptom)"


def F13():
    from bermuda.utils import join

    cs = cells4()
    try:
        join(Triangle([]), Triangle(cs), join_type="full")
        return False, ""
    except IndexError:
        return True, "join with an empty left triangle raises IndexError"


def F14():
    from bermuda.utils import blend

    t = Triangle(cells4())
    try:
        blend([t], weights=None)
        return False, ""
    except TypeError:
        return True, "blend([t], weights=None) raises TypeError"


def F15():
    import tempfile, os

    a = np.array([1.0, 2.0, 3.0])
    cs = [mk(D(2020, 1, 1), D(2020, 3, 31), D(2020, 3, 31), {"paid_loss": a, "reported_loss": a + 1}),
          mk(D(2020, 1, 1), D(2020, 3, 31), D(2020, 6, 30), {"paid_loss": a + 2})]
    t = Triangle(cs)
    with tempfile.TemporaryDirectory() as d:
        p = os.path.join(d, "w.csv")
        t.to_wide_csv(p)
        back = Triangle.from_wide_csv(p, field_cols=["paid_loss", "reported_loss"])
    fields = [sorted(c.values) for c in back]
    return fields != [["paid_loss", "reported_loss"], ["paid_loss"]], f"field sets after wide CSV round trip: {fields}"


def F16():
    cs = [IncrementalCell(period_start=D(2020, 1, 1), period_end=D(2020, 3, 31), prev_evaluation_date=D(2019, 12, 31),
                          evaluation_date=D(2020, 3, 31), values={"paid_loss": 1})]
    try:
        out = Triangle(cs).make_right_triangle()
        return len(out) != 0, f"complete incremental triangle: make_right_triangle returned {len(out)} cells"
    except IndexError:
        return True, "make_right_triangle on a complete incremental triangle raises IndexError"


def F17():
    from bermuda.plot import build_plot_data

    ms = [Metadata(details={"s": i}) for i in (1, 2)]
    cs = []
    for i, m in enumerate(ms):
        for k, ev in enumerate((D(2020, 3, 31), D(2020, 6, 30))):
            cs.append(mk(D(2020, 1, 1), D(2020, 3, 31), ev, {"paid_loss": 100.0 * (i + 1) * (k + 1), "earned_premium": 1000.0}, m))
    t = Triangle(cs)
    recs = build_plot_data(t)  # built-in "Paid ATA": next_cell["paid_loss"] / cell["paid_loss"]
    # the LAST cell of slice 1 has no next cell in its own (slice, period) row: no ATA summary there
    has = ["paid_ata" in r for r in recs]
    bad = len(recs) == 4 and has[1]
    return bad, f"age-to-age summary present per cell {has}: the last cell of slice 1 takes the first cell of slice 2 as its successor"


def F19():
    import math

    bad = []
    for a, b in [(Metadata(country=None), Metadata(country="")),
                 (Metadata(per_occurrence_limit=None), Metadata(per_occurrence_limit=math.inf))]:
        if a != b and not (a < b) and not (b < a):
            bad.append((a, b))
    ms = [Metadata(country=None), Metadata(country="")]
    cs = [mk(D(2020, 1, 1), D(2020, 3, 31), ev, {"x": 1}, m) for m in ms for ev in (D(2020, 3, 31), D(2020, 6, 30))]
    seqs = {tuple((c.metadata.country, c.evaluation_date) for c in Triangle(list(p))) for p in itertools.permutations(cs)}
    return bool(bad) or len(seqs) != 1, f"{len(bad)} unordered pairs of distinct Metadata (None vs '' / inf); {len(seqs)} cell sequences from 24 permutations"


def F20():
    def inc(ev, prev, v):
        return IncrementalCell(period_start=D(2020, 1, 1), period_end=D(2020, 3, 31), prev_evaluation_date=prev,
                               evaluation_date=ev, values={"paid_loss": v})
    a, b = inc(D(2020, 3, 31), D(2019, 12, 31), 1), inc(D(2020, 3, 31), D(2019, 12, 31), 1.0)
    try:
        ok = a == b and hash(a) == hash(b) and hash(Triangle([a])) == hash(Triangle([b])) and len({a, b}) == 1
        c = inc(D(2020, 3, 31), D(2020, 1, 31), 1)
        return not ok, f"equal incremental cells hash alike: {ok}; differ-in-prev distinct: {a != c}"
    except TypeError as ex:
        return True, f"hash(IncrementalCell) raises TypeError: {ex}"


def F21():
    from bermuda.utils import accident_quarter_to_policy_year
    from bermuda.utils.backfill import backfill

    t = Triangle([mk(D(2020, 1, 1), D(2020, 3, 31), e, {"paid_loss": 10.0}, cls=CumulativeCell)
                  for e in (D(2020, 9, 30), D(2020, 12, 31))])
    py = accident_quarter_to_policy_year(t)
    before = [dict(c.values) for c in py]
    try:
        backfill(py)
    except Exception:
        pass
    after = [dict(c.values) for c in py]
    return before != after, f"backfill changed its argument: {before[0]} -> {after[0]}"


def F22():
    out = Triangle([]).aggregate(period_resolution=(12, "month"))
    return not isinstance(out, Triangle), f"aggregate of the empty triangle returned {out!r}"


def F23():
    from bermuda.utils import bootstrap

    def cell(y, e, p, ep):
        return mk(D(y, 1, 1), D(y, 12, 31), D(e, 12, 31), {"paid_loss": p, "earned_premium": ep}, cls=CumulativeCell)
    t = Triangle([cell(2020, 2020, 100, 500), cell(2020, 2021, 150, 500), cell(2021, 2021, 120, 600), cell(2021, 2022, 200, 600)])
    try:
        out = bootstrap(t, 1, seed=1, field="paid_loss")
        ok = len(out) == 1 and all(sorted(c.values) == ["earned_premium", "paid_loss"] for c in out[0])
        return not ok, "bootstrap with a field selection lost fields"
    except KeyError as ex:
        return True, f"bootstrap(t, 1, seed=1, field='paid_loss') raises KeyError {ex}"


def F24():
    t = Triangle([mk(D(2020, 1, 1), D(2020, 3, 31), e, {"paid_loss": 1}, cls=CumulativeCell)
                  for e in (D(2020, 3, 31), D(2020, 6, 30))])
    try:
        out = t.aggregate(period_resolution=(1, "year"), eval_resolution=(1, "year"))
        return len(out) != 0, f"expected the empty triangle, got {len(out)} cells"
    except IndexError:
        return True, "aggregate raises IndexError when the evaluation grid removes every cell of a slice"


def G5():
    cs = [mk(D(2003, 4, 1), D(2003, 6, 30), D(2003, 6, 30), {"paid_loss": 1.0}, cls=CumulativeCell),
          mk(D(2003, 7, 1), D(2003, 9, 30), D(2003, 9, 30), {"paid_loss": 2.0}, cls=CumulativeCell)]
    t = Triangle(cs)
    try:
        back = Triangle.from_array_data_frame(t.to_array_data_frame("paid_loss"), "paid_loss")
        got = [(c.period_start, c.period_end) for c in back]
        return got != [(c.period_start, c.period_end) for c in t], f"array frame round trip periods: {got}"
    except Exception as ex:
        return True, f"array frame round trip raised {type(ex).__name__}: {ex}"


def F25():
    from bermuda import meyers_tri
    try:
        meyers_tri.plot_drip().to_dict(validate=True)
        meyers_tri.plot_hose().to_dict(validate=True)
        return False, ""
    except TypeError as ex:
        return True, f"plot_drip / plot_hose raise TypeError: {ex}"


def F26():
    import os
    import tempfile

    t = Triangle([mk(D(2020, 1, 1), D(2020, 12, 31), D(2020, 12, 31), {"x": 1})])
    d = tempfile.mkdtemp()
    try:
        p = os.path.join(d, "a.dat")
        t.to_binary(p, compress=False)
        try:
            return Triangle.from_binary(p, compress=False) != t, "explicit compress=False read back differently"
        except Exception as ex:
            return True, f"from_binary(path, compress=False) raised {type(ex).__name__}: {ex}"
    finally:
        import shutil

        shutil.rmtree(d, ignore_errors=True)


def F27():
    import numpy as np
    from bermuda.utils import thin

    c = lambda e, a, z: mk(D(2020, 1, 1), D(2020, 12, 31), D(e, 12, 31), {"a": a, "z": z}, cls=CumulativeCell)  # noqa: E731
    t = Triangle([c(2020, np.arange(4.0), np.array(5.0)), c(2021, np.arange(4.0) + 9, np.array(6.0))])
    try:
        r = thin(t, 2, seed=1)
        return r.num_samples != 2, f"thinned to {r.num_samples} samples"
    except TypeError as ex:
        return True, f"thin raised TypeError on a 0-d array value: {ex}"


def F28():
    import datetime as dt
    from bermuda import IncrementalCell

    x = Triangle([IncrementalCell(dt.datetime(2020, 1, 1), dt.datetime(2020, 12, 31), dt.datetime(2019, 12, 31),
                                  dt.datetime(2020, 12, 31), {"a": 1})])
    if type(x.cells[0].prev_evaluation_date) is not dt.date:
        return True, f"prev_evaluation_date stored as {type(x.cells[0].prev_evaluation_date).__name__}"
    try:
        return len(x.to_cumulative()) != 1, "to_cumulative lost the cell"
    except Exception as ex:
        return True, f"to_cumulative refused a complete chain built from datetimes: {ex}"


def F29():
    q = lambda ps, pe, e: mk(ps, pe, e, {"paid_loss": 1}, cls=CumulativeCell)  # noqa: E731
    t = Triangle([q(D(2020, 1, 1), D(2020, 3, 31), D(2020, 3, 31)), q(D(2020, 1, 1), D(2020, 3, 31), D(2020, 6, 30)),
                  q(D(2020, 4, 1), D(2020, 6, 30), D(2020, 6, 30))])
    try:
        r = t.make_right_triangle(dev_lag_unit="timedelta")
        return len(r) != 1, f"{len(r)} cells added, expected 1"
    except TypeError as ex:
        return True, f"make_right_triangle(dev_lag_unit='timedelta') raised TypeError: {ex}"


def F30():
    import numpy as np
    from bermuda.utils import blend

    a = Triangle([mk(D(2020, 1, 1), D(2020, 3, 31), D(2020, 3, 31), {"x": np.int64(4)}, cls=CumulativeCell)])
    b = Triangle([mk(D(2020, 1, 1), D(2020, 3, 31), D(2020, 3, 31), {"x": np.int64(8)}, cls=CumulativeCell)])
    try:
        r = blend([a, b], [0.5, 0.5], "linear")
        return float(np.ravel(r.cells[0]["x"])[0]) != 6.0, f"blend gave {r.cells[0]['x']}"
    except TypeError as ex:
        return True, f"linear blend of np.int64 scalars raised TypeError: {ex}"


def F31():
    import numpy as np
    from bermuda.utils.disaggregate import disaggregate_experience

    t = Triangle([mk(D(2020, 1, 1), D(2020, 12, 31), D(2020, 12, 31), {"paid_loss": np.int64(120)}, cls=CumulativeCell)])
    r = disaggregate_experience(t, 3)
    bad = [c["paid_loss"] for c in r if isinstance(c["paid_loss"], np.ndarray)]
    return bool(bad), f"scalar np.int64 input, sub-period values are arrays: {bad[:2]}"


def F32():
    import numpy as np

    a = mk(D(2020, 1, 1), D(2020, 12, 31), D(2020, 12, 31), {"x": np.array(5.0)})
    b = mk(D(2020, 1, 1), D(2020, 12, 31), D(2020, 12, 31), {"x": 5.0})
    c = mk(D(2020, 1, 1), D(2020, 12, 31), D(2020, 12, 31), {"x": np.array([[1, 2], [3, 4]])})
    try:
        return not (a == b and hash(a) == hash(b) and hash(c) == hash(c)), "equal cells hash differently"
    except TypeError as ex:
        return True, f"hash(Cell) raised TypeError: {ex}"


ALL = {k: v for k, v in globals().items() if k[:1] in "FG" and k[1:].isdigit() and callable(v)}

if __name__ == "__main__":
    names = sys.argv[1:] or sorted(ALL, key=lambda s: (s[0], int(s[1:])))
    rc = 0
    for n in names:
        try:
            bad, msg = ALL[n]()
        except Exception as ex:  # a reproducer that crashes is reported, not hidden
            bad, msg = True, f"reproducer raised {type(ex).__name__}: {ex}"
        print(f"{n}: {'DEFECT PRESENT - ' + msg if bad else 'ok'}")
        rc |= bad
    sys.exit(1 if rc else 0)
