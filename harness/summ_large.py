"""LARGE input stream (notes/HARDENING.md family Q) for summarize (C09) and aggregate (C08).

A handful of big cases per run, judged by the Python-side oracles only (no Coq literals: the theorems are
size-independent, it is the correspondence that samples).  Every case is rebuilt from (name, params), which is
what the replay records.  Sizes cross: >= 300 / 1100 / 2100 / 3100 / 4500 cells, slices of exactly 256 / 257
cells, 33 / 129 / 257 / 300+ cells merging into one output cell, sample arrays of 4096 / 5000 / 10^4-10^5 items
incl. reversed and Fortran-order views, integers beyond 2**53 (values, totals, limits, ids), > 1024 distinct
months, > 2100 distinct Metadata, > 64 evaluation dates, rows of > 65 cells."""
from __future__ import annotations

import datetime

import numpy as np

from harness import summ_common as S
from harness.coqterm import canon_value
from harness.gen import month_end

D = datetime.date
ONE = datetime.timedelta(days=1)
BIG = 12_345_678_901_235          # ~1.2e13 (< 2**44); 1500 of them exceed 2**53


def _month(k):
    """k-th month counted from 1930-01: (start, end)"""
    i = 1930 * 12 + k
    y, m = i // 12, i % 12 + 1
    return D(y, m, 1), month_end(y, m)


def _mk(cls_name, ps, pe, ev, vals, meta, prev=None, given=None):
    from bermuda import CumulativeCell, IncrementalCell

    kw = dict(period_start=ps, period_end=pe, evaluation_date=ev, values=vals, metadata=meta)
    c = IncrementalCell(prev_evaluation_date=prev, **kw) if cls_name == "inc" else CumulativeCell(**kw)
    if given is not None:
        given.append((c, dict(vals)))
    return c


def stored_as_given(given, limit=400):
    """The constructor must keep the values it was given (kind, dtype, exact contents): failures as strings."""
    fails = []
    step = max(1, len(given) // limit)
    for c, vals in given[::step]:
        for k, v in vals.items():
            if canon_value(c.values.get(k)) != canon_value(v):
                got = c.values.get(k)
                fails.append(f"Cell stores {k} as {type(got).__name__}"
                             f"{'/' + str(got.dtype) if isinstance(got, np.ndarray) else ''} but was given "
                             f"{type(v).__name__}{'/' + str(v.dtype) if isinstance(v, np.ndarray) else ''} (values must be kept exactly)")
                return fails
    return fails


# ------------------------------------------------------------------------------------------ builders
def build(name, p):
    """-> (cells, given) for the named large case; `given` pairs each cell with the values handed to it."""
    from bermuda import Metadata

    given, cells = [], []
    if name == "many-cells-3-slices":
        # 3 slices x n_p periods x n_e evaluation dates; currencies (first, middle, last in metadata order)
        cur = p["currencies"]
        for k, (country, c) in enumerate(zip(("AA", "BB", "CC"), cur)):
            m = Metadata(country=country, currency=c, details={"book": "x"})
            for i in range(p["n_periods"]):
                ps, pe = _month(1000 + i)
                for j in range(p["n_evals"]):
                    ev = _month(1000 + i + j)[1]
                    cells.append(_mk("cum", ps, pe, ev, {"paid_loss": 1000 * k + 7 * i + j, "earned_premium": 100.5 + i}, m, given=given))
    elif name == "many-slices-big-ints":
        # n_slices slices, int64 sample arrays ~1.2e13 and big Python ints: totals above 2**53 must be exact
        for k in range(p["n_slices"]):
            m = Metadata(currency="JPY", country="JP", per_occurrence_limit=2 ** 53 + (k % 2),
                         details={"program": 20240000000 + k, "book": "A"})
            for i in range(p["n_periods"]):
                ps, pe = _month(1020 + 3 * i)[0], _month(1020 + 3 * i + 2)[1]
                for j in range(i, p["n_periods"]):
                    ev = _month(1020 + 3 * j + 2)[1]
                    vals = {"paid_loss": np.array([BIG + 2 * (7 * k + 3 * i + 5 * j + s) + 1 for s in range(4)], dtype=np.int64),
                            "reported_claims": BIG + 2 * k + 1, "earned_premium": np.int64(BIG + k)}
                    prev = (ps - ONE) if j == i else _month(1020 + 3 * (j - 1) + 2)[1]
                    cells.append(_mk(p.get("basis", "cum"), ps, pe, ev, vals, m, prev=prev, given=given))
    elif name == "slices-of-256":
        # slices of exactly 256 / 256 / 257 / 512 / ... cells
        for k, size in enumerate(p["sizes"]):
            m = Metadata(details={"lob": f"L{k:03d}"})
            n = 0
            i = 0
            while n < size:
                ps, pe = _month(1080 + i)
                for j in range(4):
                    if n < size:
                        cells.append(_mk("cum", ps, pe, _month(1080 + i + j)[1], {"paid_loss": 3 * n + k, "reported_loss": 0.5 * n}, m, given=given))
                        n += 1
                i += 1
    elif name == "wide-arrays":
        # sample arrays of n items, some handed over as reversed / Fortran-order / strided views
        n = p["n_samples"]
        rng = np.random.default_rng(p.get("seed", 1))
        for k in range(p["n_slices"]):
            m = Metadata(details={"lob": f"L{k}"})
            for i in range(p["n_periods"]):
                ps, pe = _month(1090 + i)
                prev = ps - ONE
                for j in range(p["n_evals"]):
                    ev = _month(1090 + p["n_periods"] + j)[1]
                    a = rng.integers(0, 5000, size=n, dtype=np.int64)
                    b = rng.integers(0, 40000, size=2 * n).astype(np.float64) / 8.0
                    views = (a, a[::-1], np.asfortranarray(np.stack([a, a], axis=1))[:, 0])
                    vals = {"paid_loss": views[(i + j + k) % 3], "reported_loss": b[::2]}
                    cells.append(_mk(p.get("basis", "cum"), ps, pe, ev, vals, m, prev=prev, given=given))
                    prev = ev
    elif name == "long-history":
        # > 1024 distinct months as periods (one evaluation each) + one row of > 65 evaluation dates
        for k in range(p["n_slices"]):
            m = Metadata(details={"lob": f"L{k}"})
            for i in range(p["n_months"]):
                ps, pe = _month(i)
                cells.append(_mk("cum", ps, pe, _month(p["n_months"] - 1)[1], {"paid_loss": i + k, "reported_claims": 1}, m, given=given))
            ps, pe = _month(p["n_months"])
            for j in range(p["n_evals"]):
                cells.append(_mk("cum", ps, pe, _month(p["n_months"] + j)[1], {"paid_loss": 10 * j + k, "reported_claims": j}, m, given=given))
    elif name == "daily-merge":
        # n_days one-day periods (x n_evals evaluation dates) of one or two slices: 33 / 129 / 257 / n cells per window
        start = D(2021, 1, 1)
        for k in range(p["n_slices"]):
            m = Metadata(details={"lob": f"L{k}"})
            for i in range(p["n_days"]):
                d = start + datetime.timedelta(days=i)
                for j in range(p["n_evals"]):
                    ev = start + datetime.timedelta(days=p["n_days"] + 30 * j)
                    vals = {"paid_loss": (BIG * 100 + i) if p.get("big") else 2 * i + 1 + k, "reported_loss": 0.125 * (i + 1),
                            "open_claims": np.array([i, 1], dtype=np.int64)}
                    cells.append(_mk("cum", d, d, ev, vals, m, given=given))
    else:
        raise KeyError(name)
    return cells, given


# ------------------------------------------------------------------------------------------ case lists
def cases_c09(quick=True):
    """-> list of (name, params, summarize_premium)"""
    out = [
        ("many-cells-3-slices", {"currencies": ["USD", "GBP", "USD"], "n_periods": 30, "n_evals": 25}, True),   # 2250 cells, refuse
        ("many-cells-3-slices", {"currencies": ["USD", "USD", "USD"], "n_periods": 30, "n_evals": 25}, True),   # 2250 cells, valid
        ("many-cells-3-slices", {"currencies": [None, None, "USD"], "n_periods": 36, "n_evals": 20}, False),    # 2160 cells, refuse
        ("many-slices-big-ints", {"n_slices": 1500, "n_periods": 2, "basis": "cum"}, True),                     # 4500 cells
        ("many-slices-big-ints", {"n_slices": 750, "n_periods": 2, "basis": "inc"}, True),                      # 2250 cells
        ("slices-of-256", {"sizes": [256, 256, 257, 512, 76]}, True),                                           # 1357 cells
        ("slices-of-256", {"sizes": [300]}, False),                                                             # 300 cells
        ("wide-arrays", {"n_samples": 4096, "n_slices": 3, "n_periods": 2, "n_evals": 3}, True),
        ("wide-arrays", {"n_samples": 5000, "n_slices": 2, "n_periods": 2, "n_evals": 2, "basis": "inc"}, True),
        ("wide-arrays", {"n_samples": 20000 if quick else 100000, "n_slices": 2, "n_periods": 1, "n_evals": 2}, False),
        ("long-history", {"n_slices": 2, "n_months": 1100, "n_evals": 70}, True),                               # 2340 cells
    ]
    if not quick:
        out += [("many-slices-big-ints", {"n_slices": 3100, "n_periods": 2, "basis": "cum"}, True),
                ("many-cells-3-slices", {"currencies": ["USD", "GBP", "USD"], "n_periods": 60, "n_evals": 30}, True),
                ("wide-arrays", {"n_samples": 10000, "n_slices": 4, "n_periods": 3, "n_evals": 3}, True)]
    return out


def cases_c08(quick=True):
    """-> list of (name, params, aggregate kwargs)"""
    base = {"period_origin": D(1999, 12, 31), "eval_origin": D(1999, 12, 31), "summarize_premium": True}
    out = [
        ("wide-arrays", {"n_samples": 4096, "n_slices": 2, "n_periods": 4, "n_evals": 4, "basis": "inc"},
         {**base, "period_resolution": (6, "month"), "eval_resolution": None}),
        ("wide-arrays", {"n_samples": 5000, "n_slices": 2, "n_periods": 3, "n_evals": 3, "basis": "inc"},
         {**base, "period_resolution": (1, "quarter"), "eval_resolution": None}),
        ("wide-arrays", {"n_samples": 20000 if quick else 100000, "n_slices": 1, "n_periods": 3, "n_evals": 3},
         {**base, "period_resolution": (1, "year"), "eval_resolution": None}),
        ("daily-merge", {"n_slices": 2, "n_days": 300, "n_evals": 2}, {**base, "period_resolution": (1, "year"), "eval_resolution": None}),
        ("daily-merge", {"n_slices": 1, "n_days": 300, "n_evals": 1}, {**base, "period_resolution": (33, "days"), "eval_resolution": None,
                                                                       "period_origin": D(2020, 12, 31)}),
        ("daily-merge", {"n_slices": 1, "n_days": 258, "n_evals": 1}, {**base, "period_resolution": (129, "days"), "eval_resolution": None,
                                                                       "period_origin": D(2020, 12, 31)}),
        ("daily-merge", {"n_slices": 1, "n_days": 257, "n_evals": 1, "big": True},
         {**base, "period_resolution": (257, "day"), "eval_resolution": None, "period_origin": D(2020, 12, 31)}),
        ("slices-of-256", {"sizes": [256, 256, 257, 512]}, {**base, "period_resolution": (3, "months"), "eval_resolution": (3, "months")}),
        ("long-history", {"n_slices": 1, "n_months": 1100, "n_evals": 70}, {**base, "period_resolution": (1, "year"), "eval_resolution": (1, "quarter")}),
        ("many-slices-big-ints", {"n_slices": 400, "n_periods": 2, "basis": "inc"}, {**base, "period_resolution": (6, "months"), "eval_resolution": None}),
        ("many-slices-big-ints", {"n_slices": 1100, "n_periods": 2, "basis": "cum"}, {**base, "period_resolution": (1, "year"), "eval_resolution": None}),
    ]
    if not quick:
        out += [("many-slices-big-ints", {"n_slices": 2200, "n_periods": 2, "basis": "cum"}, {**base, "period_resolution": (1, "year"), "eval_resolution": None}),
                ("daily-merge", {"n_slices": 2, "n_days": 1100, "n_evals": 2}, {**base, "period_resolution": (1, "year"), "eval_resolution": None}),
                ("wide-arrays", {"n_samples": 10000, "n_slices": 3, "n_periods": 4, "n_evals": 4, "basis": "inc"},
                 {**base, "period_resolution": (6, "month"), "eval_resolution": None})]
    return out
