"""C17 -- resampling keeps triangle structure: bootstrap, thin, moment_match (PARTIAL, see coq/Props/C17.v).

RNG and samplers are oracles of the model; here the REAL draws are recorded by wrapping numpy's generator
(np.random.default_rng -> recording proxy; np.random.normal/lognormal/gamma -> recording wrappers) in the
harness process, and fed to the model inside coqc.  Direct Python oracles run on every case."""
from __future__ import annotations

import datetime
import importlib
import math
import os
import random
import warnings

import numpy as np

from harness import coqterm as C
from harness.common import parse_coq_eval
from harness.coqterm import canon_cell, cerr, cstr, zlit

D = datetime.date
HEADER = """From Coq Require Import ZArith List Bool.
From Bermuda Require Import Model.Base Model.Resample.
Import ListNotations.
Local Open Scope Z_scope.
Definition idmul (v : value) (c : cell) (k : str) : value := v.
Fixpoint look2 {A} (d : A) (i : nat) (k : str) (tab : list (nat * str * A)) : A :=
  match tab with
  | [] => d
  | (j, k', a) :: r => if Nat.eqb i j && str_eqb k k' then a else look2 d i k r
  end.
Fixpoint all2 {A B} (f : A -> B -> bool) (l : list A) (m : list B) : bool :=
  match l, m with [] , [] => true | a :: r, b :: s => f a b && all2 f r s | _, _ => false end.
Definition arr_of (k : str) (c : cell) : list Z :=
  match assoc k (cvals c) with Some (VNum x) => [num_n x] | Some (VArr _ xs) => xs | _ => [] end.
"""


# ------------------------------------------------------------------------------------------ recording
class RecRng:
    def __init__(self, real, log):
        self._real, self._log = real, log

    def choice(self, *a, **k):
        out = self._real.choice(*a, **k)
        self._log.append(("choice", [int(x) for x in np.asarray(out).ravel().tolist()]))
        return out

    def uniform(self, *a, **k):
        out = self._real.uniform(*a, **k)
        self._log.append(("uniform", [float(x) for x in np.asarray(out).ravel().tolist()]))
        return out

    def __getattr__(self, name):
        return getattr(self._real, name)


class Recording:
    """Context manager: record every draw made through numpy inside the block."""

    def __enter__(self):
        self.log = []
        self._orig = {"default_rng": np.random.default_rng}
        log = self.log
        orig_rng = np.random.default_rng
        np.random.default_rng = lambda seed=None: RecRng(orig_rng(seed), log)
        for name in ("normal", "lognormal", "gamma"):
            self._orig[name] = getattr(np.random, name)

            def mk(name=name, f=getattr(np.random, name)):
                def wrapped(*a, **k):
                    out = f(*a, **k)
                    log.append((name, dict(k), [float(x) for x in np.asarray(out).ravel().tolist()]))
                    return out
                return wrapped
            setattr(np.random, name, mk())
        return self

    def __exit__(self, *exc):
        for k, v in self._orig.items():
            setattr(np.random, k, v)
        return False


# ------------------------------------------------------------------------------------------ printing
def r1024(x):
    if isinstance(x, (int, np.integer)) and not isinstance(x, (bool, np.bool_)):
        return int(x) * 1024
    y = float(x) * 1024
    if y != y or abs(y) == float("inf") or abs(y) > 2**80:
        raise C.NotRepresentable(repr(x))
    return int(round(y))


def cvalue_r(v):
    """like coqterm.cvalue but floats are ROUNDED to 1/1024 (monotone, so order relations survive)"""
    if v is None:
        return "VNone"
    if isinstance(v, np.ndarray):
        if v.ndim != 1 or v.dtype.kind not in "fi":
            raise C.NotRepresentable("array")
        isf = v.dtype.kind == "f"
        return f"(VArr {'true' if isf else 'false'} [" + ";".join(zlit(r1024(x)) for x in v.tolist()) + "])"
    if isinstance(v, (bool, np.bool_)):
        raise C.NotRepresentable("bool")
    isf = isinstance(v, (float, np.floating))
    return f"(VNum (Num {'true' if isf else 'false'} {zlit(r1024(v))}))"


def ccell_r(c):
    prev = getattr(c, "prev_evaluation_date", None) if type(c).__name__ == "IncrementalCell" else None
    return (f"(mkCell {C.ckind(c)} {C.cdate(c.period_start)} {C.cdate(c.period_end)} {C.cdate(c.evaluation_date)} "
            f"{C.copt(prev, C.cdate)} {C.cmeta(c.metadata)} {C.cdict(c.values, cvalue_r)})")


def ccells_r(cells):
    return "[" + ";\n  ".join(ccell_r(c) for c in cells) + "]"


def nats(xs):
    return "[" + ";".join(f"{int(i)}%nat" for i in xs) + "]"


def zs(xs):
    return "[" + ";".join(zlit(int(x)) for x in xs) + "]"


# ------------------------------------------------------------------------------------------ generators
def month_end(y, m):
    import calendar

    return D(y, m, calendar.monthrange(y, m)[1])


def add_m(y, m, k):
    i = y * 12 + (m - 1) + k
    return i // 12, i % 12 + 1


def metas(rng, n_slices):
    """One entry per slice: a list of EQUAL Metadata objects spelled differently (HARDENING A: detail keys in another
    order, 7 vs 7.0, True vs 1, limit 1000 vs 1000.0); the slices differ in ways that flatten alike (B: attribute
    vs detail of the same name, the same key in details vs loss_details, loss_details only, None vs "" vs missing)."""
    from bermuda import Metadata

    base = {}
    if rng.random() < 0.5:
        base["country"] = rng.choice(["US", "DE"])
    if rng.random() < 0.4:
        base["details"] = {"lob": rng.choice(["auto", "home"])}
    kws = [base]
    for i in range(1, n_slices):
        kw = {k: (dict(v) if isinstance(v, dict) else v) for k, v in base.items()}
        how = rng.choice(["details", "currency", "loss_details", "currency_as_detail", "detail_vs_loss_detail", "none_vs_empty",
                          "hash_collision", "hash_collision"])
        if how == "details":
            kw["details"] = {**kw.get("details", {}), "state": ["NY", "CA", "TX"][i]}
        elif how == "currency":
            kw["currency"] = ["USD", "EUR", "GBP"][i]
        elif how == "loss_details":
            kw["loss_details"] = {"cov": ["a", "b", "c"][i]}
        elif how == "currency_as_detail":           # slice 0 may carry currency="USD" as an attribute
            kws[0] = {**kws[0], "currency": "USD"} if i == 1 else kws[0]
            kw["details"] = {**kw.get("details", {}), "currency": "USD"}
            kw["loss_details"] = {"i": i}
        elif how == "detail_vs_loss_detail":
            kws[0] = {**kws[0], "details": {**kws[0].get("details", {}), "kk": "v"}} if i == 1 else kws[0]
            kw["loss_details"] = {"kk": "v", "i": i}
        elif how == "hash_collision":               # HARDENING M: hash(-1) == hash(-2), hash(0) == hash(2**61 - 1)
            where = rng.choice(["details", "loss_details", "limit"])
            if where == "limit":
                kws[0] = {**kws[0], "per_occurrence_limit": -1.0} if i == 1 and "per_occurrence_limit" not in kws[0] else kws[0]
                kw["per_occurrence_limit"] = [-2.0, 2**61 - 1][i - 1] if kws[0].get("per_occurrence_limit") == -1.0 else [-2.0, -1.0][i - 1]
            else:
                if i == 1:
                    kws[0] = {**kws[0], where: {**kws[0].get(where, {}), "h": -1, "z": 0}}
                kw[where] = {**kws[0].get(where, {}), "h": [-2, -1][i - 1], "z": [0, 2**61 - 1][i - 1]}
        else:
            kw["details"] = {**kw.get("details", {}), "opt": [None, ""][i - 1]}
        kws.append(kw)
    spell = rng.random() < 0.4 and not any("per_occurrence_limit" in kw for kw in kws)
    out = []
    for kw in kws:
        if not spell:
            out.append([Metadata(**kw)])
            continue
        d = {**kw.get("details", {}), "seven": 7, "yes": True}
        alt = dict(reversed(list({**d, "seven": 7.0, "yes": 1}.items())))
        a = Metadata(**{**kw, "details": d, "per_occurrence_limit": 1000})
        b = Metadata(**{**kw, "details": alt, "per_occurrence_limit": 1000.0})
        out.append([a, b])
    try:                                            # the slices must be distinct and sortable
        firsts = [m[0] for m in out]
        if len(set(firsts)) != len(firsts) or any(a != b for m in out for a in m for b in m):
            raise ValueError
        sorted(firsts)
    except Exception:  # noqa: BLE001
        return [[Metadata(country=["US", "DE", "FR"][i])] for i in range(n_slices)]
    return out


class _DT(datetime.datetime):
    pass


def coord_forms(rng):
    """HARDENING D: coordinates handed to the constructor as datetime / pandas.Timestamp / a datetime subclass with
    a time of day (about one triangle in six); results must hold plain datetime.date."""
    if rng.random() > 0.17:
        return lambda d, k: d
    import pandas as pd

    forms = [lambda d: datetime.datetime(d.year, d.month, d.day, 13, 45),
             lambda d: (pd.Timestamp(d) + pd.Timedelta(hours=23)) if 1700 < d.year < 2262 else datetime.datetime(d.year, d.month, d.day, 23),
             lambda d: _DT(d.year, d.month, d.day, 0, 0, 1)]
    rng.shuffle(forms)          # all three coordinates datetime-like: the constructor compares them before it
    return lambda d, k: forms[k % 3](d)     # normalises, and Python refuses datetime < date


def plain_dates(cells):
    bad = [c for c in cells for x in (c.period_start, c.period_end, c.evaluation_date) if type(x) is not datetime.date]
    return [f"a result cell holds a {type(bad[0].period_start).__name__}/{type(bad[0].evaluation_date).__name__} coordinate, not a plain date"] if bad else []


def coords(rng, shape, P, L, res, feb=None, lag_res=None):
    """list of (ps, pe, [evals]) for a complete rectangle / upper-left triangle / single row, column, diagonal.
    feb = a year: periods are laid out so that a period end / evaluation date is the last day of February of it."""
    y0, m0 = rng.randint(2000, 2020), rng.choice([1, 4, 7, 10]) if res != 12 else 1
    if rng.random() < 0.12:                      # HARDENING N: far future, past the datetime64[ns] range
        y0 = rng.choice([rng.randint(2180, 2235), 2262, 2300, 2999, 9000])
    if feb is not None:
        # a period ending in February of `feb` sits at index j: start = Feb - (j+1)*res + 1 months
        j = rng.randint(0, max(0, min(P, 3) - 1))
        y0, m0 = add_m(feb, 2, -(j + 1) * res + 1)
    rows = []
    for p in range(P):
        sy, sm = add_m(y0, m0, p * res)
        ey, em = add_m(sy, sm, res - 1)
        ps, pe = D(sy, sm, 1), month_end(ey, em)
        if shape == "rect":
            lags = range(L)
        elif shape == "tri":
            lags = range(max(1, min(L, P - p)))
        elif shape == "row":
            lags = range(L)
        elif shape == "col":
            lags = range(1)
        else:  # diagonal: one evaluation date for all periods
            lags = [P - 1 - p]
        rows.append((ps, pe, [month_end(*add_m(ey, em, k * (lag_res or res))) for k in lags]))
    if shape == "row":
        rows = rows[:1]
    return rows


def gen_boot_triangle(rng):
    from bermuda import CumulativeCell, Triangle

    shape = rng.choice(["rect", "rect", "tri", "tri", "row", "col", "diag"])
    P, L = rng.randint(1, 6), rng.randint(1, 6)
    if shape in ("rect", "tri") and rng.random() < 0.8:
        P, L = max(P, 2), max(L, 2)
    res = rng.choice([3, 12, 6])
    n_slices = rng.choice([1, 1, 2, 3])
    fields = rng.sample(["paid_loss", "reported_loss", "earned_premium"], rng.randint(1, 3))
    feb = None
    if rng.random() < 0.35:                     # month ends on Feb 28/29: leap years, century rule
        feb = rng.choice([2000, 2000, 2000, 2004, 2024, 2100, 2001, 1996, 2096])
        res = rng.choice([1, 3, 3, 12, 6])
    lag_res = None
    if rng.random() < 0.25:
        # experience periods LONGER than the development step: the evaluation dates of the triangle are unevenly
        # spaced and the month gaps stand in a divisor relation ({3,9}, {3,6}, {1,11}, {2,10}, {6,18}, {3,3,6}, ...)
        res, lag_res, L = rng.choice([(12, 3, 2), (12, 3, 2), (9, 3, 2), (12, 1, 2), (12, 2, 2), (24, 6, 2), (12, 3, 3), (12, 6, 2),
                                      (12, 4, 2), (6, 2, 2), (6, 1, 3)])
        shape, feb = rng.choice(["rect", "rect", "tri"]), None
        P = max(P, 2)
    rows = coords(rng, shape, P, L, res, feb, lag_res)
    cells = []
    small_first = rng.random() < 0.35     # minimum of a series small relative to its steps
    cf = coord_forms(rng)
    for m in metas(rng, n_slices):
        for ps, pe, evs in rows:
            base = {f: rng.randint(50, 500) for f in fields}
            for j, e in enumerate(evs):
                vals = {f: (base[f] * (j + 1) + rng.randint(0, 40) if f != "earned_premium" else base[f]) for f in fields}
                if small_first and (j == 0 and len(evs) > 1 or len(evs) == 1 and (ps, pe, evs) == rows[0]):
                    vals = {f: (rng.randint(1, 5) if f != "earned_premium" else v) for f, v in vals.items()}
                if rng.random() < 0.1:
                    vals = {f: float(v) + 0.5 for f, v in vals.items()}
                cells.append(CumulativeCell(period_start=cf(ps, 0), period_end=cf(pe, 1), evaluation_date=cf(e, 2), values=vals,
                                            metadata=rng.choice(m)))
    rng.shuffle(cells)
    return Triangle(cells), {"shape": shape, "P": P, "L": L, "slices": n_slices, "fields": fields, "feb": feb, "res": res, "lag_res": lag_res}


def gen_sample_triangle(rng, positive=False):
    """sample-valued triangle with correlated fields: reported_loss = 2*paid_loss + 1 samplewise"""
    from bermuda import CumulativeCell, Triangle

    n = rng.choice([2, 3, 4, 6])
    shape = rng.choice(["rect", "tri", "row", "col"])
    rows = coords(rng, shape, rng.randint(1, 4), rng.randint(1, 4), rng.choice([3, 12]))
    n_slices = rng.choice([1, 1, 2, 3])
    cells = []
    pool = list(range(1, 20000))
    rng.shuffle(pool)
    kinds = rng.sample(["B", "scalar", "float", "len1", "none"], rng.randint(1, 4))
    # HARDENING F/G/I/J: NumPy corner types (narrow dtypes, bool samples, big int64 / float64 scalars, 0-d arrays,
    # strided views), a field that only appears in later cells, restated cells, nested / overlapping periods
    extra = ["f32", "i32", "strided", "bigint", "npfloat", "bigsamples"] + ([] if positive else ["boolarr", "zero_d", "late"])
    kinds += rng.sample(extra, rng.choice([0, 0, 1, 2]))
    if rng.random() < 0.15:
        kinds.append("bigsamples")
    cf = coord_forms(rng)
    if rng.random() < 0.12:                    # nested / overlapping / semi-monthly periods sharing a start or an end
        base_rows = rows[:2]
        rows = base_rows + [(ps, D(pe.year, pe.month, 15), evs) for ps, pe, evs in base_rows[:1]] + \
            [(D(ps.year, ps.month, 16), pe, evs) for ps, pe, evs in base_rows[:1]]
    restated = (not positive) and rng.random() < 0.1
    # prediction-style triangles: some cells are OBSERVED (scalars in the sampled fields), the others carry
    # samples; "first": the first cell in triangle order is observed, "some": random cells are
    mixed = "no" if positive else rng.choice(["no", "no", "first", "first", "some", "last", "last",
                                              "first_d", "first_d", "middle_d", "last_d"])
    first_key = None
    for m in metas(rng, n_slices):
        for ps, pe, evs in rows:
            for e in evs:
                a = np.array([pool.pop() for _ in range(n)], dtype=np.int64)          # all distinct
                vals = {"paid_loss": a}
                if "B" in kinds:
                    vals["reported_loss"] = 2 * a + 1
                if "scalar" in kinds:
                    vals["earned_premium"] = rng.choice([rng.randint(1, 900), rng.randint(1, 900) / 4])
                if "float" in kinds:
                    vals["incurred_loss"] = a / 2.0
                if "len1" in kinds and not positive:
                    vals["reported_claims"] = np.array([rng.randint(1, 9)], dtype=np.int64)
                if "none" in kinds and not positive:
                    vals["written_premium"] = None
                if "f32" in kinds:
                    vals["open_claims"] = a.astype(np.float32)
                if "i32" in kinds:
                    vals["closed_claims"] = (a % 30000).astype(np.int16 if n % 2 else np.int32)
                if "boolarr" in kinds:
                    vals["reported_count"] = a % 2 == 0
                if "strided" in kinds:
                    vals["open_count"] = np.repeat(a, 2)[::2]                       # a non-contiguous view
                if "bigint" in kinds:
                    vals["closed_count"] = np.int64(2**60 + int(a[0]))
                if "bigsamples" in kinds:      # whole currency units of a large portfolio: squares overflow int64 (> 3.04e9)
                    vals["closed_loss"] = a * 1_000_003 + 3_100_000_000
                if "npfloat" in kinds:
                    vals["earned_exposure"] = np.float64(a[0] / 4)
                if "zero_d" in kinds:
                    vals["written_exposure"] = np.array(float(a[0]))               # 0-d array: a scalar, left untouched
                if "late" in kinds and cells:
                    vals["paid_loss_prior"] = a * 3
                cells.append(CumulativeCell(period_start=cf(ps, 0), period_end=cf(pe, 1), evaluation_date=cf(e, 2), values=vals,
                                            metadata=rng.choice(m)))
                if restated and rng.random() < 0.3:                                 # the same coordinates again, other values
                    cells.append(CumulativeCell(period_start=ps, period_end=pe, evaluation_date=e,
                                                values={k_: (v_[::-1].copy() if isinstance(v_, np.ndarray) and v_.ndim else v_)
                                                        for k_, v_ in vals.items()}, metadata=rng.choice(m)))
    if mixed != "no" and len(cells) > 1:
        order = sorted(range(len(cells)), key=lambda j: cells[j])
        if mixed.endswith("_d"):
            # FIELD-DISJOINT observed cells: they do not carry the sampled fields at all, only a scalar premium
            # (every field then has ONE size throughout the triangle).  first_d: the earliest cell(s) in sort order
            # or the whole first-sorting slice; middle_d: cells in the middle; last_d: the trailing ones.
            if mixed == "first_d":
                first_meta = cells[order[0]].metadata
                observed = {j for j in order if cells[j].metadata == first_meta}
                if len(observed) == len(cells) or rng.random() < 0.4:
                    observed = set(order[:rng.randint(1, max(1, len(cells) // 2))])
                observed -= {order[-1]}
            elif mixed == "middle_d":
                observed = set(order[1:-1][:rng.randint(1, max(1, len(cells) // 2))])
            else:
                observed = set(order[-rng.randint(1, max(1, len(cells) // 2)):]) - {order[0]}
            for j in observed:
                c = cells[j]
                keep = {f: v for f, v in c.values.items() if not (isinstance(v, np.ndarray) and v.size > 1)}
                keep.setdefault("earned_premium", c.values.get("earned_premium", 123.5)
                                if not isinstance(c.values.get("earned_premium"), np.ndarray) else 123.5)
                cells[j] = c.replace(values=keep)
            observed = set()
        elif mixed == "last":
            # scalar-only cells come LAST in sort order: the whole last-sorting slice is observed-only (multi
            # slice), or the trailing cell(s) of the only slice
            last_meta = cells[order[-1]].metadata
            observed = {j for j in order if cells[j].metadata == last_meta}
            if len(observed) == len(cells):
                observed = set(order[-rng.randint(1, max(1, len(cells) // 2)):])
            observed -= {order[0]}                                    # keep at least one sampled cell
        else:
            observed = {order[0]} if mixed == "first" else {j for j in order if rng.random() < 0.4}
            if mixed == "first" and rng.random() < 0.5:
                observed |= {j for j in order[1:-1] if rng.random() < 0.3}
            observed -= {order[-1]}                                   # keep at least one sampled cell
        for j in observed:
            c = cells[j]
            obs = {f: (int(v[0]) if isinstance(v, np.ndarray) and v.ndim and v.dtype.kind == "i" and len(v) > 1 else
                       float(v[0]) if isinstance(v, np.ndarray) and v.ndim and len(v) > 1 else v) for f, v in c.values.items()}
            cells[j] = c.replace(values=obs)
    rng.shuffle(cells)
    return Triangle(cells), n, {"shape": shape, "n": n, "slices": n_slices, "kinds": kinds, "mixed": mixed}


def canon(t):
    return tuple(canon_cell(c, ordered=True) for c in t.cells)


def frame(c):
    return (type(c).__name__, c.period_start, c.period_end, c.evaluation_date, getattr(c, "prev_evaluation_date", None))


def strip_boot(m):
    import dataclasses

    return dataclasses.replace(m, details={k: v for k, v in m.details.items() if k != "bootstrap"})


# ------------------------------------------------------------------------------------------ thin
# ------------------------------------------------------------------------------------------ LARGE stream (family Q)
def month_period(i, y0=1990):
    y, m = add_m(y0, 1, i)
    return D(y, m, 1), month_end(y, m)


def gen_big_sample(rng, spec):
    """Large sample-valued triangles, judged by the Python-side oracles only (no Coq literals):
       cells >= 512 / 1100 / 2100 / 3100 with sample arrays in only a few cells that sit between any stride, or
       in every cell; arrays of 4096 / 5000 / 40 000 / 10^5 samples incl. reversed (strided) views."""
    from bermuda import CumulativeCell, Metadata, Triangle

    ncells, n, where = spec["cells"], spec["n"], spec["arrays"]
    nper = max(1, ncells // 2)
    idx_arrays = set(range(ncells)) if where == "all" else {1, (ncells - 2) | 1} | {rng.randrange(ncells - 1) | 1 for _ in range(4)}      # odd positions: off every even stride
    g = np.random.default_rng(rng.randrange(10**9))
    cells, i = [], 0
    big = 2**53 + 1
    m = Metadata(details={"id": 20240000001}, per_occurrence_limit=2**53 + 1)
    for p_ in range(nper):
        ps, pe = month_period(p_)
        for lag in range(2 if ncells > 1 else 1):
            y, mo = add_m(pe.year, pe.month, lag)
            vals = {"earned_premium": big + p_}                                  # integers beyond 2**53 as values
            if i in idx_arrays and i < ncells:
                a = (g.permutation(n) + 1 + 10 * i).astype(np.int64 if n < 20000 else np.float64)   # distinct values
                vals["paid_loss"] = a[::-1] if spec.get("views") and i % 2 else a   # a reversed (negative-stride) view
                if spec.get("relation", True):
                    vals["reported_loss"] = 2 * vals["paid_loss"] + 1
            cells.append(CumulativeCell(period_start=ps, period_end=pe, evaluation_date=month_end(y, mo), values=vals, metadata=m))
            i += 1
    cells = cells[:ncells]
    t = Triangle(cells)
    return t, n, {"shape": f"LARGE:{ncells}cells/{n}samples/{where}", "n": n, "slices": 1, "kinds": ["big"], "mixed": where, "big": spec}


def gen_big_boot(rng, spec):
    from bermuda import CumulativeCell, Metadata, Triangle

    P, L, S = spec["P"], spec["L"], spec["slices"]
    fields = ["paid_loss", "earned_premium"][: spec.get("fields", 2)]
    cells = []
    for s_ in range(S):
        m = Metadata(details={"id": 20240000001 + s_ if s_ % 2 else 2**53 + s_})      # ids beyond 2**31 / 2**53
        for p_ in range(P):
            ps, pe = month_period(p_ * spec.get("res", 1), 2001)
            if spec.get("res", 1) > 1:
                y, mo = add_m(ps.year, ps.month, spec["res"] - 1)
                pe = month_end(y, mo)
            base = rng.randint(50, 500)
            for lag in range(L):
                y, mo = add_m(pe.year, pe.month, lag * spec.get("res", 1))
                cells.append(CumulativeCell(period_start=ps, period_end=pe, evaluation_date=month_end(y, mo), metadata=m,
                                            values={f: (base * (lag + 1) + rng.randint(0, 40) if f != "earned_premium" else base) for f in fields}))
    rng.shuffle(cells)
    return Triangle(cells), {"shape": f"LARGE:{S}slices/{P}x{L}", "P": P, "L": L, "slices": S, "fields": fields, "feb": None, "res": 1, "big": spec}


def rank_order_violations(x, out):
    """vectorised form of: exists p, q with x[p] < x[q] and out[p] > out[q]"""
    x, out = np.asarray(x, dtype=float), np.asarray(out, dtype=float)
    order = np.argsort(x, kind="stable")
    xs, os_ = x[order], out[order]
    starts = np.flatnonzero(np.r_[True, xs[1:] > xs[:-1]])
    gmax = np.maximum.reduceat(os_, starts)
    gmin = np.minimum.reduceat(os_, starts)
    return bool(len(starts) > 1 and (np.maximum.accumulate(gmax)[:-1] > gmin[1:]).any())


def true_num_samples(t):
    """Sample count computed independently of Triangle.num_samples: the common size of all arrays of size > 1
    (None if they disagree), 1 if there is none."""
    sizes = {v.size for c in t.cells for v in c.values.values() if isinstance(v, np.ndarray) and v.size > 1}
    return 1 if not sizes else (sizes.pop() if len(sizes) == 1 else None)


def thin_case(seed, big=None):
    """-> dict(coq=bool-term|None, fails=[...], info)"""
    import bermuda.utils as U

    rng = random.Random(seed)
    t, n, info = gen_big_sample(rng, big) if big else gen_sample_triangle(rng)
    n = true_num_samples(t)                      # from the arrays themselves, not from the library
    k = rng.choice([1, 1, 2, n - 1, n, n, n + 1, rng.randint(1, n + 2)])
    k = max(1, k)
    if big:
        k = rng.choice([1, 2, max(1, n - 1), max(1, n // 2), n])      # valid k: must not be refused
    s = rng.choice([0, 0, 1, 2**32 - 1, rng.randrange(10**6), rng.randrange(10**6), rng.randrange(10**6)])
    fails = []
    info["seed"] = s
    with Recording() as rec:
        try:
            out, exc = (U.thin(t, k, s) if rng.random() < 0.3 else U.thin(t, k, seed=s)), None
        except Exception as ex:  # noqa: BLE001
            out, exc = None, ex
    draws = [d for kind, d in rec.log if kind == "choice"]
    ndxs = draws[0] if draws else []
    info.update(k=k, outcome="raised" if exc else "returned")
    # ---- direct oracles (n is the TRUE sample count)
    try:
        if t.num_samples != n:
            fails.append(f"Triangle.num_samples = {t.num_samples} but every sample array holds {n} samples")
    except ValueError:
        fails.append("Triangle.num_samples refuses a triangle whose sample arrays all have the same size")
    if k > n:
        if not isinstance(exc, ValueError):
            fails.append(f"k={k} > n={n} not refused with ValueError: {exc!r}")
    elif exc is not None:
        fails.append(f"k={k} <= n={n} raised {exc!r}")
    elif k == n:
        if out is not t:
            fails.append("k == n does not return the argument itself")
    else:
        if len(out) != len(t):
            fails.append("number of cells changed")
        fails += plain_dates(out.cells)
        positions = None
        for c, c2 in zip(t.cells, out.cells):
            if frame(c) != frame(c2) or c.metadata != c2.metadata or list(c.values) != list(c2.values):
                fails.append("coordinates / metadata / field names changed")
                break
            # EVERY array (size > 1) of EVERY cell: k samples, taken at the same distinct positions
            stop = False
            for f, v in c.values.items():
                v2 = c2.values[f]
                if isinstance(v, np.ndarray) and v.ndim > 0 and len(v) > 1:
                    if not (isinstance(v2, np.ndarray) and v2.dtype == v.dtype):
                        fails.append(f"field {f} @ {c.evaluation_date}: array replaced by {type(v2).__name__}")
                        stop = True
                        break
                    if len(v2) != k:
                        fails.append(f"field {f} @ {c.evaluation_date}: {len(v2)} samples kept, wanted k={k}")
                        stop = True
                        break
                    if ndxs and len(ndxs) == k and not np.array_equal(v2, v[ndxs]):
                        fails.append(f"field {f} @ {c.evaluation_date}: not the samples at the recorded positions {ndxs}")
                        stop = True
                        break
                    if len(set(v.tolist())) != len(v):          # positions can only be read off distinct values
                        continue
                    pos = [int(np.where(v == x)[0][0]) if (v == x).any() else -1 for x in v2]
                    if -1 in pos:
                        fails.append(f"field {f}: thinned values are not samples of the source array")
                        stop = True
                        break
                    if len(set(pos)) != len(pos):
                        fails.append(f"sample positions not distinct: {pos}")
                    if positions is None:
                        positions = pos
                    elif pos != positions:
                        fails.append(f"different sample positions in different arrays/cells: {positions} vs {pos} (field {f})")
                        stop = True
                        break
                elif C.canon_value(v) != C.canon_value(v2):
                    fails.append(f"field {f}: scalar / short array / None changed")
            if stop:
                break
            p2, r2 = c2.values.get("paid_loss"), c2.values.get("reported_loss")
            if isinstance(p2, np.ndarray) and isinstance(r2, np.ndarray) and len(p2) > 1 and not np.array_equal(r2, 2 * p2 + 1):
                fails.append("samplewise relation reported_loss = 2*paid_loss+1 lost")
        if positions is not None and positions != ndxs:
            fails.append(f"positions {positions} differ from the recorded draw {ndxs}")
        if len(draws) != 1:
            fails.append(f"{len(draws)} index vectors drawn instead of one")
        if true_num_samples(out) != k:
            fails.append(f"thinned triangle holds {true_num_samples(out)} samples per array, wanted {k}")
        try:
            if out.num_samples != k:
                fails.append(f"thinned triangle reports num_samples={out.num_samples}, wanted {k}")
        except ValueError:
            fails.append("thinned triangle has inconsistent sample counts")
        # seed determinism (monitor): the same seed twice, boundary seed 0 included, compared strictly
        again = U.thin(t, k, seed=s)
        if canon(again) != canon(out):
            fails.append(f"same seed ({s}) twice gave different results")
    digest = type(exc).__name__ if exc is not None else hash(canon(out))
    # ---- model (LARGE cases are judged by the Python-side oracles only)
    try:
        if big:
            raise C.NotRepresentable("large")
        impl = f"(Err {cerr(exc)})" if exc is not None else f"(Ok {C.ccells(out.cells)})"
        term = (f"result_eqb (list_eqb cell_seqb) (thin {C.ccells(t.cells)} {k}%nat {nats(ndxs)})\n  {impl}")
    except C.NotRepresentable:
        term = None
    return {"coq": term, "fails": fails, "info": info, "n_cells": len(t), "digest": digest}


# ------------------------------------------------------------------------------------------ bootstrap
F_SUBSET = {"kind": "bootstrap_field_subset_atas_keyerror"}


def develop_float(slice_cells, fac, sel=lambda f: True):
    """Model/Resample.v develop, in floating point, with the recorded factors fac(cell, field)."""
    first_ev = {}
    for c in slice_cells:
        first_ev[c.period] = min(first_ev.get(c.period, c.evaluation_date), c.evaluation_date)
    out, carried = [], {}
    for c in slice_cells:
        if c.evaluation_date == first_ev[c.period]:
            out.append(dict(c.values))
            carried = c.values
        else:
            new = {f: (v * fac(c, f) if c.values.get(f) else None) for f, v in carried.items() if sel(f)}
            vals = {**c.values, **new}
            out.append(vals)
            carried = vals
    return out


def boot_case(seed, big=None):
    import bermuda.utils as U

    B = importlib.import_module("bermuda.utils.bootstrap")
    rng = random.Random(seed)
    t, info = gen_big_boot(rng, big) if big else gen_boot_triangle(rng)
    n = 1 if big else rng.choice([1, 2, 3])
    s = rng.choice([0, 0, 1, 2**32 - 1, rng.randrange(10**6), rng.randrange(10**6), rng.randrange(10**6)])
    fsel = rng.choice([None, None, rng.choice(info["fields"]), rng.sample(info["fields"], rng.randint(1, len(info["fields"]))), []])
    fails, terms, known = [], [], []
    info["seed"] = s
    positional = rng.random() < 0.3
    for bad_n in (0, -1):                       # documented refusal, and nothing is returned
        try:
            U.bootstrap(t, bad_n, seed=s)
            fails.append(f"bootstrap(t, {bad_n}, seed) not refused")
        except ValueError:
            pass
        except Exception as ex:  # noqa: BLE001
            fails.append(f"bootstrap(t, {bad_n}, seed) raised {ex!r} instead of ValueError")
    with Recording() as rec:
        try:
            reps, exc = (U.bootstrap(t, n, s, fsel) if positional else U.bootstrap(t, n, seed=s, field=fsel)), None
        except Exception as ex:  # noqa: BLE001
            reps, exc = None, ex
    info.update(n=n, field=fsel, outcome="raised:" + type(exc).__name__ if exc else "returned")
    if exc is not None:
        fails.append(f"bootstrap raised {exc!r} on a positive complete triangle")
        cls = None
        sel_fields = [fsel] if isinstance(fsel, str) else (fsel or [])
        ata = any(len(sl.dev_lags()) > 1 and len(sl.periods) > 1 and len(sl.evaluation_dates) > 1
                  for sl in t.slices.values())
        if (isinstance(exc, KeyError) and exc.args and exc.args[0] in t.fields and sel_fields
                and exc.args[0] not in sel_fields and ata):
            cls = F_SUBSET     # known class: a field selection that does not cover every field, ata branch
        return {"coq": [], "fails": fails, "info": info, "n_cells": len(t), "class": cls}
    if len(reps) != n:
        fails.append(f"{len(reps)} replicates instead of n={n}")
    slices = list(t.slices.items())
    fields = [fsel] if isinstance(fsel, str) else fsel if isinstance(fsel, list) else t.fields
    # which method per slice (as the code decides) and the recorded draws per slice
    draws = list(rec.log)
    ptr = 0
    per_slice = []
    for m, sl in slices:
        atas_method = len(sl.dev_lags()) > 1 and len(sl.periods) > 1 and len(sl.evaluation_dates) > 1
        if atas_method:
            atas, _ = B._empirical_atas(sl, fields)
            fac = {}
            for i in range(n):
                for lag in atas:
                    for f in fields:
                        kind, d = draws[ptr][0], draws[ptr][1]
                        ptr += 1
                        if kind != "choice":
                            fails.append("unexpected draw kind in the age-to-age method")
                        fac[(i, lag, f)] = atas[lag][f][d]
            per_slice.append(("atas", fac))
        else:
            us = {}
            for i in range(n):
                for f in fields:
                    kind, d = draws[ptr][0], draws[ptr][1]
                    ptr += 1
                    us[(i, f)] = d
            per_slice.append(("me", us))
    info["methods"] = sorted({k for k, _ in per_slice})
    if ptr != len(draws):
        fails.append(f"{len(draws)} draws recorded, {ptr} accounted for")
    for i, rep in enumerate(reps[:n]):
        fails += plain_dates(rep.cells)
        if [frame(c) for c in sorted(rep.cells, key=lambda c: (c.period_start, c.evaluation_date, repr(strip_boot(c.metadata))))] != \
           [frame(c) for c in sorted(t.cells, key=lambda c: (c.period_start, c.evaluation_date, repr(c.metadata)))]:
            fails.append(f"replicate {i}: coordinates differ from the input")
        if set(rep.fields) != set(t.fields):
            fails.append(f"replicate {i}: field names {sorted(rep.fields)} != {sorted(t.fields)}")
        if any(c.metadata.details.get("bootstrap") != i for c in rep.cells):
            fails.append(f"replicate {i}: detail bootstrap != {i}")
        if {strip_boot(c.metadata) for c in rep.cells} != set(t.metadata):      # by ==, whatever the spelling
            fails.append(f"replicate {i}: slices differ from the input")
        for (m, sl), (method, data) in zip(slices, per_slice):
            rc = [c for c in rep.cells if strip_boot(c.metadata) == m]
            if len(rc) != len(sl):
                fails.append(f"replicate {i}: slice has {len(rc)} cells, input {len(sl)}")
                continue
            periods = {p: j for j, p in enumerate(sl.periods)}
            if method == "atas":
                first_ev = {}
                for c in sl.cells:
                    first_ev[c.period] = min(first_ev.get(c.period, c.evaluation_date), c.evaluation_date)
                for c, c2 in zip(sl.cells, rc):
                    if c.evaluation_date == first_ev[c.period] and canon_cell(c, True)[6] != canon_cell(c2, True)[6]:
                        fails.append(f"replicate {i}: earliest development cell of period {c.period_start} changed")
                        break
                want = develop_float(sl.cells, lambda c, f: data[(i, c.dev_lag(), f)][periods[c.period]]
                                     if (i, c.dev_lag(), f) in data else float("nan"), lambda f: f in fields)
                for c2, w in zip(rc, want):
                    for f in w:
                        a, b = c2.values.get(f, "missing"), w[f]
                        ok = (a is None and b is None) or (a not in (None, "missing") and b is not None and (
                            (isinstance(b, float) and b != b) or math.isclose(a, b, rel_tol=1e-9, abs_tol=1e-9)))
                        if not ok:
                            fails.append(f"replicate {i}: value chain differs from the recorded factors at field {f}: {a} vs {b}")
                            break
            else:
                for f in fields:
                    src = [c[f] for c in sl.cells]
                    outv = [c[f] for c in rc]
                    if len(outv) != len(src):
                        fails.append("maximum entropy: length changed")
                    # "within the given limits" L = (0, max(source)): an oracle: below 0 is a violation, above max is the known finding U1 (the mean-preserving
                    # shift of the algorithm can move a value past the limit)
                    info["me_series"] = info.get("me_series", 0) + 1
                    lo_, hi_ = limits_verdict(outv, 0, max(src))
                    if lo_:
                        fails.append(f"replicate {i}: maximum-entropy series of {f} leaves the LOWER limit 0 "
                                     f"(bootstrap passes L=(0, max)): min {min(outv)} for source {src}")
                    if hi_:
                        info["me_above_upper"] = info.get("me_above_upper", 0) + 1
                        known.append(f"replicate {i}: maximum-entropy series of {f} exceeds the upper limit {max(src)}: "
                                     f"max {max(outv)} for source {src}")
                    bad = ([(p, q) for p in range(len(src)) for q in range(len(src)) if src[p] < src[q] and outv[p] > outv[q]]
                           if len(src) <= 200 else (["(vectorised check)"] if rank_order_violations(src, outv) else []))
                    if bad:
                        fails.append(f"replicate {i}: maximum-entropy output does not keep the rank order of {f}: {bad[:2]}")
                for c, c2 in zip(sl.cells, rc):
                    for f in c.values:
                        if f not in fields and C.canon_value(c.values[f]) != C.canon_value(c2.values[f]):
                            fails.append(f"replicate {i}: unselected field {f} changed")
            # ---- model, per slice
            try:
                if big:
                    raise C.NotRepresentable("large")
                slt, rct = C.ccells(sl.cells), ccells_r(rc)
                sel_t = "[" + ";".join(cstr(f) for f in fields) + "]"
                if method == "atas":
                    terms.append(
                        f"(let s := {slt} in let m := map (with_detail {i}) (develop idmul (fun k => existsb (str_eqb k) {sel_t}) s) in let o := {rct} in\n"
                        f"   all2 cell_shape_eqb m o && all2 (fun c c' => negb (is_first s c) || cell_seqb (with_detail {i} c) c') s o)")
                else:
                    conj = " && ".join(
                        f"rank_order_b (flat_map (arr_of {cstr(f)}) s) (flat_map (arr_of {cstr(f)}) o)" for f in fields) or "true"
                    terms.append(
                        f"(let s := {slt} in let o := {rct} in\n"
                        f"   all2 cell_shape_eqb (map (with_detail {i}) s) o && {conj})")
            except C.NotRepresentable:
                pass
    # seed determinism (monitor)
    again = U.bootstrap(t, n, seed=s, field=fsel)
    if [canon(r) for r in again] != [canon(r) for r in reps]:
        fails.append(f"same seed ({s}) twice gave different replicates (n={n}, field={fsel!r})")
    return {"coq": terms, "fails": fails, "info": info, "n_cells": len(t), "known": known,
            "digest": hash(tuple(canon(r) for r in reps))}


U1 = {"kind": "max_entropy_exceeds_upper_limit"}


def limits_verdict(out, lo, hi):
    """(below lower limit, above upper limit) with a relative tolerance of 1e-9"""
    below = lo is not None and min(out) < lo - 1e-9 * max(1.0, abs(lo))
    above = hi is not None and max(out) > hi + 1e-9 * max(1.0, abs(hi))
    return below, above


def me_case(seed, big=None):
    """maximum_entropy_ensemble called directly: explicit limits incl. (0, max), wider limits, None, one-sided"""
    B = importlib.import_module("bermuda.utils.bootstrap")
    rng = random.Random(seed)
    n = big["n"] if big else rng.randint(2, 8)
    style = rng.choice(["plain", "small_min", "small_min", "ties", "float", "unsorted"]) if not big else rng.choice(["float", "unsorted"])
    if style == "small_min":
        x = sorted([rng.randint(1, 5)] + [rng.randint(300, 2000) for _ in range(n - 1)])
    elif style == "ties":
        x = sorted(rng.choice([10, 20, 20, 300, 300, 900]) for _ in range(n))
    elif style == "float":
        x = sorted(rng.randint(1, 4000) / 4 for _ in range(n))
    else:
        x = [rng.randint(1, 3000) for _ in range(n)]
        if style == "plain":
            x.sort()
    if rng.random() < 0.5:
        rng.shuffle(x)
    mn, mx = min(x), max(x)
    L = rng.choice([(0, mx), (0, mx), (0, mx), (mn, mx), (mn - rng.randint(0, 50), mx + rng.randint(0, 50)),
                    (-rng.randint(1, 100), mx), None, (None, mx), (0, None)])
    U = [float(u) for u in np.random.default_rng(rng.randrange(10**6)).uniform(size=n)]
    info = {"shape": style, "L": L, "n": n, "x": x}
    fails, known = [], []
    if rng.random() < 0.05 and len(set(x)) > 1:  # documented refusal: a missing value cannot be bootstrapped
        xn = list(x)
        xn[rng.randrange(1, n)] = None
        try:
            B.maximum_entropy_ensemble(xn, list(U), L=(0, mx))
            fails.append(f"a series with a missing value was not refused: {xn}")
        except ValueError:
            pass
        except Exception as ex:  # noqa: BLE001
            fails.append(f"a series with a missing value raised {ex!r} instead of ValueError")
    try:
        out, exc = B.maximum_entropy_ensemble(list(x), list(U), L=L), None
    except Exception as ex:  # noqa: BLE001
        out, exc = None, ex
    info["outcome"] = "raised:" + type(exc).__name__ if exc else "returned"
    one_sided = L is not None and (L[0] is None or L[1] is None)
    if exc is not None:
        if not one_sided:
            fails.append(f"maximum_entropy_ensemble raised {exc!r} for x={x}, L={L}")
        return {"coq": None, "fails": fails, "known": known, "info": info, "n_cells": n}
    out = [float(v) for v in out]
    if len(out) != len(x):
        fails.append(f"length {len(out)} != {len(x)}")
    bad = ([(p, q) for p in range(len(x)) for q in range(len(x)) if x[p] < x[q] and out[p] > out[q]]
           if len(x) <= 200 else (["(vectorised check)"] if rank_order_violations(x, out) else []))
    if bad:
        fails.append(f"rank order of the source not kept: positions {bad[:3]} for x={x}")
    if L is not None and len(set(x)) > 1:
        lo_, hi_ = limits_verdict(out, L[0], L[1])
        if lo_:
            fails.append(f"value {min(out)} below the given lower limit {L[0]} for x={x}, U={U}, L={L}")
        if hi_:
            known.append(f"value {max(out)} above the given upper limit {L[1]} for x={x}, U={U}, L={L}")
    try:
        term = f"rank_order_b {zs([r1024(v) for v in x])} {zs([r1024(v) for v in out])}"
    except C.NotRepresentable:
        term = None
    return {"coq": term, "fails": fails, "known": known, "info": info, "n_cells": n}


def probe_limits(ctx):
    """Directed inputs: (a) the listed known finding U1 -- upper limit exceeded; (b) the lower limit 0 that
    bootstrap() always passes, on a series whose minimum is small relative to its steps."""
    B = importlib.import_module("bermuda.utils.bootstrap")
    x, U, L = [2880, 2927], [0.7597757602951974, 0.49177012269810716], (0, 2927)
    out = [float(v) for v in B.maximum_entropy_ensemble(list(x), list(U), L=L)]
    hit = False
    if limits_verdict(out, *L)[1]:
        ctx.violation("impl-violation", f"maximum_entropy_ensemble({x}, U, L={L}) = {out}: above the upper limit",
                      {"mode": "probe_limits", "x": x, "U": U, "L": list(L), "out": out}, found_input=True, finding_class=U1)
        hit = True
    if limits_verdict(out, *L)[0]:
        ctx.violation("impl-violation", f"maximum_entropy_ensemble({x}, U, L={L}) = {out}: below the lower limit",
                      {"mode": "probe_limits", "x": x, "U": U, "L": list(L), "out": out}, found_input=True)
        hit = True
    x = [3, 420, 910, 1480, 1790, 1900]
    for sd in range(12):
        U = [float(u) for u in np.random.default_rng(sd).uniform(size=len(x))]
        out = [float(v) for v in B.maximum_entropy_ensemble(list(x), list(U), L=(0, max(x)))]
        if limits_verdict(out, 0, None)[0]:
            ctx.violation("impl-violation",
                          f"maximum_entropy_ensemble({x}, U(seed {sd}), L=(0, {max(x)})) goes below the lower limit 0: min {min(out)}",
                          {"mode": "probe_limits", "x": x, "U": U, "L": [0, max(x)], "out": out}, found_input=True)
            return True
    return hit


def probe_field_subset(ctx):
    """Directed input for the finding class F_SUBSET: field selection not covering all fields, ata branch."""
    from bermuda import CumulativeCell, Triangle
    import bermuda.utils as U

    def cell(y, e, p, ep):
        return CumulativeCell(period_start=D(y, 1, 1), period_end=D(y, 12, 31), evaluation_date=D(e, 12, 31),
                              values={"paid_loss": p, "earned_premium": ep})

    with warnings.catch_warnings():
        warnings.simplefilter("ignore")
        t = Triangle([cell(2020, 2020, 100, 500), cell(2020, 2021, 150, 500), cell(2021, 2021, 120, 600), cell(2021, 2022, 200, 600)])
        try:
            reps = U.bootstrap(t, 1, seed=1, field="paid_loss")
        except KeyError as ex:
            ctx.violation("impl-violation",
                          f"bootstrap(t, 1, seed=1, field='paid_loss') raises KeyError({ex.args[0]!r}) on a 2x2 two-field triangle "
                          "(age-to-age branch develops every carried field, factors exist for the selected fields only)",
                          {"mode": "probe_field_subset"}, found_input=True, finding_class=F_SUBSET)
            return True
        except Exception as ex:  # noqa: BLE001
            ctx.violation("impl-violation", f"bootstrap with a field selection raised {ex!r}", {"mode": "probe_field_subset"},
                          found_input=True)
            return True
        # repaired: the first cells must be unchanged and the unselected field untouched everywhere
        bad = [c for c, c0 in zip(reps[0].cells, t.cells) if c.values.get("earned_premium") != c0.values["earned_premium"]]
        if bad:
            ctx.violation("impl-violation", "bootstrap(field='paid_loss') changed the unselected field earned_premium",
                          {"mode": "probe_field_subset"}, found_input=True)
            return True
    return False


# ------------------------------------------------------------------------------------------ moment_match
def mm_case(seed, big=None):
    import bermuda.utils as U

    rng = random.Random(seed)
    t, n, info = gen_big_sample(rng, big) if big else gen_sample_triangle(rng, positive=True)
    dist = rng.choice(["normal", "lognormal", "gamma"])
    avail = list(t.fields)
    fsel = rng.sample(avail, rng.randint(1, len(avail)))
    if rng.random() < 0.08:
        fsel.append("nope")
    if big:
        fsel = ["paid_loss"] + [f for f in fsel if f not in ("paid_loss", "nope")]
    elif rng.random() < 0.06:
        fsel = []                                # falsy but valid: nothing to match, nothing may change
    fails = []
    gseed = rng.choice([0, rng.randrange(10**6)])
    np.random.seed(gseed)
    with Recording() as rec:
        try:
            out, exc = U.moment_match(t, fsel, dist), None
        except Exception as ex:  # noqa: BLE001
            out, exc = None, ex
    info.update(dist=dist, fields=fsel, outcome="raised:" + type(exc).__name__ if exc else "returned")
    if "nope" in fsel:
        if not isinstance(exc, KeyError):
            fails.append(f"unknown field not refused with KeyError: {exc!r}")
        return {"coq": None, "fails": fails, "info": info, "n_cells": len(t)}
    if exc is not None:
        fails.append(f"moment_match raised {exc!r}")
        return {"coq": None, "fails": fails, "info": info, "n_cells": len(t)}
    draws = [(k, kw, d) for k, kw, d in [x for x in rec.log if len(x) == 3]]
    ptr = 0
    tab_p, tab_d = [], []
    for f in fsel:
        for i, c in enumerate(t.cells):
            v = c.values[f]
            if type(v) is np.ndarray:
                kind, kw, d = draws[ptr]
                ptr += 1
                if kind != dist:
                    fails.append(f"sampler {kind} used for distribution {dist}")
                if len(d) != len(v):
                    fails.append(f"sampler returned {len(d)} variates for {len(v)} samples")
                mu, var = float(np.mean(v)), float(np.var(v))
                if dist == "normal":
                    m_, v_ = kw["loc"], kw["scale"] ** 2
                elif dist == "lognormal":
                    m_ = math.exp(kw["mean"] + kw["sigma"] ** 2 / 2)
                    v_ = (math.exp(kw["sigma"] ** 2) - 1) * math.exp(2 * kw["mean"] + kw["sigma"] ** 2)
                else:
                    m_, v_ = kw["shape"] * kw["scale"], kw["shape"] * kw["scale"] ** 2
                # the moments of a float32 / int16 sample are only known to the precision of that dtype
                tol_m, tol_v = (1e-9, 1e-7) if v.dtype.itemsize >= 8 else (1e-5, 1e-4)
                if not (math.isclose(m_, mu, rel_tol=tol_m) and math.isclose(v_, var, rel_tol=tol_v)):
                    fails.append(f"{dist} parameters do not match the sample mean/variance: ({m_}, {v_}) vs ({mu}, {var})")
                perm = [int(x) for x in v.argsort()]
                if not big:
                    tab_p.append(f"({i}%nat, {cstr(f)}, {nats(perm)})")
                    tab_d.append(f"({i}%nat, {cstr(f)}, {zs([r1024(x) for x in d])})")
                o = out.cells[i].values[f]
                if not (isinstance(o, np.ndarray) and len(o) == len(v)):
                    fails.append(f"field {f}: replaced by something of another length/kind")
                else:
                    if sorted(o.tolist()) != sorted(d):
                        fails.append(f"field {f}: output is not a rearrangement of the drawn variates")
                    if [int(x) for x in o.argsort()] != perm and len(set(v.tolist())) == len(v) and len(set(d)) == len(d):
                        fails.append(f"field {f}: rank order of the source samples not kept")
                    if not (math.isclose(float(np.mean(o)), float(np.mean(d)), rel_tol=1e-9, abs_tol=1e-9)
                            and math.isclose(float(np.var(o)), float(np.var(d)), rel_tol=1e-9, abs_tol=1e-9)):
                        fails.append(f"field {f}: mean / variance of the output differ from those of the drawn variates")
    if ptr != len(draws):
        fails.append(f"{len(draws)} sampler calls recorded, {ptr} accounted for")
    fails += plain_dates(out.cells)
    for c, c2 in zip(t.cells, out.cells):
        if frame(c) != frame(c2) or c.metadata != c2.metadata or list(c.values) != list(c2.values):
            fails.append("coordinates / metadata / field names changed")
            break
        for f, v in c.values.items():
            if (f not in fsel or type(v) is not np.ndarray) and C.canon_value(v) != C.canon_value(c2.values[f]):
                fails.append(f"field {f}: unselected field or scalar changed")
    np.random.seed(gseed)                        # the same global seed again: the same triangle
    again = U.moment_match(t, fsel, dist)
    if canon(again) != canon(out):
        fails.append(f"np.random.seed({gseed}) twice gave different moment-matched triangles")
    try:
        if big:
            raise C.NotRepresentable("large")
        fl = "[" + ";".join(cstr(f) for f in fsel) + "]"
        term = (f"(let perms := [{';'.join(tab_p)}] in let draws := [{';'.join(tab_d)}] in let t := {C.ccells(t.cells)} in\n"
                f"   list_eqb cell_seqb (moment_match {fl} (fun i k => look2 [] i k perms) (fun i k => look2 [] i k draws) t)\n"
                f"   {ccells_r(out.cells)}\n"
                f"   && forallb (fun e => let '(i, k, p) := e in valid_perm_b (arr_of k (nth i t (mkCell KCell 0 0 0 None default_meta []))) p) perms)")
    except C.NotRepresentable:
        term = None
    return {"coq": term, "fails": fails, "info": info, "n_cells": len(t), "digest": hash(canon(out))}


def large_plan(quick):
    """(kind, function, spec) of the LARGE stream: sizes cross the thresholds of notes/HARDENING.md family Q."""
    T = [("thin", thin_case, {"cells": 600, "n": 7, "arrays": "sparse"}),          # >= 512 cells, arrays between strides
         ("thin", thin_case, {"cells": 1100, "n": 3, "arrays": "all"}),            # > 1024 cells / 550 months
         ("thin", thin_case, {"cells": 4, "n": 5000, "arrays": "all", "views": True}),
         ("moment_match", mm_case, {"cells": 2, "n": 40000, "arrays": "all", "relation": False}),   # > 32768 samples
         ("moment_match", mm_case, {"cells": 2, "n": 4096, "arrays": "all", "views": True}),
         ("bootstrap", boot_case, {"P": 5, "L": 70, "slices": 1}),                 # rows of > 65 cells, > 64 evaluation dates
         ("bootstrap", boot_case, {"P": 2, "L": 2, "slices": 260, "res": 3}),      # slice boundary past 256
         ("bootstrap", boot_case, {"P": 1, "L": 130, "slices": 1, "fields": 1}),   # maximum entropy on a long row
         ("max_entropy", me_case, {"n": 3000})]
    if not quick:
        T += [("thin", thin_case, {"cells": 2100, "n": 5, "arrays": "sparse"}), ("thin", thin_case, {"cells": 3100, "n": 4, "arrays": "all"}),
              ("thin", thin_case, {"cells": 6, "n": 100000, "arrays": "all", "views": True}),
              ("moment_match", mm_case, {"cells": 2, "n": 100000, "arrays": "all", "relation": False}),
              ("bootstrap", boot_case, {"P": 12, "L": 90, "slices": 2}), ("bootstrap", boot_case, {"P": 2, "L": 3, "slices": 2200, "res": 3}),
              ("max_entropy", me_case, {"n": 40000})]
    return T


# ------------------------------------------------------------------------------------------ the check
def run(ctx):
    ctx.rule = (
        "thin: sample-valued triangles (1-3 slices, 1-4 periods/lags, rectangle/triangle/row/column; 2-6 samples; observed "
        "scalar cells mixed with sampled cells incl. the first cell in triangle order; seeds incl. 0 and 2^32-1, every call repeated with the same seed; all "
        "sample values distinct; correlated field reported_loss = 2*paid_loss+1, float arrays, scalars, size-1 arrays, None), "
        "k in 1..n+2, seeds; bootstrap: positive complete rectangular / upper-left triangular triangles, single row / column "
        "/ diagonal, 1-3 slices, 1-6 periods and lags, n in 1..3, seeds, field selections (None, str, list); moment_match: "
        "positive sample-valued triangles x {normal, lognormal, gamma} x field subsets (+ unknown field). Every draw made "
        "through numpy is recorded and fed to the model in coqc. Non-trivial = distinct case with >= 2 cells or a refusal.")
    ctx.assumptions += [
        "PARTIAL: RNG and samplers are oracles; structure theorems hold for every oracle value",
        "NOT decided by proof (numerical / monitor only): seed determinism, distinctness of choice(replace=False), "
        "'within the given limits' of the maximum-entropy ensemble (ORACLE on every maximum-entropy case: below the lower "
        "limit = violation, above the upper limit = known finding U1), mean/variance scale of moment_match "
        "(checked on the sampler PARAMETERS with tolerance 1e-9/1e-7), len(sampler output) = len(samples)",
        "bootstrap value chain is compared in floating point (1e-9) against the recorded factors; inside coqc only the "
        "shape (coordinates, slices, field names, None-vs-number) and the unchanged first cells are compared exactly",
        "is_first uses evaluation dates (dev_lag is strictly monotone in the evaluation date for a fixed period)",
    ]
    ctx.audit_tree(["Model/Resample.v", "Proofs/ResampleP.v", "Props/C17.v"])
    ctx.prove_static("Props/C17.v", timeout=600)
    tie_failure = thin_translation(ctx)
    if not ctx.quick:
        coqchk(ctx)
    rng = random.Random(ctx.seed * 15485863 + 17)
    mult = 1 if ctx.quick else 8
    plan = [("thin", thin_case, 260 * mult), ("bootstrap", boot_case, 160 * mult), ("moment_match", mm_case, 160 * mult),
            ("max_entropy", me_case, 300 * mult)]
    terms = []   # (kind, seed, term)
    nfail, nknown, nu1 = 0, 0, 0
    early = []
    probe_field_subset(ctx)
    probe_limits(ctx)
    for kind, fn, count in plan:
        for _ in range(count):
            seed = rng.randrange(2**31)
            with warnings.catch_warnings():
                warnings.simplefilter("ignore")
                with np.errstate(all="ignore"):
                    out = fn(seed)
            info = out["info"]
            ctx.hist(f"{kind}:{info.get('outcome', '?').split(':')[0]}")
            ctx.hist(f"{kind}:shape={info.get('shape')}")
            if "mixed" in info and kind == "thin":
                ctx.hist(f"thin:observed-scalar-cells={info['mixed']}")
            if kind in ("thin", "bootstrap"):
                ctx.hist(f"{kind}:seed={'0' if info.get('seed') == 0 else 'nonzero'} (same seed called twice)")
            if kind == "bootstrap":
                if info.get("feb"):
                    ctx.hist(f"bootstrap:month ends incl. February {info['feb']}")
                if info.get("lag_res"):
                    ctx.hist(f"bootstrap:uneven evaluation spacing (period {info['res']}m, step {info['lag_res']}m)")
                for m in info.get("methods", []):
                    ctx.hist(f"bootstrap:method={m}")
                ctx.hist("bootstrap:max-entropy series", info.get("me_series", 0))
                ctx.hist("bootstrap:max-entropy series above the upper limit (known finding U1)", info.get("me_above_upper", 0))
            if out["n_cells"] >= 2 or info.get("outcome") != "returned":
                ctx.nontriv((kind, seed))
            ctx.count(evaluations=1)
            if "digest" in out and not out["fails"] and sum(1 for e in early if e[0] == kind) < 6:
                early.append((kind, fn, seed, out["digest"]))
            if kind == "max_entropy":
                ctx.hist(f"max_entropy:L={'None' if info['L'] is None else 'one-sided' if None in info['L'] else 'two-sided'}")
            for msg in out.get("known", [])[:1]:          # the listed finding U1: upper limit exceeded
                nu1 += 1
                if nu1 <= 2:
                    ctx.violation("impl-violation", f"{kind}: {msg}",
                                  {"mode": kind, "seed": seed, "known": out["known"][:3], "info": {k: str(v) for k, v in info.items()}},
                                  found_input=True, finding_class=U1)
            if out["fails"]:
                nfail += 1
                cls = out.get("class")
                if cls is not None:
                    nfail -= 1
                    nknown += 1
                if (cls is None and nfail <= 6) or (cls is not None and nknown <= 2):
                    ctx.violation("impl-violation", f"{kind}: {out['fails'][0]}",
                                  {"mode": kind, "seed": seed, "fails": out["fails"][:5], "info": {k: str(v) for k, v in info.items()}},
                                  found_input=True, finding_class=cls)
            ts = out["coq"] if isinstance(out["coq"], list) else ([out["coq"]] if out["coq"] else [])
            for tm in ts:
                terms.append((kind, seed, tm))
            if len(ctx.samples) < 3 and ts:
                ctx.sample({"kind": kind, "seed": seed, "info": {k: str(v) for k, v in info.items()}})
    # ---- LARGE stream (Python-side oracles only) and the re-check of the earliest small cases after it
    big_fail = 0
    for j, (kind, fn, spec) in enumerate(large_plan(ctx.quick)):
        seed = ctx.seed * 1000 + j
        with warnings.catch_warnings():
            warnings.simplefilter("ignore")
            with np.errstate(all="ignore"):
                out = fn(seed, big=spec)
        ctx.hist(f"LARGE:{kind}:{out['info'].get('shape')}")
        ctx.count(evaluations=1)
        ctx.nontriv(("large", kind, seed, repr(spec)))
        for msg in out.get("known", [])[:1]:
            ctx.violation("impl-violation", f"{kind}: {msg}", {"mode": kind, "seed": seed, "big": spec}, found_input=True, finding_class=U1)
        if out["fails"]:
            big_fail += 1
            nfail += 1
            ctx.violation("impl-violation", f"{kind} (large input {spec}): {out['fails'][0]}",
                          {"mode": kind, "seed": seed, "big": spec, "fails": out["fails"][:5]}, found_input=True)
    for kind, fn, seed, digest in early:
        with warnings.catch_warnings():
            warnings.simplefilter("ignore")
            with np.errstate(all="ignore"):
                out = fn(seed)
        if out["fails"] or out.get("digest") != digest:
            nfail += 1
            ctx.violation("impl-violation", f"{kind}: an early small case gives another result after the large work of this process "
                          f"(process-wide state): {out['fails'][:1]}", {"mode": kind, "seed": seed, "recheck": True, "fails": out["fails"][:3]},
                          found_input=True)
    ctx.hist("re-checked early cases after the large stream", len(early))
    ctx.notes.append("LARGE cases (>= 512-3100 cells, 4096-100000-sample arrays, rows of > 65 cells, 260-2200 slices) are judged by the "
                     "Python-side oracles only: no Coq literals; the theorems are size-independent, the correspondence samples sizes")
    ctx.obligation("direct oracles (structure, same positions, first cell, rank order, seed twice, sampler parameters)",
                   nfail == 0, f"{nfail} failing cases")
    ctx.extra["oracle_failures_in_known_finding_class"] = nknown
    ctx.extra["cases_above_upper_limit_known_finding_U1"] = nu1
    for f in ctx.build.glob(f"cases_{os.getpid()}_*"):
        f.unlink()
    files = []
    chunk = min(80, max(20, len(terms) // 32 + 1))
    for i in range(0, len(terms), chunk):
        part = terms[i:i + chunk]
        txt = HEADER + "Definition cases : list bool := [\n" + ";\n".join(t for _, _, t in part) + "].\nEval vm_compute in failing cases.\n"
        f = ctx.build / f"cases_{os.getpid()}_{i // chunk}.v"
        f.write_text(txt)
        files.append((f, part))
    res = ctx.coqc_many([f for f, _ in files], jobs=16, timeout=900)
    for f, _ in files:          # a coqc killed under memory pressure (no output) is retried alone
        if res[f][0] != 0 and not res[f][1].strip():
            res[f] = ctx.coqc(f, timeout=900)
    mism = []
    for f, part in files:
        rc, out = res[f]
        vals = parse_coq_eval(out)
        if rc != 0 or not vals:
            mism.append(("coqc-failed", f.name, out[-600:]))
            continue
        for i in [int(x) for x in vals[-1].strip("[]").replace("%nat", "").split(";") if x.strip()]:
            mism.append((part[i][0], part[i][1]))
    for f in ctx.build.glob(f"cases_{os.getpid()}_*"):
        f.unlink()
    ctx.count(traces=len(terms))
    ctx.obligation("correspondence with the recorded draws: model = implementation (thin exact; bootstrap shape + first "
                   "cells + rank order; moment_match exact on rounded variates)", not mism, repr(mism[:6]))
    ctx.log(f"{sum(c for _, _, c in plan)} cases, {len(terms)} model comparisons, {len(mism)} mismatches, {nfail} oracle failures")
    if mism and nfail == 0:
        ctx.violation("correspondence", "model with the recorded draws and implementation disagree",
                      {"mode": "mismatch", "cases": [list(map(str, m)) for m in mism[:10]]}, found_input=False)
    # the description of thin.py no longer satisfies the side condition of the generic theorems and none of the
    # searches above produced a concrete failing input
    if tie_failure and not ctx.violations:
        ctx.violation("obligation", "T-resample: " + tie_failure["what"], tie_failure, found_input=False)



def thin_translation(ctx):
    """T-resample: regenerate the description of bermuda/utils/thin.py and of method_moments._sort_x_on_y_rank
    (build/<ID>/GenResample.v), compute the side conditions thin_spec_ok / rank_spec_ok for it and instantiate the
    generic theorems (coq/GenProps/C17_gen.v).
    Returns None, or a dict saying why the tie failed (reported by run() after its searches)."""
    import difflib
    import shutil

    from harness.common import COQ, REPO
    from translate import t_resample

    ctx.audit_tree(["Model/ResampleDesc.v", "Proofs/ResampleDescP.v", "GenProps/C17_gen.v"])
    name = "T-resample translation of bermuda/utils/thin.py (thin, _thin_cell) and method_moments._sort_x_on_y_rank"
    try:
        gen = t_resample.translate(REPO)
        ctx.obligation(name, True)
    except Exception as ex:  # noqa: BLE001  -- fail closed: any unrecognised shape is a failed obligation
        ctx.obligation(name, False, repr(ex))
        ctx.log(f"T-resample failed closed: {ex!r}")
        return {"what": f"the translator does not recognise the source: {ex!r}"[:400], "mode": "t-resample"}
    (ctx.build / "GenResample.v").write_text(gen)
    rc, out = ctx.coqc(ctx.build / "GenResample.v", timeout=120)
    ctx.obligation("GenResample.v compiles", rc == 0, out)
    if rc != 0:
        return {"what": "the generated description does not compile", "mode": "t-resample", "coqc": out[-600:]}
    shutil.copy(COQ / "GenProps" / "C17_gen.v", ctx.build / "C17_gen.v")
    ok, out = ctx.prove(ctx.build / "C17_gen.v", timeout=300)
    if ok:
        return None
    exp = COQ / "GenExpected" / "GenResample.v"
    diff = []
    if exp.exists():
        diff = [ln for ln in difflib.unified_diff(exp.read_text().splitlines(), gen.splitlines(), "expected", "generated",
                                                  lineterm="", n=0)][:40]
    ctx.log("description of thin.py differs from the one the theorems need:\n" + "\n".join(diff))
    return {"what": "thin_spec_ok / rank_spec_ok is false for the description extracted from thin.py / method_moments.py (or an instantiation fails)",
            "mode": "t-resample", "description_diff": diff, "coqc": out[-600:]}


def coqchk(ctx):
    """thorough tier: re-check the compiled property file and everything it depends on with coqchk"""
    from harness.common import COQ, sh

    cmd = ["coqchk", "-silent", "-o", "-Q", str(COQ), "Bermuda", "Bermuda.Props.C17"]
    ctx.checker_cmds.append(" ".join(cmd))
    rc, out = sh(cmd, timeout=1800, cwd=COQ)
    ok = rc == 0 and "Axioms: <none>" in " ".join(out.split())
    ctx.obligation("coqchk Bermuda.Props.C17 (no axioms, no assumed positivity/guardedness)", ok, out[-800:])


def replay(ctx, data):
    if data.get("mode") == "t-resample":
        # no concrete input: re-run the translator and the generated obligations on the current source
        r = thin_translation(ctx)
        print("T-resample / thin_spec_ok on the current source:", "ok" if r is None else r["what"])
        for ln in (r or {}).get("description_diff", [])[:20]:
            print("  ", ln)
        return 0 if r is None else 1
    if data.get("mode") == "probe_field_subset":
        class _C:
            def violation(self, *a, **k):
                print("FAIL:", a[1])
        return 1 if probe_field_subset(_C()) else 0
    if data.get("mode") == "probe_limits":
        B = importlib.import_module("bermuda.utils.bootstrap")
        out = [float(v) for v in B.maximum_entropy_ensemble(list(data["x"]), list(data["U"]), L=tuple(data["L"]))]
        lo_, hi_ = limits_verdict(out, data["L"][0], data["L"][1])
        print("output", out, "below lower:", lo_, "above upper:", hi_)
        return 1 if (lo_ or hi_) else 0
    fn = {"thin": thin_case, "bootstrap": boot_case, "moment_match": mm_case, "max_entropy": me_case}.get(data.get("mode"))
    if fn is None:
        print("replay data:", data)
        return 1
    with warnings.catch_warnings():
        warnings.simplefilter("ignore")
        out = fn(data["seed"], big=data["big"]) if data.get("big") else fn(data["seed"])
    print(out["info"])
    for f in out["fails"]:
        print("FAIL:", f)
    for f in out.get("known", []):
        print("KNOWN-CLASS (U1):", f)
    return 1 if out["fails"] or out.get("known") else 0
