"""Shared machinery of the binary-codec checks C05 / C06 / C19 (WP-CODEC).

* wire triangles ("wt"): JSON-able, strictly typed description of a triangle's cells
    cell  = {"kind": "Cell"|"CumulativeCell"|"IncrementalCell", "ps": [y,m,d], "pe": .., "ev": ..,
             "prev": [y,m,d]|None, "values": [[key, val], ...], "meta": meta}
    val   = ["int", n] | ["float", hex16] | ["bool", b] | ["none"] | ["str", s] | ["date", [y,m,d]]
            | ["arr", "int64"|"float64", [dims...], hexpayload]
    meta  = {"risk_basis": s|None, "country": .., "currency": .., "reinsurance_basis": ..,
             "loss_definition": .., "limit": hex16|None, "details": [[k, val]..], "loss_details": ..}
* generators over the full type lattice, strict canonicaliser (never uses the library's ==),
  Coq-term printer, implementation runners, and an INDEPENDENT pure-Python v1 encoder/decoder
  written from the layout description in the module comment of binary_output.py (used by C06).
"""
from __future__ import annotations

import datetime
import io
import os
import struct
import tempfile
import warnings
from pathlib import Path

import numpy as np

META_STR_ATTRS = ["risk_basis", "country", "currency", "reinsurance_basis", "loss_definition"]
KINDS = ["Cell", "CumulativeCell", "IncrementalCell"]

# error classes of the model (Lib/BinParse.v err_code) -> Python exception class names
ERR_CODE = {"ValueError": 1, "error": 2, "IndexError": 3, "TypeError": 4, "UnicodeDecodeError": 5,
            "EOFError": 7}


# ====================================================================== canonicalisation
def canon_val(v):
    """Strict, typed description of a CellValue / MetadataValue."""
    if isinstance(v, (bool, np.bool_)):
        return ["bool", bool(v)] if isinstance(v, bool) else ["other", "np.bool_"]
    if isinstance(v, np.ndarray):
        if v.dtype == np.dtype("int64") and v.dtype.byteorder in "=<|":
            dt = "int64"
        elif v.dtype == np.dtype("float64") and v.dtype.byteorder in "=<|":
            dt = "float64"
        else:
            return ["other", f"ndarray:{v.dtype}"]
        out = ["arr", dt, [int(d) for d in v.shape], v.tobytes(order="C").hex()]  # element-wise content, C order
        if not v.flags["C_CONTIGUOUS"]:
            # memory layout of the in-memory object: generator/replay information only, never compared
            out.append("F" if v.flags["F_CONTIGUOUS"] else "S")
        return out
    if isinstance(v, (int, np.integer)):
        # a 3rd element "np" records that the in-memory object is a NumPy scalar (never compared)
        return ["int", int(v)] + (["np"] if isinstance(v, np.integer) else [])
    if isinstance(v, float):  # np.float64 is a float
        return ["float", struct.pack("<d", v).hex()] + (["np"] if isinstance(v, np.floating) else [])
    if v is None:
        return ["none"]
    if isinstance(v, str):
        return ["str", v]
    if isinstance(v, datetime.datetime):
        return ["other", "datetime"]
    if isinstance(v, datetime.date):
        return ["date", [v.year, v.month, v.day]]
    return ["other", type(v).__name__]


def canon_date(d):
    if type(d) is not datetime.date:
        return ["other", type(d).__name__]
    return [d.year, d.month, d.day]


def canon_meta(m):
    out = {}
    for a in META_STR_ATTRS:
        x = getattr(m, a)
        out[a] = x if (x is None or isinstance(x, str)) else ["other", type(x).__name__]
    lim = m.per_occurrence_limit
    if lim is None:
        out["limit"] = None
    elif isinstance(lim, float):
        out["limit"] = struct.pack("<d", lim).hex()
    else:
        out["limit"] = ["other", type(lim).__name__, repr(lim)]
    out["details"] = [[k, canon_val(v)] for k, v in m.details.items()]
    out["loss_details"] = [[k, canon_val(v)] for k, v in m.loss_details.items()]
    return out


def canon_cell(c):
    return {
        "kind": type(c).__name__,
        "ps": canon_date(c.period_start),
        "pe": canon_date(c.period_end),
        "ev": canon_date(c.evaluation_date),
        "prev": canon_date(c.prev_evaluation_date) if hasattr(c, "prev_evaluation_date") else None,
        "values": [[k, canon_val(v)] for k, v in c.values.items()],
        "meta": canon_meta(c.metadata),
    }


def canon_triangle(tri):
    return [canon_cell(c) for c in tri.cells]


def _unordered(items):
    return sorted(([k, v] for k, v in items), key=lambda kv: kv[0])


def norm_cell(c, ordered):
    """Comparison key of a wire cell.  ordered=False: dictionaries as sets of typed entries (what
    the property demands); ordered=True: insertion order kept (model vs implementation)."""
    f0 = (lambda x: x) if ordered else _unordered

    def f(items):
        return f0([[k, (v[:4] if v and v[0] == "arr" else v[:2] if v and v[0] in ("int", "float") else v)]
                   for k, v in items])

    m = dict(c["meta"])
    m["details"] = f(m["details"])
    m["loss_details"] = f(m["loss_details"])
    d = dict(c)
    d["values"] = f(c["values"])
    d["meta"] = m
    return d


def wt_equal(a, b, ordered=False):
    return len(a) == len(b) and all(norm_cell(x, ordered) == norm_cell(y, ordered) for x, y in zip(a, b))


def is_prefix_of(part, whole, ordered=False):
    return len(part) <= len(whole) and wt_equal(part, whole[: len(part)], ordered)


def first_diff(a, b, ordered=False):
    if len(a) != len(b):
        return f"{len(a)} cells vs {len(b)} cells"
    for i, (x, y) in enumerate(zip(a, b)):
        nx, ny = norm_cell(x, ordered), norm_cell(y, ordered)
        if nx != ny:
            for k in nx:
                if nx[k] != ny[k]:
                    return f"cell {i} field {k}: {str(nx[k])[:200]} vs {str(ny[k])[:200]}"
    return ""


# ====================================================================== wt -> real objects
def mk_val(v):
    t = v[0]
    if t == "int":
        return np.int64(v[1]) if len(v) > 2 else int(v[1])
    if t == "float":
        f = struct.unpack("<d", bytes.fromhex(v[1]))[0]
        return np.float64(f) if len(v) > 2 else f
    if t == "bool":
        return bool(v[1])
    if t == "none":
        return None
    if t == "str":
        return v[1]
    if t == "date":
        return datetime.date(*v[1])
    if t == "arr":
        a = np.frombuffer(bytes.fromhex(v[3]), dtype=np.dtype(v[1])).reshape(tuple(v[2])).copy()
        layout = v[4] if len(v) > 4 else "C"
        if layout == "F":      # Fortran-ordered memory (what np.asfortranarray(a) / a transposed view has)
            a = np.asfortranarray(a) if a.size % 2 == 0 else np.ascontiguousarray(a.T).T
        elif layout == "S":    # non-contiguous slice big[..., ::2] of a wider array
            big = np.zeros(a.shape[:-1] + (2 * a.shape[-1],), dtype=a.dtype)
            big[..., ::2] = a
            a = big[..., ::2]
        return a
    raise ValueError(f"bad wire value {v!r}")


def mk_meta(m):
    from bermuda import Metadata

    lim = None if m["limit"] is None else struct.unpack("<d", bytes.fromhex(m["limit"]))[0]
    return Metadata(
        risk_basis=m["risk_basis"], country=m["country"], currency=m["currency"],
        reinsurance_basis=m["reinsurance_basis"], loss_definition=m["loss_definition"],
        per_occurrence_limit=lim,
        details={k: mk_val(v) for k, v in m["details"]},
        loss_details={k: mk_val(v) for k, v in m["loss_details"]},
    )


class _NoonDate(datetime.datetime):
    """A datetime subclass with a non-midnight time (family D)."""


def _coord(ymd, coords, i=0):
    if coords == "date":
        return datetime.date(*ymd)
    kinds = ["datetime", "timestamp", "subclass"] if coords == "mixed" else [coords]
    k = kinds[i % len(kinds)]
    if k == "timestamp" and 1678 <= ymd[0] <= 2261:
        import pandas as pd

        return pd.Timestamp(year=ymd[0], month=ymd[1], day=ymd[2], hour=13, minute=45)
    if k == "subclass":
        return _NoonDate(ymd[0], ymd[1], ymd[2], 12, 0, 1)
    return datetime.datetime(ymd[0], ymd[1], ymd[2], 23, 59, 59)


def mk_cells(wt, coords="date"):
    from bermuda import Cell, CumulativeCell, IncrementalCell

    cache = {}
    out = []
    for ci, c in enumerate(wt):
        key = repr(c["meta"])
        if key not in cache:
            cache[key] = mk_meta(c["meta"])
        md = cache[key]
        kw = dict(period_start=_coord(c["ps"], coords, ci), period_end=_coord(c["pe"], coords, ci + 1),
                  evaluation_date=_coord(c["ev"], coords, ci + 2),
                  values={k: mk_val(v) for k, v in c["values"]}, metadata=md)
        if c["kind"] == "IncrementalCell":
            out.append(IncrementalCell(prev_evaluation_date=_coord(c["prev"], coords, ci + 3), **kw))
        elif c["kind"] == "CumulativeCell":
            out.append(CumulativeCell(**kw))
        else:
            out.append(Cell(**kw))
    return out


def mk_triangle(wt, coords="date"):
    from bermuda import Triangle

    with warnings.catch_warnings():
        warnings.simplefilter("ignore")
        return Triangle(mk_cells(wt, coords))


# ====================================================================== implementation runners
class Scratch:
    def __init__(self, build: Path):
        self.dir = Path(tempfile.mkdtemp(prefix="bin-", dir=str(build)))
        self.n = 0

    def path(self, ext):
        self.n += 1
        return str(self.dir / f"f{os.getpid()}_{self.n}{ext}")

    def cleanup(self):
        import shutil

        shutil.rmtree(self.dir, ignore_errors=True)


def impl_write(tri, scratch: Scratch, compress=False, explicit=True):
    """Bytes written by Triangle.to_binary (file contents as they are on disk)."""
    p = scratch.path(".tribc" if compress else ".trib")
    with warnings.catch_warnings():
        warnings.simplefilter("ignore")
        if explicit:
            tri.to_binary(p, compress=compress)
        else:
            tri.to_binary(p) if not compress else tri.to_binary(p, compress=True)
    b = Path(p).read_bytes()
    os.unlink(p)
    return b


def impl_read(data: bytes, scratch: Scratch, compress=False, explicit=False, path=None):
    """('ok', wt) or ('err', exception class name) of Triangle.from_binary on a file holding data."""
    from bermuda import Triangle

    p = path or scratch.path(".tribc" if compress else ".trib")
    with open(p, "wb") as f:
        f.write(data)
    try:
        with warnings.catch_warnings():
            warnings.simplefilter("ignore")
            if explicit:
                t = Triangle.from_binary(p, compress=compress)
            else:
                t = Triangle.from_binary(p)
        return ("ok", canon_triangle(t))
    except Exception as ex:  # noqa: BLE001 - the class is the observation
        return ("err", type(ex).__name__)
    finally:
        if path is None:
            try:
                os.unlink(p)
            except OSError:
                pass


def impl_read_stream(data: bytes):
    """Same reader on an in-memory buffered stream (used for the very many cut points)."""
    from bermuda.io.binary_input import _read_triangle

    try:
        with warnings.catch_warnings():
            warnings.simplefilter("ignore")
            t = _read_triangle(io.BufferedReader(io.BytesIO(data)))
        return ("ok", canon_triangle(t))
    except Exception as ex:  # noqa: BLE001
        return ("err", type(ex).__name__)


def outcome_code(res, original_wt):
    """Encode an implementation outcome like Model.Binary.outcome: -err_code, k for 'exactly the
    first k cells' (ordered comparison), -100 for anything else."""
    if res[0] == "err":
        return -ERR_CODE.get(res[1], 99)
    got = res[1]
    if is_prefix_of(got, original_wt, ordered=True):
        return len(got)
    return -100


# ====================================================================== generators
_WORDS = ["paid_loss", "reported_loss", "earned_premium", "written_premium", "open_claims",
          "reported_claims", "closed_claims", "incurred", "case_reserve", "expected_loss",
          "paid_alae", "exposure", "rate_level", "trend", "field"]
_NONASCII = ["é", "ß", "ñ", "Ж", "λ", "中", "日本", "€", "𝛑", "😀", "å", "ü", "ø", "Ω", "한",
             # NOT in normalisation form C: decomposed accents, compatibility singletons (OHM SIGN, ANGSTROM
             # SIGN, CJK compatibility ideographs), a decomposed Hangul syllable
             "e\u0301", "A\u030a", "\u2126", "\u212b", "\uf900", "\ufa0e", "\u1112\u1161\u11ab", "o\u0308\u0323"]


def gen_string(rng, allow_empty=True, nonascii_p=0.3):
    n = rng.choice([0, 1, 2, 3, 5, 8, 13]) if allow_empty else rng.choice([1, 2, 3, 5, 8, 13])
    s = "".join(rng.choice("abcdefghijklmnopqrstuvwxyzABCXYZ_0123456789 -") for _ in range(n))
    if rng.random() < nonascii_p:
        pos = rng.randrange(len(s) + 1)
        s = s[:pos] + rng.choice(_NONASCII) + s[pos:]
    if not allow_empty and not s:
        s = "k"
    return s


def gen_keys(rng, n, nonascii_p=0.15):
    keys = set()
    i = 0
    while len(keys) < n:
        base = rng.choice(_WORDS)
        k = base if (i < len(_WORDS) and rng.random() < 0.5) else f"{base}_{rng.randrange(10000)}"
        if rng.random() < nonascii_p:
            k = k + rng.choice(_NONASCII)
        if rng.random() < 0.05:
            k = gen_string(rng, allow_empty=False, nonascii_p=0.5)
        keys.add(k)
        i += 1
    keys = list(keys)
    rng.shuffle(keys)
    return keys


_SPECIAL_FLOATS = [0.0, -0.0, 1.0, -1.5, 1e300, 5e-324, float("inf"), float("-inf"), 0.1, 123456.789]


def gen_float_hex(rng, allow_nan=True):
    r = rng.random()
    if r < 0.25:
        f = rng.choice(_SPECIAL_FLOATS)
    elif r < 0.30 and allow_nan:
        return rng.choice(["000000000000f87f", "010000000000f87f", "000000000000f8ff", "010000000000f07f"])
    elif r < 0.6:
        f = round(rng.uniform(-1e6, 1e6), 2)
    else:
        f = rng.uniform(-1, 1) * 10 ** rng.randint(-10, 12)
    return struct.pack("<d", f).hex()


def gen_int(rng):
    r = rng.random()
    if r < 0.15:
        return rng.choice([0, 1, -1, 2**63 - 1, -(2**63), 255, 256, 65535, 65536, 2**31, -(2**31) - 1, 136, 0x88 << 8])
    if r < 0.6:
        return rng.randrange(-100000, 100000)
    return rng.randrange(-(2**63), 2**63)


def gen_array(rng):
    dt = rng.choice(["int64", "float64"])
    nd = rng.choice([0, 1, 1, 1, 2, 2, 3])
    dims = [rng.choice([0, 1, 2, 3, 4, 7]) if rng.random() < 0.9 else rng.choice([0, 10, 16]) for _ in range(nd)]
    layout = None
    if nd >= 2 and rng.random() < 0.5:
        # non-C-contiguous in-memory arrays: Fortran order / transposed view / strided slice, all dims >= 2
        dims = [rng.choice([2, 3, 4, 5]) for _ in range(nd)]
        layout = rng.choice(["F", "F", "S"])
    n = 1
    for d in dims:
        n *= d
    if dt == "int64":
        payload = b"".join(struct.pack("<q", gen_int(rng)) for _ in range(n))
    else:
        payload = b"".join(bytes.fromhex(gen_float_hex(rng)) for _ in range(n))
    return ["arr", dt, dims, payload.hex()] + ([layout] if layout else [])


def gen_cell_value(rng, weights=None):
    r = rng.random()
    npm = ["np"] if rng.random() < 0.15 else []       # np.int64 / np.float64 scalars (incl. |n| > 2**53)
    if r < 0.30:
        return ["int", gen_int(rng)] + npm
    if r < 0.60:
        return ["float", gen_float_hex(rng)] + npm
    if r < 0.68:
        return ["bool", rng.random() < 0.5]
    if r < 0.76:
        return ["none"]
    return gen_array(rng)


def gen_date3(rng, lo=1, hi=9999):
    y = rng.randint(lo, hi)
    m = rng.randint(1, 12)
    import calendar

    d = rng.randint(1, calendar.monthrange(y, m)[1]) if y >= 1 else 1
    return [y, m, d]


def gen_detail_value(rng):
    r = rng.random()
    if r < 0.30:
        return ["str", gen_string(rng)]
    if r < 0.42:
        return ["bool", rng.random() < 0.5]
    if r < 0.60:
        return ["int", gen_int(rng)]
    if r < 0.75:
        return ["float", gen_float_hex(rng, allow_nan=False)]
    if r < 0.88:
        return ["date", gen_date3(rng)]
    return ["none"]


def _add_months(y, m, k):
    t = y * 12 + (m - 1) + k
    return t // 12, t % 12 + 1


def _month_end(y, m):
    import calendar

    return [y, m, calendar.monthrange(y, m)[1]]


SIBLING_VARIANTS = ["loss_only", "placement", "attr_named", "none_vs_empty", "hash_collision", "close_numeric",
                    "big_int_ids"]


def gen_triangle(rng, max_keys=136, n_slices=None, kind=None, size="small", restate_p=0.0, sibling=None, force=()):
    """A valid wire triangle, already in the library's sorted order (it is built through
    Triangle(...) and canonicalised, so 'wt' is exactly what the library holds)."""
    n_slices = rng.choices([0, 1, 2, 3, 4], [1, 9, 7, 5, 4])[0] if n_slices is None else n_slices
    kind = kind or rng.choice(KINDS)
    total_keys = min(max_keys, rng.choice([0, 1, 2, 3, 5, 5, 8, 8, 13, 20, 20, 40, 60, 136]) if size != "big" else max_keys)
    if n_slices == 0:
        return []
    keys = gen_keys(rng, total_keys)
    n_detail = min(len(keys), rng.choice([0, 0, 1, 2, 4]))
    detail_keys = keys[:n_detail]
    field_keys = keys[n_detail:] if rng.random() < 0.8 else keys  # fields may overlap detail names
    dist_attr = rng.choice(META_STR_ATTRS)
    metas = []
    for si in range(n_slices):
        m = {a: (gen_string(rng, allow_empty=False) if rng.random() < 0.6 else None) for a in META_STR_ATTRS}
        for a in META_STR_ATTRS:
            if rng.random() < 0.06:
                m[a] = ""                       # falsy but valid: an empty string is not None
        if rng.random() < 0.5:
            m["risk_basis"] = rng.choice(["Accident", "Policy"])
        # slices are told apart by an attribute that Metadata.__lt__ really compares
        m[dist_attr] = f"{si}" + gen_string(rng, allow_empty=True)
        m["limit"] = gen_float_hex(rng, allow_nan=False) if rng.random() < 0.4 else None
        dk = [k for k in detail_keys if rng.random() < 0.8]
        split = rng.randrange(len(dk) + 1)
        m["details"] = [[k, gen_detail_value(rng)] for k in dk[:split]]
        m["loss_details"] = [[k, gen_detail_value(rng)] for k in dk[split:]]
        if rng.random() < 0.3 and dk:
            k = rng.choice(dk)  # same key in both dictionaries
            if k not in [x[0] for x in m["loss_details"]]:
                m["loss_details"].append([k, gen_detail_value(rng)])
        metas.append(m)
    # sibling slices: a slice that differs from slice 0 ONLY in loss_details, or only in WHERE a key
    # lives (details vs loss_details), or only in "attribute vs detail key of the same name" -- they
    # sort next to each other, and a metadata test coarser than the dataclass == merges them
    if len(metas) >= 2 and total_keys <= 130 and (sibling or rng.random() < 0.45):
        import copy as _copy

        m1 = metas[0]
        m2 = _copy.deepcopy(m1)
        variant = sibling or rng.choice(["loss_only", "loss_only", "placement", "attr_named", "none_vs_empty",
                                          "hash_collision", "close_numeric", "big_int_ids"])
        if variant == "loss_only":
            strs = [it for it in m2["loss_details"] if it[1][0] == "str"]
            if strs and rng.random() < 0.5:
                it = rng.choice(strs)
                it[1] = ["str", it[1][1] + "'"]
            else:
                m2["loss_details"].append(["ld_only", ["str", gen_string(rng)]])
        elif variant == "placement":
            m1["details"] = [it for it in m1["details"] if it[0] != "coverage_p"]
            m1["loss_details"] = [it for it in m1["loss_details"] if it[0] != "coverage_p"]
            m2 = _copy.deepcopy(m1)
            item = ["coverage_p", rng.choice([["str", "BI"], ["int", 7], ["bool", True], ["date", [2021, 3, 4]]])]
            m1["details"].append(item)
            m2["loss_details"].append(_copy.deepcopy(item))
        elif variant == "hash_collision":
            # detail values that differ but collide in CPython's hash: hash(-1) == hash(-2),
            # hash(-1.0) == hash(-2.0), hash(0) == hash(2**61 - 1)
            va, vb = rng.choice([(["int", -1], ["int", -2]), (["float", struct.pack("<d", -1.0).hex()],
                                                              ["float", struct.pack("<d", -2.0).hex()]),
                                 (["int", 0], ["int", 2305843009213693951])])
            dn = rng.choice(["details", "loss_details", "limit"])
            if dn == "limit":       # per_occurrence_limit -1.0 vs -2.0
                m1["limit"] = struct.pack("<d", -1.0).hex()
                m2 = _copy.deepcopy(m1)
                m2["limit"] = struct.pack("<d", -2.0).hex()
            else:
                m1[dn] = [it for it in m1[dn] if it[0] != "layer_h"] + [["layer_h", va]]
                m2 = _copy.deepcopy(m1)
                m2[dn][-1] = ["layer_h", vb]
        elif variant in ("close_numeric", "big_int_ids"):
            # numeric metadata that differ by 1 at a magnitude where a relative tolerance (1e-9) or a detour
            # through float64 (ints above 2**53) cannot tell them apart
            if variant == "close_numeric":
                va, vb = rng.choice([(["int", 3_000_000_000], ["int", 3_000_000_001]),
                                     (["int", 10**12], ["int", 10**12 + 1]),
                                     (["float", struct.pack("<d", 1e12).hex()], ["float", struct.pack("<d", 1e12 + 1).hex()])])
                dn = rng.choice(["details", "loss_details", "limit"])
            else:
                base = rng.choice([2**53, 123456789012345678, 2**62])      # float(base) == float(base + 1)
                va, vb = ["int", base], ["int", base + 1]
                dn = rng.choice(["details", "loss_details"])
            if dn == "limit":
                m1["limit"] = struct.pack("<d", 1e10).hex()
                m2 = _copy.deepcopy(m1)
                m2["limit"] = struct.pack("<d", 1e10 + 1).hex()
            else:
                m1[dn] = [it for it in m1[dn] if it[0] != "policy_id"] + [["policy_id", va]]
                m2 = _copy.deepcopy(m1)
                m2[dn][-1] = ["policy_id", vb]
        elif variant == "none_vs_empty":
            a = rng.choice(META_STR_ATTRS)      # None vs "" in one attribute, nothing else differs
            m1[a] = None
            m2 = _copy.deepcopy(m1)
            m2[a] = ""
        else:
            a = rng.choice(["country", "currency", "reinsurance_basis", "loss_definition"])
            val = m1[a] if m1[a] else "US"
            m1[a] = val
            m2 = _copy.deepcopy(m1)
            m2[a] = None
            m2["details"].append([a, ["str", val]])
        metas[1] = m2
    res_months = rng.choice([1, 3, 12, "semi", "semi"]) if "semi" not in force else "semi"
    semi = res_months == "semi"
    if semi:
        res_months = 1
    y0, m0 = rng.randint(1, 9990) if rng.random() < 0.1 else rng.randint(1950, 2040), rng.choice([1, 4, 7, 10])
    n_periods = rng.choice([1, 2, 3]) if size != "big" else 1
    if semi and size != "big":
        n_periods = rng.choice([2, 3, 4])       # semi-monthly: two periods inside one calendar month
    n_evals = rng.choice([1, 2, 3]) if size != "big" else 1
    if "late" in force:
        n_evals = max(n_evals, 2)
    # fields that never occur in the FIRST cell of a (slice, period) row, only at later evaluations
    if "nfc" in force:
        # strings that are not NFC-stable as field names, detail keys / values and attributes, including two
        # keys that differ ONLY by normalisation form
        field_keys = list(field_keys) + ["caf\u00e9", "cafe\u0301", "\u2126_ohm", "\u03a9_ohm"]
        for m in metas:
            m["country"] = (m["country"] or "") + "A\u030a"
            m["details"] = m["details"] + [["r\u00e9gion", ["str", "Qu\u00e9bec"]], ["re\u0301gion", ["str", "Que\u0301bec \u212b"]]]
            m["loss_details"] = m["loss_details"] + [["\uf900", ["str", "\uf900"]]]
    late_fields = []
    if n_evals >= 2 and field_keys and ("late" in force or rng.random() < 0.35):
        late_fields = rng.sample(field_keys, min(len(field_keys), rng.choice([1, 2])))
    none_field = rng.choice(field_keys) if field_keys and rng.random() < 0.1 else None   # all-None field
    step = 2 if (not semi and rng.random() < 0.15) else 1     # gaps: no two periods adjacent
    cells = []
    for m in metas:
        for pi in range(n_periods):
            if semi:
                py, pm = _add_months(y0, m0, pi // 2)
                ey, em = py, pm
                if ey > 9998:
                    continue
                ps, pe = ([py, pm, 1], [py, pm, 15]) if pi % 2 == 0 else ([py, pm, 16], _month_end(py, pm))
            else:
                py, pm = _add_months(y0, m0, pi * res_months * step)
                ey, em = _add_months(py, pm, res_months - 1)
                if ey > 9998:
                    continue
                ps, pe = [py, pm, 1], _month_end(ey, em)
                if rng.random() < 0.15:
                    ps = [py, pm, rng.randint(1, 28)]
            prev_ev = None
            row_started = False
            for ei in range(n_evals):
                if rng.random() < 0.2 and not (late_fields and ei == 0):
                    continue  # holes
                vy, vm = _add_months(ey, em, ei * res_months)
                if vy > 9998:
                    continue
                ev = _month_end(vy, vm)
                use = [k for k in field_keys if rng.random() < (0.85 if size != "big" else 1.0)]
                if late_fields:
                    use = [k for k in use if k not in late_fields]
                    if row_started:
                        use += [k for k in late_fields if rng.random() < 0.8]
                row_started = True
                rng.shuffle(use)
                vals = [[k, (["none"] if k == none_field else
                             gen_array(rng) if (k in late_fields and rng.random() < 0.5) else gen_cell_value(rng))]
                        for k in use]
                c = {"kind": kind, "ps": ps, "pe": pe, "ev": ev, "prev": None, "values": vals, "meta": m}
                if kind == "IncrementalCell":
                    if prev_ev is None:
                        qy, qm = _add_months(vy, vm, -res_months)
                        c["prev"] = _month_end(qy, qm) if qy >= 1 else [1, 1, 1]
                    else:
                        c["prev"] = prev_ev
                    if c["prev"] >= ev:
                        continue
                    prev_ev = ev
                cells.append(c)
    # nested periods: two periods with the SAME period_start, different period_end and a conflicting
    # evaluation order -- (ps, pe_short, ev_late) must precede (ps, pe_long, ev_early); an ordering by
    # (period_start, evaluation_date, period_end) would swap them.  Put into every slice.
    if y0 >= 2 and size != "big" and ("nested" in force or rng.random() < 0.35):
        for m in metas:
            ny = y0 - 1
            ps = [ny, m0, 1]
            e1y, e1m = _add_months(ny, m0, 2)
            e2y, e2m = _add_months(ny, m0, 11)
            l1y, l1m = _add_months(e1y, e1m, 12)
            h2y, h2m = _add_months(ny, m0, 6)    # a period sharing its END with the long one (overlapping)
            for ps, pe, ev in ((ps, _month_end(e1y, e1m), _month_end(l1y, l1m)),
                               (ps, _month_end(e2y, e2m), _month_end(e2y, e2m)),
                               ([h2y, h2m, 1], _month_end(e2y, e2m), _month_end(l1y, l1m))):
                use = [k for k in field_keys if rng.random() < 0.7]
                c = {"kind": kind, "ps": ps, "pe": pe, "ev": ev, "prev": None,
                     "values": [[k, gen_cell_value(rng)] for k in use], "meta": m}
                if kind == "IncrementalCell":
                    qy, qm = _add_months(ev[0], ev[1], -1)
                    c["prev"] = _month_end(qy, qm)
                cells.append(c)
    # far-apart dates: an open-ended period_end == date.max / a sentinel evaluation 9999-12-30 next to
    # ordinary dates (spans of more than 2**21 days overflow packed integer sort keys)
    if "farspan" in force or (cells and rng.random() < 0.12):
        for m in metas[: rng.choice([1, len(metas)])]:
            c0 = next((c for c in cells if c["meta"] is m), None)
            c = {"kind": kind, "ps": list(c0["ps"]) if c0 else [y0, m0, 1], "pe": [9999, 12, 31], "ev": [9999, 12, 30],
                 "prev": None, "values": [[k, gen_cell_value(rng)] for k in field_keys if rng.random() < 0.6], "meta": m}
            if kind == "IncrementalCell":
                c["prev"] = [9999, 12, 29]
            if rng.random() < 0.3:      # or a pre-1677 period next to ordinary dates
                c.update({"ps": [1, 1, 1], "pe": [1, 12, 31], "ev": list(c0["ev"]) if c0 else [y0, m0, 28]})
                if kind == "IncrementalCell":
                    c["prev"] = [1, 6, 30]
            cells.append(c)
    # restated cells: the same metadata and coordinates twice with different values (accepted with a warning)
    if cells and rng.random() < restate_p:
        import copy as _copy

        for _ in range(rng.choice([1, 2])):
            c = _copy.deepcopy(rng.choice(cells))
            c["meta"] = next(x["meta"] for x in cells if x["meta"] == c["meta"])
            c["values"] = [[k, gen_cell_value(rng)] for k in field_keys if rng.random() < 0.7]
            cells.append(c)
    rng.shuffle(cells)
    tri = mk_triangle(cells)
    return canon_triangle(tri)


def has_restated(wt):
    seen = set()
    for c in wt:
        k = repr((norm_cell(c, False)["meta"], c["ps"], c["pe"], c["ev"], c["prev"]))
        if k in seen:
            return True
        seen.add(k)
    return False


_CORNER_DATES = [
    ([1900, 2, 1], [1900, 2, 28]), ([2000, 2, 1], [2000, 2, 29]), ([2100, 2, 1], [2100, 2, 28]),
    ([2400, 2, 1], [2400, 2, 29]), ([2023, 2, 1], [2023, 2, 28]), ([2024, 2, 1], [2024, 2, 29]),
    ([1969, 12, 1], [1969, 12, 31]), ([2020, 4, 1], [2020, 4, 30]), ([2020, 12, 1], [2020, 12, 31]),
    ([1, 1, 1], [1, 1, 31]), ([9999, 11, 1], [9999, 11, 30]), ([2249, 12, 1], [2249, 12, 31]),
]


def gen_calendar_triangle(rng, n=None, kind=None):
    """Calendar corners (family C): February ends of 1900/2000/2100/2400, leap and non-leap years,
    30/31-day months, evaluation on the month end, the day before and the day after, years 1, 1969,
    2249 and 9999; corner dates also as detail values."""
    import calendar

    kind = kind or rng.choice(KINDS)
    m = {a: None for a in META_STR_ATTRS}
    m.update({"risk_basis": "Accident", "limit": None,
              "details": [["asof", ["date", [2000, 2, 29]]], ["first", ["date", [1, 1, 1]]]],
              "loss_details": [["last", ["date", [9999, 12, 31]]], ["feb", ["date", [1900, 2, 28]]]]})
    cells = []
    for ps, pe in (rng.sample(_CORNER_DATES, n) if n else _CORNER_DATES):
        for shift in (0, -1, 1):
            dd = datetime.date(*pe)
            try:
                ev = dd + datetime.timedelta(days=shift)
            except OverflowError:
                continue
            if ev < datetime.date(*ps) or ev >= datetime.date.max:
                continue
            c = {"kind": kind, "ps": ps, "pe": pe, "ev": [ev.year, ev.month, ev.day], "prev": None,
                 "values": [["paid", ["int", shift]], ["d", gen_cell_value(rng)]], "meta": m}
            if kind == "IncrementalCell":
                pv = datetime.date(*ps) if datetime.date(*ps) < ev else None
                if pv is None:
                    continue
                c["prev"] = [pv.year, pv.month, pv.day]
            cells.append(c)
    rng.shuffle(cells)
    return canon_triangle(mk_triangle(cells))


def gen_collapse_triangle(rng):
    """Directed input for the writer's `prev_metadata != cell.metadata`: cells of one slice carry
    metadata that are Python-== but not identical (True / 1 / 1.0, 5 / 5.0, 0.0 / -0.0 limit, other
    dict order).  The implementation skips the metadata record for them, so they come back with the
    first representation (Model.Binary.rep_py); the model predicts exactly that."""
    kind = rng.choice(KINDS)
    base = {a: (gen_string(rng, allow_empty=False) if rng.random() < 0.5 else None) for a in META_STR_ATTRS}
    base["risk_basis"] = rng.choice(["Accident", "Policy"])
    pos0, neg0 = "0000000000000000", "0000000000000080"
    one = struct.pack("<d", 1.0).hex()
    five = struct.pack("<d", 5.0).hex()
    families = [
        [[["a", ["bool", True]]], [["a", ["int", 1]]], [["a", ["float", one]]]],
        [[["a", ["int", 5]], ["b", ["str", "x"]]], [["b", ["str", "x"]], ["a", ["float", five]]]],
        [[["k", ["bool", False]], ["d", ["date", [2020, 2, 29]]]], [["d", ["date", [2020, 2, 29]]], ["k", ["int", 0]]],
         [["k", ["float", neg0]], ["d", ["date", [2020, 2, 29]]]]],
        [[["n", ["none"]], ["z", ["float", pos0]]], [["z", ["float", neg0]], ["n", ["none"]]]],
    ]
    fam = rng.choice(families)
    limits = rng.choice([[None], [pos0, neg0], [five]])
    variants = []
    for det in fam:
        for lim in limits:
            m = dict(base)
            m["limit"] = lim
            if rng.random() < 0.5:
                m["details"], m["loss_details"] = det, []
            else:
                m["details"], m["loss_details"] = [], det
            variants.append(m)
    # all variants of one triangle put the family in the same dictionary
    where = rng.choice(["details", "loss_details"])
    for m, det in zip(variants, [d for d in fam for _ in limits]):
        m["details"], m["loss_details"] = (det, []) if where == "details" else ([], det)
    cells = []
    n = rng.choice([2, 3, 4, 6])
    for i in range(n):
        y = 2000 + i
        m = variants[rng.randrange(len(variants))] if i else variants[0]
        c = {"kind": kind, "ps": [y, 1, 1], "pe": [y, 12, 31], "ev": [y, 12, 31], "prev": None,
             "values": [["paid", ["int", i]], ["v", gen_cell_value(rng)]], "meta": m}
        if kind == "IncrementalCell":
            c["prev"] = [y, 6, 30]
        cells.append(c)
    rng.shuffle(cells)
    return canon_triangle(mk_triangle(cells))


# ---------------------------------------------------------------------- write sequences
def gen_write_sequence(rng):
    """2-3 wire triangles to be written back to back in ONE process: they share a metadata with
    non-empty details / loss_details, but their field-name sets differ so that the detail keys sit
    at different string-pool indices in each file (hidden writer state keyed by Metadata would leak
    pool indices from one file into the next)."""
    for _ in range(50):
        kind = rng.choice(KINDS)
        n_meta = rng.choice([1, 1, 2])
        dkeys = [rng.choice(["coverage", "peril", "line", "m_state", "k"]) + rng.choice(["", "_é", "2"]) for _ in range(3)]
        dkeys = list(dict.fromkeys(dkeys))
        metas = []
        for si in range(n_meta):
            m = {a: (gen_string(rng, allow_empty=False) if rng.random() < 0.5 else None) for a in META_STR_ATTRS}
            m["country"] = f"{si}C"
            m["limit"] = gen_float_hex(rng, allow_nan=False) if rng.random() < 0.3 else None
            split = rng.randrange(len(dkeys) + 1)
            m["details"] = [[k, gen_detail_value(rng)] for k in dkeys[:split]]
            m["loss_details"] = [[k, gen_detail_value(rng)] for k in dkeys[split:]]
            metas.append(m)
        late = [f"z_{w}" for w in rng.sample(_WORDS, 3)]          # sort after the detail keys
        early = [f"{p}_{w}" for p, w in zip(["A", "0", "b", "a"], rng.sample(_WORDS, 4))]  # sort before
        n_tri = rng.choice([2, 2, 3])
        field_sets = [late[: rng.randint(1, 3)]]
        for j in range(1, n_tri):
            field_sets.append(field_sets[0] + early[: rng.randint(1, 4)] if j % 2 else early[-1:] + late[:1])
        seq = []
        for fields in field_sets:
            cells = []
            for m in metas:
                for k in range(rng.choice([1, 2, 3])):
                    y = 2015 + k
                    c = {"kind": kind, "ps": [2015, 1, 1], "pe": [2015, 12, 31], "ev": [y, 12, 31], "prev": None,
                         "values": [[f, gen_cell_value(rng)] for f in fields], "meta": m}
                    if kind == "IncrementalCell":
                        c["prev"] = [y, 6, 30] if k == 0 else [y - 1, 12, 31]
                    cells.append(c)
            if seq and rng.random() < 0.5:
                # family A across files: an EQUAL metadata spelled differently (other key order, 7 vs 7.0)
                import copy as _copy

                respelled = {}
                for c in cells:
                    key = repr(c["meta"])
                    if key not in respelled:
                        m2 = _copy.deepcopy(c["meta"])
                        for dn in ("details", "loss_details"):
                            m2[dn] = list(reversed(m2[dn]))
                            for it in m2[dn]:
                                if it[1][0] == "int" and abs(it[1][1]) < 2 ** 53:
                                    it[1] = ["float", struct.pack("<d", float(it[1][1])).hex()]
                        respelled[key] = m2
                    c["meta"] = respelled[key]
            seq.append(canon_triangle(mk_triangle(cells)))
        pools = [all_keys_sorted(wt) for wt in seq]
        if any(pools[0].index(k) != pools[j].index(k) for j in range(1, len(seq)) for k in dkeys):
            return seq
    return seq


def build_sequence(seq, share=True):
    """Triangle objects for a sequence; share=True: equal metadata are ONE Metadata object across
    all triangles, share=False: equal but distinct objects per triangle."""
    from bermuda import Cell, CumulativeCell, IncrementalCell, Triangle

    cls = {"Cell": Cell, "CumulativeCell": CumulativeCell, "IncrementalCell": IncrementalCell}
    cache = {}
    out = []
    for wt in seq:
        if not share:
            cache = {}
        cells = []
        for c in wt:
            key = repr(c["meta"])
            if key not in cache:
                cache[key] = mk_meta(c["meta"])
            kw = dict(period_start=datetime.date(*c["ps"]), period_end=datetime.date(*c["pe"]),
                      evaluation_date=datetime.date(*c["ev"]),
                      values={k: mk_val(v) for k, v in c["values"]}, metadata=cache[key])
            if c["kind"] == "IncrementalCell":
                kw["prev_evaluation_date"] = datetime.date(*c["prev"])
            cells.append(cls[c["kind"]](**kw))
        with warnings.catch_warnings():
            warnings.simplefilter("ignore")
            out.append(Triangle(cells))
    return out


_FRESH_SCRIPT = r"""
import json, sys, os, tempfile, warnings
warnings.simplefilter("ignore")
from harness import bin_common as B
wt = json.load(sys.stdin)
d = tempfile.mkdtemp()
p = os.path.join(d, "fresh.trib")
B.mk_triangle(wt).to_binary(p)          # the very first write of this interpreter
sys.stdout.write(open(p, "rb").read().hex())
os.unlink(p); os.rmdir(d)
"""


def fresh_bytes(wts):
    """Bytes of each triangle when it is the FIRST thing written by a fresh interpreter."""
    import json
    import subprocess
    from concurrent.futures import ThreadPoolExecutor

    from harness.common import PY

    def one(wt):
        pr = subprocess.run([PY, "-c", _FRESH_SCRIPT], input=json.dumps(wt), capture_output=True, text=True,
                            timeout=300)
        if pr.returncode != 0:
            return ("err", pr.stderr[-400:])
        return ("ok", bytes.fromhex(pr.stdout.strip()))

    with ThreadPoolExecutor(max_workers=8) as ex:
        return list(ex.map(one, wts))


def sequence_oracle(seq, scratch, fresh=None, orders=None):
    """Write the sequence back to back in this process (shared and equal-but-distinct Metadata objects,
    both orders, plain and compressed).  Every file must round-trip strictly, be the documented layout
    of ITS triangle (independent encoder) and equal the bytes a fresh interpreter writes for it.
    Returns None or (what, detail) with the failing order/flavour."""
    import gzip as _gzip

    n = len(seq)
    fresh = fresh or fresh_bytes(seq)
    for i, fr in enumerate(fresh):
        if fr[0] != "ok":
            return (f"a fresh interpreter could not write triangle {i} of the sequence: {fr[1]}", {"index": i})
    for order in (orders or [list(range(n)), list(range(n - 1, -1, -1))]):
        for share in (True, False):
            for compress in (False, True):
                tris = build_sequence([seq[i] for i in order], share=share)
                det = {"order": order, "share": share, "compress": compress}
                for pos, (i, tri) in enumerate(zip(order, tris)):
                    d = dict(det, index=i, position=pos)
                    w = safe_write(tri, scratch, compress=compress)
                    if w[0] != "ok":
                        return (f"to_binary raised {w[1]} on file {pos} of a write sequence (a valid triangle)", d)
                    b = w[1]
                    if compress:
                        try:
                            plain = _gzip.decompress(b)
                        except Exception as ex:  # noqa: BLE001
                            return (f"file {pos} of the sequence is not a gzip stream: {type(ex).__name__}", d)
                    else:
                        plain = b
                    r = impl_read(b, scratch, compress=compress)
                    if r[0] != "ok":
                        return (f"file {pos} of a write sequence cannot be read back: {r[1]}", d)
                    if not wt_equal(r[1], seq[i]):
                        return (f"file {pos} of a write sequence (triangle {i}) reads back differently: "
                                + first_diff(r[1], seq[i]), d)
                    if plain != fresh[i][1]:
                        return (f"file {pos} of a write sequence (triangle {i}) differs from the bytes written for the "
                                "same triangle by a fresh interpreter: the writer keeps state between files", d)
                    if plain != ref_encode(seq[i]):
                        return (f"file {pos} of a write sequence (triangle {i}) is not the documented layout of its "
                                "triangle (independent encoder)", d)
    return None


# ---------------------------------------------------------------------- path reuse
def gen_reuse_pair(rng, max_keys=8):
    """Two different small triangles A, B (first cells differ) for the path-reuse sequence."""
    while True:
        a = gen_triangle(rng, max_keys=max_keys, n_slices=rng.choice([1, 2]))
        b = gen_triangle(rng, max_keys=max_keys, n_slices=rng.choice([1, 2]))
        if a and b and norm_cell(a[0], False) != norm_cell(b[0], False):
            return a, b


def path_reuse_oracle(wt_a, wt_b, scratch, compress=False, cuts=None):
    """Save A to P, load P; overwrite P with strict prefixes of B's file and with B's complete file;
    every load goes through the PUBLIC Triangle.from_binary on the SAME path.  A load after a rewrite
    must reflect the disk: an error or a leading segment of B (compressed: an error), never A's cells;
    the complete rewrite must return B.  Returns None or (what, detail)."""
    import warnings as _w

    from bermuda import Triangle

    def load():
        try:
            with _w.catch_warnings():
                _w.simplefilter("ignore")
                return ("ok", canon_triangle(Triangle.from_binary(path)))
        except Exception as ex:  # noqa: BLE001
            return ("err", type(ex).__name__)

    path = scratch.path(".tribc" if compress else ".trib")
    flav = "tribc" if compress else "trib"
    tri_a, tri_b = mk_triangle(wt_a), mk_triangle(wt_b)
    try:
        with _w.catch_warnings():
            _w.simplefilter("ignore")
            tri_a.to_binary(path, compress=compress)
        r = load()
        if r[0] != "ok" or not wt_equal(r[1], wt_a):
            return ("a freshly saved file does not load back as saved", {"step": "load_a", "flavour": flav})
        # the caller edits the result it was given; a second load must not see the edit
        try:
            with _w.catch_warnings():
                _w.simplefilter("ignore")
                got = Triangle.from_binary(path)
            for cl in got.cells:
                cl.values["__edited__"] = 1
                cl.metadata.details["__edited__"] = "x"
                for v in cl.values.values():
                    if isinstance(v, np.ndarray) and v.size and v.flags.writeable:
                        v.flat[0] = 0
        except Exception:  # noqa: BLE001 - an immutable result is fine
            pass
        r = load()
        if r[0] != "ok" or not wt_equal(r[1], wt_a):
            return ("loading the same path again after the caller edited the first result returns the edited data",
                    {"step": "load_after_edit", "flavour": flav})
        b_bytes = impl_write(tri_b, scratch, compress=compress)
        ns = list(range(len(b_bytes))) if cuts is None else [n for n in cuts if n < len(b_bytes)]
        for n in ns:
            with open(path, "wb") as f:
                f.write(b_bytes[:n])
            r = load()
            if r[0] == "err":
                continue
            if compress:
                return (f"path reuse: after the file was overwritten with the first {n} of {len(b_bytes)} bytes of "
                        f"another COMPRESSED file, loading the same path did not raise ({len(r[1])} cells)",
                        {"step": "cut", "cut": n, "flavour": flav})
            if not is_prefix_of(r[1], wt_b, ordered=False):
                stale = " (the cells of the file that used to be at that path)" if wt_equal(r[1], wt_a) else ""
                return (f"path reuse: after the file was overwritten with the first {n} of {len(b_bytes)} bytes of "
                        f"another file, loading the same path returned {len(r[1])} cell(s) that are not a leading "
                        f"segment of that file{stale}", {"step": "cut", "cut": n, "flavour": flav})
        with _w.catch_warnings():
            _w.simplefilter("ignore")
            tri_b.to_binary(path, compress=compress)
        r = load()
        if r[0] != "ok" or not wt_equal(r[1], wt_b):
            return ("path reuse: after saving another triangle to the same path, loading it does not return that "
                    "triangle" + (": " + first_diff(r[1], wt_b) if r[0] == "ok" else f": raised {r[1]}"),
                    {"step": "rewrite_complete", "flavour": flav})
        with _w.catch_warnings():
            _w.simplefilter("ignore")
            tri_a.to_binary(path, compress=compress)
        r = load()
        if r[0] != "ok" or not wt_equal(r[1], wt_a):
            return ("path reuse: saving the first triangle again and loading does not return it",
                    {"step": "rewrite_back", "flavour": flav})
        return None
    finally:
        try:
            os.unlink(path)
        except OSError:
            pass


def replay_reuse(data, scratch):
    bad = path_reuse_oracle(data["pair"][0], data["pair"][1], scratch, compress=data.get("flavour") == "tribc")
    if bad is None:
        print("path-reuse sequence: every load reflects what is on disk: property holds")
        return 0
    print("PROPERTY FAILS:", bad[0], bad[1])
    return 1


def coords_oracle(wt, scratch):
    """Family D: coordinates given as datetime.datetime / pandas.Timestamp / a datetime subclass with a
    non-midnight time (all three cell classes; prev_evaluation_date included).  The triangle must hold plain dates and write the same file."""
    if not wt:
        return None
    try:
        tri = mk_triangle(wt, coords="mixed")
    except Exception as ex:  # noqa: BLE001
        return (f"cells with datetime/Timestamp coordinates are refused: {type(ex).__name__}", {"check": "coords"})
    if not wt_equal(canon_triangle(tri), wt, ordered=True):
        return ("cells built from datetime/Timestamp coordinates do not hold the plain dates: "
                + first_diff(canon_triangle(tri), wt, True), {"check": "coords"})
    w = safe_write(tri, scratch)
    if w[0] != "ok":
        return (f"to_binary raised {w[1]} for cells built from datetime/Timestamp coordinates", {"check": "coords"})
    if w[1] != ref_encode(wt):
        return ("cells built from datetime/Timestamp coordinates are written differently", {"check": "coords"})
    r = impl_read(w[1], scratch)
    if r[0] != "ok" or not wt_equal(r[1], wt):
        return ("cells built from datetime/Timestamp coordinates do not round-trip", {"check": "coords"})
    return None


def odd_extension_oracle(wt, scratch):
    """An EXPLICIT compress argument (True or False) is honoured on both sides whatever the extension:
    write with compress=c to an unconventional / the 'wrong' conventional extension, read with compress=c."""
    from bermuda import Triangle

    tri = mk_triangle(wt)
    for compress, ext in ((False, ".dat"), (False, ".tribc"), (True, ".bin"), (True, ".trib"), (False, ""),
                          (False, ".TRIB"), (True, ".TRIBC"), (0, ".trib"), (1, ".tribc")):
        p = scratch.path(ext)
        det = {"check": "odd_ext", "ext": ext, "compress": compress}
        try:
            with warnings.catch_warnings():
                warnings.simplefilter("ignore")
                tri.to_binary(p, compress=compress)
                t2 = Triangle.from_binary(p, compress=compress)
        except Exception as ex:  # noqa: BLE001
            return (f"explicit compress={compress} with extension '{ext}': write+read raised {type(ex).__name__}", det)
        finally:
            try:
                os.unlink(p)
            except OSError:
                pass
        if not wt_equal(canon_triangle(t2), wt):
            return (f"explicit compress={compress} with extension '{ext}': the triangle read back differs: "
                    + first_diff(canon_triangle(t2), wt), det)
    return None


def boundary_oracle(scratch):
    """Families G / L: refusals still refuse (never a silent change), valid inputs at the boundary are
    not refused.  Returns a list of (what, detail)."""
    import datetime as _dt

    from bermuda import Cell, Metadata, Triangle

    out = []
    d = _dt.date

    def tri_of(vals, meta=None):
        with warnings.catch_warnings():
            warnings.simplefilter("ignore")
            return Triangle([Cell(d(2020, 1, 1), d(2020, 12, 31), d(2020, 12, 31), vals, meta or Metadata()),
                             Cell(d(2021, 1, 1), d(2021, 12, 31), d(2021, 12, 31), {"x": 1}, meta or Metadata())])

    # arrays that are not int64/float64: refuse, or keep them exactly -- never a silent conversion
    for dt in ("float32", "int32", "int16", "bool", "uint8"):
        arr = np.arange(6).reshape(2, 3).astype(dt)
        try:
            tri = tri_of({"a": arr, "x": 2})
        except Exception:  # noqa: BLE001 - refused at construction: fine
            continue
        for compress in (False, True):
            w = safe_write(tri, scratch, compress=compress)
            if w[0] != "ok":
                continue
            r = impl_read(w[1], scratch, compress=compress)
            if r[0] != "ok" or not wt_equal(r[1], canon_triangle(tri)):
                out.append((f"a {dt} array is neither refused by to_binary nor read back as it was (silent change)",
                            {"boundary": f"dtype:{dt}", "flavour": "tribc" if compress else "trib"}))
    # strings at the documented limit (32767 UTF-8 bytes) are valid
    for name, sval in (("ascii", "a" * 32767), ("utf8", "\u4e2d" * 10922), ("empty", "")):
        tri = tri_of({"x": 0}, Metadata(country=sval if name != "utf8" else None, details={"k" + name: sval}))
        wt = canon_triangle(tri)
        w = safe_write(tri, scratch)
        r = impl_read(w[1], scratch) if w[0] == "ok" else ("err", w[1])
        if r[0] != "ok" or not wt_equal(r[1], wt):
            out.append((f"a string of {len(sval.encode())} UTF-8 bytes (documented limit 32767) does not round-trip: "
                        + (r[1] if r[0] == "err" else "changed"), {"boundary": f"string:{name}"}))
    # extension inference: an unknown extension cannot be inferred (ValueError); explicit compress=True reads it
    tri = tri_of({"x": 1.5})
    comp = impl_write(tri, scratch, compress=True)
    p = scratch.path(".dat")
    Path(p).write_bytes(comp)
    try:
        with warnings.catch_warnings():
            warnings.simplefilter("ignore")
            try:
                Triangle.from_binary(p)
                out.append(("a file with an unknown extension was read without an explicit compress argument",
                            {"boundary": "ext:infer"}))
            except ValueError:
                pass
            t2 = Triangle.from_binary(p, compress=True)
        if not wt_equal(canon_triangle(t2), canon_triangle(tri)):
            out.append(("explicit compress=True on an unconventional extension reads a different triangle",
                        {"boundary": "ext:explicit"}))
    except Exception as ex:  # noqa: BLE001
        out.append((f"explicit compress=True on an unconventional extension raised {type(ex).__name__}",
                    {"boundary": "ext:explicit"}))
    finally:
        os.unlink(p)
    return out


def _prefix_check(tri, wt, scratch, rng, what):
    """Write tri; every cut at a record boundary (and a few inside records) must raise or give leading cells."""
    w = safe_write(tri, scratch)
    if w[0] != "ok":
        return (f"{what}: to_binary raised {w[1]}", {})
    b = w[1]
    try:
        ends = ref_cell_offsets(b)
    except Exception:  # noqa: BLE001
        ends = []
    cuts = sorted(set(ends[:-1]) | {rng.randrange(len(b)) for _ in range(10)})
    for n in cuts:
        r = impl_read(b[:n], scratch)
        if r[0] == "ok" and not is_prefix_of(r[1], wt, ordered=False):
            return (f"{what}: the file cut at byte {n} of {len(b)} returned {len(r[1])} cell(s) that are not the leading "
                    "cells of the triangle that was saved, in order", {"cut": n})
    r = impl_read(b, scratch)
    if r[0] != "ok" or not wt_equal(r[1], wt):
        return (f"{what}: the complete file does not read back as the triangle that was saved", {})
    return None


def unrankable_oracle(rng, scratch):
    """Slices whose metadata cannot be ranked (a detail that is a number in one slice and a string in another)
    are refused by Triangle(...) (TriangleError).  If such a triangle is ever ACCEPTED, its file must still be
    prefix-safe.  Returns None or (what, detail)."""
    from bermuda import Triangle

    vals = [["int", 500000], ["int", 250000], ["str", "unlimited"]]
    if rng.random() < 0.5:
        vals = [["float", struct.pack("<d", 2.5).hex()], ["int", 1], ["none"], ["str", "x"]]
    base = {a: None for a in META_STR_ATTRS}
    base.update({"risk_basis": "Accident", "limit": None, "loss_details": []})
    cells = []
    for v in vals:
        m = dict(base, details=[["limit", v]])
        for k in range(rng.choice([2, 3])):
            cells.append({"kind": "Cell", "ps": [2019 + k, 1, 1], "pe": [2019 + k, 12, 31], "ev": [2021, 12, 31],
                          "prev": None, "values": [["paid", ["int", k]]], "meta": m})
    try:
        with warnings.catch_warnings():
            warnings.simplefilter("ignore")
            tri = Triangle(mk_cells(cells))
    except Exception:  # noqa: BLE001 - the refusal stays a refusal
        return None
    wt = canon_triangle(tri)
    bad = _prefix_check(tri, wt, scratch, rng, "a triangle with unrankable slice metadata was ACCEPTED and")
    if bad is not None:
        return (bad[0], {"cells": cells, "check": "unrankable", **bad[1]})
    return None


def derived_oracle(wt, scratch, rng, op):
    """A triangle produced by Triangle.replace / select / derive_fields, then saved: the derived triangle must
    be in canonical order (what the constructor gives for its cells), its file the layout of that triangle and
    every prefix of the file a leading segment.  op: relabel | restate | select | derive."""
    import dataclasses

    from bermuda import Triangle

    tri = mk_triangle(wt)
    if len(tri) < 2:
        return None
    det = {"wt": wt, "derive": op, "check": "derived"}
    try:
        with warnings.catch_warnings():
            warnings.simplefilter("ignore")
            if op == "relabel":      # re-label the FIRST slice so that it sorts last
                first = tri.cells[0].metadata
                t2 = tri.replace(metadata=lambda c: dataclasses.replace(c.metadata, risk_basis="~zz", country="~zz")
                                 if c.metadata == first else c.metadata)
            elif op == "restate":    # restate the oldest valuation of every row past the later ones
                oldest = min(c.evaluation_date for c in tri.cells)
                t2 = tri.replace(evaluation_date=lambda c: datetime.date(9998, 12, 30)
                                 if c.evaluation_date == oldest else c.evaluation_date)
            elif op == "select":
                keys = sorted({k for c in tri.cells for k in c.values})[:2]
                t2 = tri.select(keys)
            else:
                t2 = tri.derive_fields(__derived__=lambda c: 1)
            expected = Triangle(list(t2.cells))
    except Exception:  # noqa: BLE001 - the operation itself refusing is not a codec matter
        return None
    wt2 = canon_triangle(t2)
    if not wt_equal(wt2, canon_triangle(expected), ordered=True):
        bad = _prefix_check(t2, wt2, scratch, rng, f"a triangle produced by {op} holds its cells out of canonical order;")
        if bad is not None:
            return (bad[0], {**det, **bad[1]})
    bad = _prefix_check(t2, wt2, scratch, rng, f"a triangle produced by {op}, saved and cut:")
    if bad is not None:
        return (bad[0], {**det, **bad[1]})
    w = safe_write(t2, scratch)
    if w[0] == "ok" and w[1] != ref_encode(canon_triangle(expected)):
        return (f"the file of a triangle produced by {op} is not the layout of its (sorted) cells", det)
    return None


def safe_write(tri, scratch, compress=False):
    """('ok', bytes) or ('err', class name): to_binary must not raise on a valid triangle."""
    try:
        return ("ok", impl_write(tri, scratch, compress=compress))
    except Exception as ex:  # noqa: BLE001
        return ("err", type(ex).__name__)


def all_keys_sorted(wt):
    ks = set()
    for c in wt:
        ks.update(k for k, _ in c["values"])
        ks.update(k for k, _ in c["meta"]["details"])
        ks.update(k for k, _ in c["meta"]["loss_details"])
    return sorted(ks)


def uses_0x88_index(wt):
    return len(all_keys_sorted(wt)) > 136


def gen_f9_triangle(n_keys=137):
    """Directed probe of known finding F9: one cell with n_keys (>=137) fields."""
    vals = [[f"f{i:04d}", ["int", i]] for i in range(n_keys)]
    m = {a: None for a in META_STR_ATTRS}
    m["risk_basis"] = "Accident"
    m.update({"limit": None, "details": [], "loss_details": []})
    return [{"kind": "Cell", "ps": [2020, 1, 1], "pe": [2020, 12, 31], "ev": [2020, 12, 31], "prev": None,
             "values": vals, "meta": m},
            {"kind": "Cell", "ps": [2021, 1, 1], "pe": [2021, 12, 31], "ev": [2021, 12, 31], "prev": None,
             "values": vals[:3], "meta": m}]


# ====================================================================== Coq printer
_BYTE_NAME = ["x%02x" % i for i in range(256)]


def coq_z(n):
    return str(n) if n >= 0 else f"({n})"


def coq_zlist(bs, chunk=800):
    """Coq list literal; long lists are split into `++`-joined chunks (Coq's list notation is
    interpreted recursively and overflows the stack on tens of thousands of elements)."""
    bs = [_BYTE_NAME[b] if 0 <= b < 256 else str(b) for b in bs]
    if len(bs) <= chunk:
        return "[" + ";".join(bs) + "]"
    parts = ["[" + ";".join(bs[i:i + chunk]) + "]" for i in range(0, len(bs), chunk)]
    return "(" + " ++ ".join(parts) + ")"


def coq_str(s: str):
    return coq_zlist(s.encode("utf-8"))


def coq_ostr(s):
    return "None" if s is None else f"(Some {coq_str(s)})"


def coq_date(d):
    return f"({coq_z(d[0])},{d[1]},{d[2]})"


def coq_val(v):
    t = v[0]
    if t == "int":
        return f"(GInt {coq_z(v[1])})"
    if t == "float":
        return f"(GFloat {coq_zlist(bytes.fromhex(v[1]))})"
    if t == "bool":
        return f"(GBool {'true' if v[1] else 'false'})"
    if t == "none":
        return "GNone"
    if t == "str":
        return f"(GStr {coq_str(v[1])})"
    if t == "date":
        return f"(GDate {coq_date(v[1])})"
    if t == "arr":
        dt = "DInt" if v[1] == "int64" else "DFloat"
        return f"(GArr {dt} {coq_zlist(v[2])} {coq_zlist(bytes.fromhex(v[3]))})"
    raise ValueError(f"value {v!r} has no model counterpart")


def coq_dict(items):
    return "[" + ";".join(f"({coq_str(k)},{coq_val(v)})" for k, v in items) + "]"


def coq_meta(m):
    lim = "None" if m["limit"] is None else f"(Some {coq_zlist(bytes.fromhex(m['limit']))})"
    return ("(mkMeta " + " ".join(coq_ostr(m[a]) for a in META_STR_ATTRS) + f" {lim} "
            + coq_dict(m["details"]) + " " + coq_dict(m["loss_details"]) + ")")


_KIND = {"Cell": "KCell", "CumulativeCell": "KCum", "IncrementalCell": "KInc"}


def coq_cell(c, meta_name=None):
    prev = "None" if c["prev"] is None else f"(Some {coq_date(c['prev'])})"
    return (f"(mkCell {_KIND[c['kind']]} {coq_date(c['ps'])} {coq_date(c['pe'])} {coq_date(c['ev'])} "
            f"{coq_dict(c['values'])} {prev} {meta_name or coq_meta(c['meta'])})")


def coq_triangle_defs(name, wt):
    """Definitions `name_m<i>` for the distinct metadata and `name : triangle`."""
    lines = []
    metas = {}
    for c in wt:
        key = repr(c["meta"])
        if key not in metas:
            metas[key] = f"{name}_m{len(metas)}"
            lines.append(f"Definition {metas[key]} : meta := {coq_meta(c['meta'])}.")
    body = ";\n  ".join(coq_cell(c, metas[repr(c["meta"])]) for c in wt)
    lines.append(f"Definition {name} : triangle := [{body}].")
    return "\n".join(lines)


COQ_HEADER = """From Coq Require Import ZArith List Bool.
From Bermuda Require Import Lib.ByteNames Lib.Bytes Lib.BinParse Lib.StrSort Model.Binary.
Import ListNotations.
Open Scope Z_scope.
"""


def wt_in_model_domain(wt):
    """True when every value has a model counterpart (no 'other' kinds)."""
    def okv(v):
        return v[0] != "other"
    for c in wt:
        if any(isinstance(c[k], list) and c[k] and c[k][0] == "other" for k in ("ps", "pe", "ev")):
            return False
        if not all(okv(v) for _, v in c["values"]):
            return False
        m = c["meta"]
        if not all(okv(v) for _, v in m["details"] + m["loss_details"]):
            return False
        if any(isinstance(m[a], list) for a in META_STR_ATTRS) or isinstance(m["limit"], list):
            return False
    return True


# ====================================================================== independent v1 codec
# Written from the prose description of the layout (module comment of binary_output.py and the
# format constants), deliberately structured differently from the implementation: table driven,
# int.to_bytes / int.from_bytes instead of struct, a cursor over an immutable buffer instead of a
# stream, explicit bounds checks instead of short reads.
class RefFormatError(Exception):
    pass


_REF_TAGS = {"str": 0x80, "int": 0x81, "float": 0x82, "bool": 0x83, "none": 0x84, "date": 0x85,
             "int64": 0x86, "float64": 0x87}
_REF_END = 0x88
_REF_REC = {"meta": 0x10, "Cell": 0x11, "CumulativeCell": 0x12, "IncrementalCell": 0x13}
_REF_NAN = (0x7FF8000000000000).to_bytes(8, "little")


def _u(n, width):
    return int(n).to_bytes(width, "little", signed=False)


def _s(n, width):
    return int(n).to_bytes(width, "little", signed=True)


def _ref_text(s):
    if s is None:
        return _s(-1, 2)
    raw = s.encode("utf-8")
    return _u(len(raw), 2) + raw


def _ref_date(d):
    return _s(d[0], 2) + _u(d[1], 1) + _u(d[2], 1)


def _ref_value(v):
    t = v[0]
    if t == "str":
        return bytes([_REF_TAGS["str"]]) + _ref_text(v[1])
    if t == "int":
        return bytes([_REF_TAGS["int"]]) + _s(v[1], 8)
    if t == "float":
        return bytes([_REF_TAGS["float"]]) + bytes.fromhex(v[1])
    if t == "bool":
        return bytes([_REF_TAGS["bool"], 1 if v[1] else 0])
    if t == "none":
        return bytes([_REF_TAGS["none"]])
    if t == "date":
        return bytes([_REF_TAGS["date"]]) + _ref_date(v[1])
    if t == "arr":
        out = bytes([_REF_TAGS[v[1]], len(v[2])])
        for d in v[2]:
            out += _u(d, 4)
        return out + bytes.fromhex(v[3])
    raise RefFormatError(f"cannot encode {v!r}")


def _ref_mapping(items, index):
    out = bytearray()
    for k, v in items:
        out += _u(index[k], 2) + _ref_value(v)
    out.append(_REF_END)
    return bytes(out)


def ref_encode(wt, pool_order=None, always_meta=False, trailer=b"") -> bytes:
    """Independent v1 encoder.  Defaults give the canonical file.  The options produce other
    streams that the documented reader must also accept: a pool in another order (indices follow),
    a metadata record in front of every cell, bytes after the last record (an unknown marker ends
    the reader's loop)."""
    pool = all_keys_sorted(wt) if pool_order is None else list(pool_order)
    index = {k: i for i, k in enumerate(pool)}
    chunks = [_u(0x0136AF, 4), _u(1, 1), _s(len(pool), 2)]
    chunks += [_ref_text(k) for k in pool]
    last = None
    for c in wt:
        m = c["meta"]
        mkey = repr(norm_cell(c, ordered=False)["meta"])
        if mkey != last or always_meta:
            chunks.append(bytes([_REF_REC["meta"]]))
            chunks += [_ref_text(m[a]) for a in META_STR_ATTRS]
            chunks.append(_REF_NAN if m["limit"] is None else bytes.fromhex(m["limit"]))
            chunks.append(_ref_mapping(m["details"], index))
            chunks.append(_ref_mapping(m["loss_details"], index))
            last = mkey
        chunks.append(bytes([_REF_REC[c["kind"]]]))
        chunks += [_ref_date(c["ps"]), _ref_date(c["pe"]), _ref_date(c["ev"])]
        chunks.append(_ref_mapping(c["values"], index))
        if c["kind"] == "IncrementalCell":
            chunks.append(_ref_date(c["prev"]))
    return b"".join(chunks) + trailer


class _Cur:
    def __init__(self, buf):
        self.b = buf
        self.i = 0

    def need(self, n):
        if self.i + n > len(self.b):
            raise RefFormatError("truncated")
        out = self.b[self.i:self.i + n]
        self.i += n
        return out

    def uint(self, w):
        return int.from_bytes(self.need(w), "little", signed=False)

    def sint(self, w):
        return int.from_bytes(self.need(w), "little", signed=True)

    def at_end(self):
        return self.i >= len(self.b)


def _rd_text(c):
    n = c.sint(2)
    if n == -1:
        return None
    if n < 0:
        raise RefFormatError("negative length")
    return c.need(n).decode("utf-8")


def _rd_date(c):
    y, m, d = c.sint(2), c.uint(1), c.uint(1)
    datetime.date(y, m, d)
    return [y, m, d]


def _rd_value(c):
    tag = c.uint(1)
    if tag == 0x80:
        return ["str", _rd_text(c)]
    if tag == 0x81:
        return ["int", c.sint(8)]
    if tag == 0x82:
        return ["float", c.need(8).hex()]
    if tag == 0x83:
        return ["bool", c.uint(1) != 0]
    if tag == 0x84:
        return ["none"]
    if tag == 0x85:
        return ["date", _rd_date(c)]
    if tag in (0x86, 0x87):
        nd = c.uint(1)
        dims = [c.uint(4) for _ in range(nd)]
        n = 1
        for d in dims:
            n *= d
        return ["arr", "int64" if tag == 0x86 else "float64", dims, c.need(8 * n).hex()]
    raise RefFormatError(f"unknown type tag {tag:#x}")


def _rd_mapping(c, pool, strict_terminator=True):
    """Key/value pairs up to the 0x88 terminator.  NOTE (F9): the v1 layout is ambiguous when a key
    index has low byte 0x88; like the documented reader we test one byte."""
    items = []
    while True:
        if c.at_end():
            raise RefFormatError("truncated mapping")
        if c.b[c.i] == _REF_END:
            c.i += 1
            return items
        k = c.uint(2)
        if k >= len(pool):
            raise RefFormatError("key index out of range")
        items.append([pool[k], _rd_value(c)])


def ref_decode(buf: bytes):
    c = _Cur(bytes(buf))
    if c.need(4) != _u(0x0136AF, 4):
        raise RefFormatError("bad magic")
    if c.uint(1) != 1:
        raise RefFormatError("unsupported version")
    npool = c.uint(2)
    pool = [_rd_text(c) for _ in range(npool)]
    cells = []
    meta = None
    rec_names = {v: k for k, v in _REF_REC.items()}
    while not c.at_end():
        tag = c.uint(1)
        name = rec_names.get(tag)
        if name is None:
            raise RefFormatError(f"unknown record tag {tag:#x}")
        if name == "meta":
            meta = {a: _rd_text(c) for a in META_STR_ATTRS}
            raw = c.need(8)
            f = struct.unpack("<d", raw)[0]
            meta["limit"] = None if f != f else raw.hex()
            meta["details"] = _rd_mapping(c, pool)
            meta["loss_details"] = _rd_mapping(c, pool)
            continue
        if meta is None:
            raise RefFormatError("cell before any metadata record")
        cell = {"kind": name, "ps": _rd_date(c), "pe": _rd_date(c), "ev": _rd_date(c), "prev": None}
        cell["values"] = _rd_mapping(c, pool)
        if name == "IncrementalCell":
            cell["prev"] = _rd_date(c)
        cell["meta"] = meta
        cells.append(cell)
    return cells


# ====================================================================== misc
def wt_summary(wt):
    kinds = sorted({c["kind"] for c in wt})
    metas = {repr(c["meta"]) for c in wt}
    vt = sorted({v[0] if v[0] != "arr" else f"arr{len(v[2])}d" + (f"-{v[4]}order" if len(v) > 4 else "")
                 for c in wt for _, v in c["values"]})
    dt = sorted({v[0] for c in wt for _, v in c["meta"]["details"] + c["meta"]["loss_details"]})
    return {"cells": len(wt), "slices": len(metas), "kinds": kinds, "keys": len(all_keys_sorted(wt)),
            "value_types": vt, "detail_types": dt}


def shrink_wt(wt, still_fails, budget=200):
    """Greedy shrink: drop cells, then fields, while the failure persists."""
    cur = wt
    n = 0
    changed = True
    while changed and n < budget:
        changed = False
        for i in range(len(cur)):
            cand = cur[:i] + cur[i + 1:]
            n += 1
            try:
                if still_fails(cand):
                    cur = cand
                    changed = True
                    break
            except Exception:  # noqa: BLE001
                pass
            if n >= budget:
                break
    for ci in range(len(cur)):
        j = 0
        while j < len(cur[ci]["values"]) and n < budget:
            cand = [dict(c) for c in cur]
            cand[ci]["values"] = cur[ci]["values"][:j] + cur[ci]["values"][j + 1:]
            n += 1
            try:
                ok = still_fails(cand)
            except Exception:  # noqa: BLE001
                ok = False
            if ok:
                cur = cand
            else:
                j += 1
    return cur


# ====================================================================== T-bin obligations
def tbin_obligations(ctx):
    """Regenerate GenBin.v from REPO, compile it and the GenProps file.  Returns (ok, diff) where
    diff is a readable difference against the committed snapshot golden/tbin_expected.json."""
    import json
    import shutil

    from harness.common import COQ, REPO, ROOT
    from translate import t_bin

    diff = ""
    try:
        desc = t_bin.translate(REPO)
    except t_bin.TranslationError as ex:
        ctx.obligation("T-bin:translate(binary.py,binary_output.py,binary_input.py)", False, str(ex))
        return False, f"translator failed closed: {ex}"
    except (OSError, SyntaxError) as ex:
        ctx.obligation("T-bin:translate(binary.py,binary_output.py,binary_input.py)", False, repr(ex))
        return False, f"translator could not read the sources: {ex!r}"
    ctx.obligation("T-bin:translate(binary.py,binary_output.py,binary_input.py)", True)
    (ctx.build / "GenBin.v").write_text(t_bin.to_coq(desc))
    try:
        exp = json.loads((ROOT / "golden" / "tbin_expected.json").read_text())
        if exp != desc:
            lines = []
            for k in sorted(set(exp["constants"]) | set(desc["constants"])):
                if exp["constants"].get(k) != desc["constants"].get(k):
                    lines.append(f"constant {k}: expected {exp['constants'].get(k)} now {desc['constants'].get(k)}")
            e = {n: ev for n, ev in exp["layout"]}
            d = {n: ev for n, ev in desc["layout"]}
            for n in sorted(set(e) | set(d)):
                if e.get(n) != d.get(n):
                    import difflib

                    lines.append(f"function {n}:")
                    lines += list(difflib.unified_diff(e.get(n) or [], d.get(n) or [], "expected", "now", lineterm="", n=1))
            if [n for n, _ in exp["layout"]] != [n for n, _ in desc["layout"]]:
                lines.append("function order changed")
            diff = "\n".join(lines)
    except OSError:
        diff = "(no snapshot)"
    rc, out = ctx.coqc(ctx.build / "GenBin.v")
    if rc != 0:
        ctx.obligation("GenBin.v compiles", False, out)
        return False, diff or out[-800:]
    shutil.copy(COQ / "GenProps" / "C06_bin.v", ctx.build / "C06_bin.v")
    ok, out = ctx.prove(ctx.build / "C06_bin.v")
    return ok, diff


MY_COQ_FILES = ["Lib/Bytes.v", "Lib/BinParse.v", "Lib/Utf8.v", "Lib/StrSort.v", "Lib/ByteNames.v",
                "Model/Binary.v", "Model/BinDesc.v", "Model/BinLayout.v", "Model/BinEmbed.v", "Proofs/BinaryPrim.v",
                "Proofs/BinaryRec.v", "Proofs/BinaryTop.v", "Proofs/BinaryLayout.v", "Proofs/BinaryEmbed.v",
                "Props/C05.v", "Props/C06.v", "Props/C19.v", "GenProps/C06_bin.v"]

_ERR_CTOR = {"ValueError": "EValue", "error": "EStruct", "IndexError": "EIndex", "TypeError": "EType",
             "UnicodeDecodeError": "EUnicode", "EOFError": "EEof"}


def coq_result(res, name_prefix=None):
    """Coq term of an implementation read outcome ('ok', wt) / ('err', cls); None if the outcome has
    no model counterpart."""
    if res[0] == "err":
        c = _ERR_CTOR.get(res[1])
        return None if c is None else f"(RErr {c})"
    if not wt_in_model_domain(res[1]):
        return None
    return "(ROk [" + ";\n ".join(coq_cell(c) for c in res[1]) + "])"


def raise_stack_limit():
    """Coq elaborates long list literals recursively; give the child coqc processes a big stack."""
    import resource

    try:
        soft, hard = resource.getrlimit(resource.RLIMIT_STACK)
        want = 1 << 30
        if hard != resource.RLIM_INFINITY:
            want = min(want, hard)
        if soft == resource.RLIM_INFINITY or soft >= want:
            return
        resource.setrlimit(resource.RLIMIT_STACK, (want, hard))
    except (ValueError, OSError):
        pass


def prove_static_local(ctx, rel, timeout=900):
    """Re-check a static property file with the .vo written to build/<pid>/ (same base name, as coqc
    requires).  Registers one obligation per Theorem/Corollary and collects Print Assumptions."""
    import re

    from harness.common import COQ, audit_coq_sources, coq_comment_strip, parse_print_assumptions, sh

    src = COQ / rel
    txt = coq_comment_strip(src.read_text())
    names = re.findall(r"^\s*(?:Theorem|Corollary)\s+([A-Za-z0-9_']+)", txt, re.M)
    probs = audit_coq_sources([src])
    out_vo = ctx.build / (src.stem + ".vo")
    cmd = ["coqc", "-q", "-Q", str(COQ), "Bermuda", "-o", str(out_vo), str(src)]
    ctx.checker_cmds.append(" ".join(cmd))
    rc, out = sh(cmd, timeout=timeout, cwd=ctx.build)
    ok = rc == 0 and not probs
    assum = parse_print_assumptions(out, re.findall(r"Print\s+Assumptions\s+([A-Za-z0-9_'.]+)\s*\.", txt))
    for n in names:
        ctx.obligation(f"{src.name}:{n}", ok, "" if ok else out[-1200:] + "\n".join(probs), assum.get(n))
    if not ok:
        ctx.log(f"static property file {rel} FAILED:\n{out[-1500:]}" + "\n".join(probs))
    return ok, out


def coqc_many_retry(ctx, files, jobs=16, timeout=1500):
    """ctx.coqc_many, then one sequential retry for files whose coqc was killed from outside (signal /
    out-of-memory killer on a loaded machine: non-zero exit without any Coq `Error`)."""
    res = ctx.coqc_many(files, jobs=jobs, timeout=timeout)
    for f in files:
        rc, out = res[f]
        if rc != 0 and rc != 124 and "Error" not in out:
            ctx.log(f"coqc on {getattr(f, 'name', f)} ended with status {rc} and no Coq error: retrying once")
            res[f] = ctx.coqc(f, timeout=timeout)
    return res


# ====================================================================== LARGE stream (family Q)
# Big cases judged by the Python-side oracles only (independent encoder/decoder, strict round trip,
# permutation, prefixes): the theorems are size-independent, it is the correspondence that samples,
# and Coq literals of 10^5 elements are not affordable.  Cases are rebuilt from their parameters.
def large_params(quick=True, seed=1):
    ps = [dict(large="scalar", seed=seed, slices=6, starts=3, evals=70, fields=5),            # 2520 cells, ~200 KB
          dict(large="arrays", seed=seed, cells=90, samples=100, big=[(300, 250), (70000,)], mid=[4096, 5000]),
          dict(large="manymeta", seed=seed, metas=1100)]
    if not quick:
        ps += [dict(large="scalar", seed=seed + 1, slices=12, starts=2, evals=128, fields=3),  # 256-cell slices
               dict(large="scalar", seed=seed + 2, slices=5, starts=4, evals=80, fields=6),    # 3200 cells
               dict(large="arrays", seed=seed + 1, cells=300, samples=100, big=[(1000, 100), (100000,)], mid=[4999]),
               dict(large="manymeta", seed=seed + 1, metas=4200)]
    return ps


def build_large(p):
    """Cell objects of one large case (deterministic in p)."""
    import random as _r

    from bermuda import Cell, CumulativeCell, Metadata

    rng = _r.Random(p["seed"] * 7 + 1)
    cells = []
    if p["large"] == "scalar":
        names = [f"f{j}" for j in range(p["fields"])]
        for si in range(p["slices"]):
            def new_meta():   # value-equal but DISTINCT instances inside one slice
                return Metadata(risk_basis="Accident", country=f"C{si:02d}", per_occurrence_limit=1e10 + si,
                                details={"policy_id": 2**53 + 1 + si, "line": "motor"},
                                loss_details={"peril": "wind" if si % 2 else "fire"})
            for st in range(p["starts"]):
                y = 2000 + st
                for pe, off in ((datetime.date(y, 3, 31), 12), (datetime.date(y, 12, 31), 0)):   # nested periods
                    for e in range(p["evals"]):
                        ey, em = _add_months(y, 12, off + e)
                        ev = datetime.date(*_month_end(ey, em))
                        vals = {n: (rng.choice([2**53 + 1, -(2**62), 7]) + e if j % 2 == 0 else rng.random() * 1e6)
                                for j, n in enumerate(names)}
                        cells.append(CumulativeCell(datetime.date(y, 1, 1), pe, ev, vals, new_meta()))
    elif p["large"] == "arrays":
        m = Metadata(details={"k": "v"})
        for i in range(p["cells"]):
            y = 1990 + i // 12
            mo = i % 12 + 1
            vals = {"s": np.arange(i, i + p["samples"], dtype="float64") / 7.0,
                    "n": (np.arange(p["samples"], dtype="int64") * (2**40) + i)}
            cells.append(Cell(datetime.date(y, mo, 1), datetime.date(*_month_end(y, mo)),
                              datetime.date(*_month_end(y, mo)), vals, m))
        big = {}
        for j, shp in enumerate(p["big"]):
            n = int(np.prod(shp))
            if len(shp) == 2:
                a = np.asfortranarray(np.arange(n, dtype="int64").reshape(shp) * 3 + 2**53)     # Fortran order
            else:
                a = (np.arange(n, dtype="float64") * 0.5)[::-1]                                   # reversed view
            big[f"big{j}"] = a
        for j, n in enumerate(p["mid"]):
            big[f"mid{j}"] = np.arange(2 * n, dtype="int64")[::2] if j % 2 == 0 else np.linspace(0, 1, n)
        cells.append(Cell(datetime.date(2030, 1, 1), datetime.date(2030, 12, 31), datetime.date(2030, 12, 31), big, m))
    else:  # manymeta: one cell per distinct Metadata
        for i in range(p["metas"]):
            md = Metadata(country=f"K{i % 97:02d}", currency=f"U{i // 97:03d}", per_occurrence_limit=float(i),
                          details={"id": 2**53 + i}, loss_details={"tag": str(i)} if i % 3 else {})
            y = 2000 + i % 20
            cells.append(Cell(datetime.date(y, 1, 1), datetime.date(y, 12, 31), datetime.date(y, 12, 31),
                              {"paid": i, "x": float(i) / 3}, md))
    return cells


def ref_cell_offsets(buf):
    """Byte offset at which each record of a v1 file ends (independent cursor walk)."""
    c = _Cur(bytes(buf))
    c.need(5)
    pool = [_rd_text(c) for _ in range(c.uint(2))]
    ends = []
    while not c.at_end():
        tag = c.uint(1)
        if tag == 0x10:
            for _ in range(5):
                _rd_text(c)
            c.need(8)
            _rd_mapping(c, pool)
            _rd_mapping(c, pool)
            continue
        for _ in range(3):
            c.need(4)
        _rd_mapping(c, pool)
        if tag == 0x13:
            c.need(4)
        ends.append(c.i)
    return ends


def large_oracle(p, scratch, mode, early=None):
    """mode 'c05': strict round trip (both flavours) + independent encoder; 'c06': independent codec both
    ways + permutation of the supplied cells; 'c19': prefixes at record boundaries and inside records.
    Returns None or (what, detail)."""
    import random as _r

    from bermuda import Triangle

    rng = _r.Random(p["seed"])
    det = {"large_params": p, "mode": mode}
    cells = build_large(p)
    with warnings.catch_warnings():
        warnings.simplefilter("ignore")
        tri = Triangle(cells)
    wt = canon_triangle(tri)
    w = safe_write(tri, scratch)
    if w[0] != "ok":
        return (f"to_binary raised {w[1]} on a large valid triangle ({len(cells)} cells)", det)
    b = w[1]
    ref = ref_encode(wt)
    if b != ref:
        k = next((i for i, (x, y) in enumerate(zip(ref, b)) if x != y), min(len(ref), len(b)))
        return (f"large triangle ({len(cells)} cells, {len(b)} bytes): file differs from the documented layout at "
                f"offset {k} (lengths {len(b)}/{len(ref)})", det)
    if mode in ("c05", "c06"):
        r = impl_read(b, scratch)
        if r[0] != "ok" or not wt_equal(r[1], wt):
            return (f"large triangle ({len(cells)} cells): round trip " +
                    (f"raised {r[1]}" if r[0] != "ok" else "changed the triangle: " + first_diff(r[1], wt)), det)
    if mode == "c05":
        w2 = safe_write(tri, scratch, compress=True)
        r = impl_read(w2[1], scratch, compress=True) if w2[0] == "ok" else ("err", w2[1])
        if r[0] != "ok" or not wt_equal(r[1], wt):
            return (f"large triangle ({len(cells)} cells): compressed round trip failed", det)
    if mode == "c06":
        try:
            if not wt_equal(ref_decode(b), wt, ordered=True):
                return ("large triangle: the independent decoder recovers a different triangle", det)
        except Exception as ex:  # noqa: BLE001
            return (f"large triangle: the independent decoder fails: {ex}", det)
        perm = cells[:]
        rng.shuffle(perm)
        with warnings.catch_warnings():
            warnings.simplefilter("ignore")
            w3 = safe_write(Triangle(perm), scratch)
        if w3[0] != "ok" or w3[1] != b:
            return (f"large triangle ({len(cells)} cells): different bytes for a permutation of the same cells", det)
    if mode == "c19":
        ends = ref_cell_offsets(b)
        picks = sorted({ends[i] for i in (0, 1, 2, 99, 255, 256, 1023, 1024, 2046, 2047, 2048, len(ends) - 2)
                        if 0 <= i < len(ends) - 1}
                       | {rng.choice(ends[:-1]) for _ in range(6)} | {rng.randrange(len(b)) for _ in range(8)})
        canon_cache = [norm_cell(c, False) for c in wt]
        for n in picks:
            r = impl_read(b[:n], scratch)
            if r[0] == "err":
                continue
            got = r[1]
            if len(got) > len(wt) or any(norm_cell(g, False) != canon_cache[i] for i, g in enumerate(got)):
                return (f"large file ({len(cells)} cells, {len(b)} bytes) cut at byte {n}: the {len(got)} cell(s) returned "
                        "are not the leading cells of the original, in order", dict(det, cut=n))
        w2 = safe_write(tri, scratch, compress=True)
        if w2[0] == "ok":
            for n in sorted({rng.randrange(len(w2[1])) for _ in range(5)} | {len(w2[1]) - 1, len(w2[1]) - 9}):
                r = impl_read(w2[1][:n], scratch, compress=True)
                if r[0] == "ok":
                    return (f"large compressed file cut at byte {n} of {len(w2[1])} was read ({len(r[1])} cells)",
                            dict(det, cut=n, flavour="tribc"))
    if early is not None:
        # process-wide state: an early small case must still be written exactly as before the large work
        e_wt, e_bytes = early
        w4 = safe_write(mk_triangle(e_wt), scratch)
        if w4[0] != "ok" or w4[1] != e_bytes:
            return ("after the large work an early small triangle is no longer written as before", dict(det, early=e_wt))
        r = impl_read(e_bytes, scratch)
        if r[0] != "ok" or not wt_equal(r[1], e_wt):
            return ("after the large work an early small file is no longer read back as before", dict(det, early=e_wt))
    return None


def run_large_stream(ctx, scratch, mode, early=None):
    import time as _t

    t0 = _t.time()
    n_bad = 0
    for p in large_params(ctx.quick, ctx.seed):
        bad = large_oracle(p, scratch, mode, early=early)
        ctx.hist("large:" + p["large"])
        ctx.count(evaluations=10, traces=1)
        ctx.nontriv(("large", repr(p)))
        if bad is not None:
            n_bad += 1
            if n_bad <= 2:
                ctx.violation("impl-violation", bad[0], bad[1], found_input=True)
    ctx.notes.append(f"large stream ({len(large_params(ctx.quick, ctx.seed))} cases: up to 2520/3200 cells, 1100/4200 distinct "
                     "Metadata, 10^5-item arrays) is judged by the Python-side oracles only (independent codec, strict round "
                     f"trip, permutation, prefixes); no Coq literals for these; {_t.time()-t0:.1f}s")


def replay_large(data, scratch):
    bad = large_oracle(data["large_params"], scratch, data.get("mode", "c05"))
    if bad is None:
        print("large case: all oracles pass: property holds")
        return 0
    print("PROPERTY FAILS:", bad[0])
    return 1
