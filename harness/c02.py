"""C02 -- `==` means identical contents; hash, membership and subset tests agree."""
from __future__ import annotations

import copy
import datetime
import io
import itertools
import os
import random
import warnings

import numpy as np

from harness import coqterm as ct
from harness.c01 import translate_and_prove
from harness.common import parse_coq_eval
from harness.gen import ATTRS, Gen

warnings.simplefilter("ignore")
ONE = datetime.timedelta(days=1)


def rebuild(c, cls=None, **over):
    """A fresh cell equal to c except for the overrides (never goes through Cell.replace)."""
    import bermuda

    kw = dict(period_start=c.period_start, period_end=c.period_end, evaluation_date=c.evaluation_date,
              values=dict(c.values), metadata=c.metadata)
    name = type(c).__name__
    if name == "IncrementalCell":
        kw["prev_evaluation_date"] = c.prev_evaluation_date
    kw.update(over)
    k = cls or getattr(bermuda, name)
    return k(**kw)


def equal_variants(g, t):
    """Triangles that must compare equal to t."""
    import bermuda
    from bermuda import Metadata, Triangle

    out = []
    cells = list(t.cells)
    perm = cells[:]
    g.r.shuffle(perm)
    out.append(("permuted", Triangle(perm)))
    out.append(("generator", Triangle(c for c in perm)))
    if not t.is_incremental:
        other = bermuda.Cell if type(cells[0]).__name__ == "CumulativeCell" else bermuda.CumulativeCell
        out.append(("retyped", Triangle([rebuild(c, cls=other) for c in cells])))

    def refmt(v):
        if isinstance(v, np.ndarray):
            return v.astype(np.float64) if v.dtype.kind == "i" else v.copy()
        if isinstance(v, (bool, type(None))):
            return v
        if isinstance(v, int):
            return float(v)
        if isinstance(v, float) and v == int(v):
            return int(v)
        return v

    def remeta(m):
        return Metadata(risk_basis=m.risk_basis, country=m.country, currency=m.currency,
                        reinsurance_basis=m.reinsurance_basis, loss_definition=m.loss_definition,
                        per_occurrence_limit=refmt(m.per_occurrence_limit),
                        details=dict(reversed(list(m.details.items()))),
                        loss_details={k: refmt(v) if not isinstance(v, str) else v for k, v in m.loss_details.items()})

    out.append(("reformatted", Triangle([
        rebuild(c, values={k: refmt(v) for k, v in reversed(list(c.values.items()))}, metadata=remeta(c.metadata))
        for c in cells])))
    # family D: the same cells built from datetime-like coordinates with a time of day
    import pandas as pd

    class _DT(datetime.datetime):
        pass

    kind = g.r.choice(["datetime", "Timestamp", "subclass"])
    conv = {"datetime": lambda d, h: datetime.datetime(d.year, d.month, d.day, h, 30),
            "Timestamp": lambda d, h: pd.Timestamp(year=d.year, month=d.month, day=d.day, hour=h, minute=30),
            "subclass": lambda d, h: _DT(d.year, d.month, d.day, h, 30)}[kind]
    try:
        over = lambda c: dict(period_start=conv(c.period_start, 0), period_end=conv(c.period_end, 17),  # noqa: E731
                              evaluation_date=conv(c.evaluation_date, 17),
                              **({"prev_evaluation_date": conv(c.prev_evaluation_date, 17)} if t.is_incremental else {}))
        out.append((f"coords-as-{kind}", Triangle([rebuild(c, **over(c)) for c in cells])))
    except Exception:  # noqa: BLE001
        pass
    out += serial_variants(t)
    # sibling slices whose only difference is a pair of values with colliding CPython hashes (-1 / -2, 0 / 2**61-1):
    # the same cells supplied in two orders are the same triangle
    try:
        a_, b_ = g.r.choice([(-1, -2), (-1.0, -2.0), (0, 2**61 - 1)])
        md = cells[0].metadata
        kw0 = {x: getattr(md, x) for x in ATTRS}
        where = g.r.choice(["details", "loss_details"])
        mk = lambda v: Metadata(**{**kw0, "details": dict(md.details), "loss_details": dict(md.loss_details),  # noqa: E731
                                   where: {**getattr(md, where), "hc": v}})
        ma, mb = mk(a_), mk(b_)
        base = [c for c in cells if c.metadata == md][:6]
        both = [rebuild(c, metadata=ma) for c in base] + [rebuild(c, metadata=mb) for c in base]
        p1, p2 = both[:], both[::-1]
        g.r.shuffle(p1)
        out.append((f"hash-collision-slices-permuted {a_}/{b_}", ("pair", Triangle(p1), Triangle(p2))))
    except Exception:  # noqa: BLE001
        pass
    return out


def serial_variants(t, tag=""):
    """Copies of t that went through the library's own writers and readers: must be == t with equal hashes."""
    from bermuda import Triangle

    out = []
    try:
        os.makedirs("/verif/build/C02", exist_ok=True)
        p = f"/verif/build/C02/rt_{os.getpid()}.trib"
        t.to_binary(p)
        out.append(("binary-roundtrip" + tag, Triangle.from_binary(p)))
        os.unlink(p)
    except Exception:  # noqa: BLE001  -- serialisation is the business of C05/C07
        pass
    try:
        out.append(("json-roundtrip" + tag, Triangle.from_dict(t.to_dict())))
    except Exception:  # noqa: BLE001
        pass
    return out


def derived_bases(g, t):
    """Triangles derived from t that stress representation corners of equality: a slice with risk_basis None
    (a value writers may drop), NumPy integer scalars beyond 2**53 (not representable as a double), NumPy
    float / bool scalars.  Each is paired with its own serialisation round trips (must be == with equal hashes)
    and with t itself when the change is a real edit (must be !=)."""
    from bermuda import Metadata, Triangle

    r = g.r
    cells = list(t.cells)
    out = []
    # (1) risk_basis None on the first slice's metadata
    m0 = cells[0].metadata
    try:
        m_none = Metadata(**{**{x: getattr(m0, x) for x in ATTRS}, "risk_basis": None,
                             "details": dict(m0.details), "loss_details": dict(m0.loss_details)})
        t_none = Triangle([rebuild(c, metadata=m_none) if c.metadata == m0 else c for c in cells])
        out.append(("risk_basis=None", t_none, m0.risk_basis is not None))
    except Exception:  # noqa: BLE001
        pass
    # (2) big NumPy integer scalars
    i = r.randrange(len(cells))
    c = cells[i]
    scal = [k for k, v in c.values.items() if isinstance(v, (int, float)) and not isinstance(v, bool)]
    if scal:
        k0 = r.choice(scal)
        big = r.choice([2**53 + 1, -(2**53) - 1, 2**62 + 3, 2**63 - 1, -(2**63) + 1, 2**53 + 2 * r.randrange(1, 10**6) + 1])
        for nm, val in (("np.int64-big", np.int64(big)), ("int-big", big)):
            try:
                t_big = Triangle(cells[:i] + [rebuild(c, values={**c.values, k0: val})] + cells[i + 1:])
                out.append((nm, t_big, True))
            except Exception:  # noqa: BLE001
                pass
        try:
            t_np = Triangle(cells[:i] + [rebuild(c, values={**c.values, k0: np.float64(c.values[k0])})] + cells[i + 1:])
            out.append(("np.float64-scalar", t_np, False))
        except Exception:  # noqa: BLE001
            pass
        # 0-d arrays (a rank of their own: not scalars, not 1-element vectors) and infinite scalars (NaN-free data)
        for nm, val in (("0-d-array", np.array(c.values[k0])), ("0-d-float-array", np.array(float(c.values[k0]))),
                        ("+inf", float("inf")), ("-inf", float("-inf")), ("size-1-array", np.array([float(c.values[k0])])),
                        ("2-d-1x1-array", np.array([[float(c.values[k0])]]))):
            try:
                out.append((nm, Triangle(cells[:i] + [rebuild(c, values={**c.values, k0: val})] + cells[i + 1:]),
                            nm not in ("0-d-array", "0-d-float-array")))     # a 0-d array equals the scalar (np.array_equal)
            except Exception:  # noqa: BLE001
                pass
    return out


def edited_variants(g, t):
    """Triangles that must compare UNEQUAL to t (single edits)."""
    from bermuda import Metadata, Triangle

    r = g.r
    cells = list(t.cells)
    out = []
    n = len(cells)
    for k in sorted(set([0, 1, n // 2, n - 1])):
        if 0 <= k < n:
            out.append((f"prefix[{k}]", Triangle(cells[:k])))
    i = r.randrange(n)
    c = cells[i]

    def swap(newc):
        return Triangle(cells[:i] + [newc] + cells[i + 1:])

    far = datetime.timedelta(days=4000)
    out.append(("extra-cell", Triangle(cells + [rebuild(cells[-1], evaluation_date=cells[-1].evaluation_date + far)])))
    out.append(("evaluation_date", swap(rebuild(c, evaluation_date=c.evaluation_date + far))))
    out.append(("period_end", swap(rebuild(c, period_end=c.period_end + ONE, evaluation_date=max(c.evaluation_date, c.period_end + ONE)))))
    out.append(("period_start", swap(rebuild(c, period_start=c.period_start - ONE))))
    if t.is_incremental:
        out.append(("prev_evaluation_date", swap(rebuild(c, prev_evaluation_date=c.prev_evaluation_date - ONE))))
    if c.values:
        k0 = r.choice(list(c.values))
        v = c.values[k0]
        if isinstance(v, np.ndarray):
            v2 = v.copy()
            v2[r.randrange(len(v2))] += 1
            out.append(("array-element", swap(rebuild(c, values={**c.values, k0: v2}))))
            out.append(("array-shape", swap(rebuild(c, values={**c.values, k0: np.append(v, v[-1])}))))
        elif v is not None:
            out.append(("value", swap(rebuild(c, values={**c.values, k0: v + 1}))))
            out.append(("scalar->1-array", swap(rebuild(c, values={**c.values, k0: np.array([v])}))))
            out.append(("scalar->constant-array", swap(rebuild(c, values={**c.values, k0: np.array([v, v, v])}))))
        if isinstance(v, np.ndarray) and len(v):
            out.append(("array->scalar", swap(rebuild(c, values={**c.values, k0: np.full(len(v), v[0])}))) if False else
                       ("array->first-element", swap(rebuild(c, values={**c.values, k0: v[0].item()}))))
            out.append(("array-dtype-and-value", swap(rebuild(c, values={**c.values, k0: v.astype(np.float64) + 0.5}))))
        # integers one apart that round to the SAME double (|v| >= 2**53): an equality that goes through float64 misses the edit
        for base in r.sample([2**53, -(2**53), 2**60, 2**62, -(2**62), 2**53 + 2 * r.randrange(1, 10**6)], 2):
            for nm, mk in (("int", int), ("np.int64", np.int64), ("int64-array", lambda x: np.array([x, 7, x], dtype=np.int64))):
                try:
                    ta = swap(rebuild(c, values={**c.values, k0: mk(base)}))
                    tb = swap(rebuild(c, values={**c.values, k0: mk(base + (1 if base > 0 else -1))}))
                    out.append((f"adjacent-big-integers {nm} {base}", ("pair", ta, tb)))
                except Exception:  # noqa: BLE001
                    pass
        out.append(("value->None", swap(rebuild(c, values={**c.values, k0: None if v is not None else 0}))))
        out.append(("field-name", swap(rebuild(c, values={(k + "_x" if k == k0 else k): w for k, w in c.values.items()}))))
        out.append(("field-dropped", swap(rebuild(c, values={k: w for k, w in c.values.items() if k != k0}))))
        out.append(("field-added", swap(rebuild(c, values={**c.values, "zz_extra": 0}))))
    # a key moved between details and loss_details, or a detail named like an attribute
    md = c.metadata
    kw0 = {x: getattr(md, x) for x in ATTRS}
    moved = []
    if md.details:
        k1 = next(iter(md.details))
        moved.append(("metadata.detail->loss_detail", {**kw0, "details": {k: v for k, v in md.details.items() if k != k1},
                                                        "loss_details": {**md.loss_details, k1: md.details[k1]}}))
    if md.loss_details:
        k1 = next(iter(md.loss_details))
        moved.append(("metadata.loss_detail->detail", {**kw0, "loss_details": {k: v for k, v in md.loss_details.items() if k != k1},
                                                        "details": {**md.details, k1: md.loss_details[k1]}}))
    if md.currency is not None and "currency" not in md.details:
        moved.append(("metadata.attribute->detail", {**kw0, "currency": None, "details": {**md.details, "currency": md.currency}}))
    # values whose CPython hashes collide: -1 / -2, 0 / 2**61-1 (an equality that goes through hash() misses these edits)
    for a_, b_ in ((-1, -2), (-1.0, -2.0), (0, 2**61 - 1)):
        moved.append((f"metadata.detail {a_}->{b_}", None))
        try:
            ma = Metadata(**{**kw0, "details": {**md.details, "hc": a_}, "loss_details": dict(md.loss_details)})
            mb = Metadata(**{**kw0, "details": {**md.details, "hc": b_}, "loss_details": dict(md.loss_details)})
            ta = Triangle([rebuild(x, metadata=ma) if x.metadata == md else x for x in cells])
            tb = Triangle([rebuild(x, metadata=mb) if x.metadata == md else x for x in cells])
            out.append((f"metadata.detail-hash-collision {a_}/{b_}", ("pair", ta, tb)))
        except Exception:  # noqa: BLE001
            pass
    moved = [m_ for m_ in moved if m_[1] is not None]
    for nm, kw in moved:
        try:
            m2 = Metadata(**kw)
            if m2 != md or True:
                out.append((nm, swap(rebuild(c, metadata=m2))))
        except Exception:  # noqa: BLE001
            pass
    for a in ATTRS:
        kw = {x: getattr(c.metadata, x) for x in ATTRS}
        kw = g.vary(kw, a, 1)
        try:
            m2 = Metadata(**kw)
        except Exception:  # noqa: BLE001
            continue
        if m2 != c.metadata:
            try:
                out.append((f"metadata.{a}", swap(rebuild(c, metadata=m2))))
            except Exception:  # noqa: BLE001 -- incomparable detail kinds: refusal, not our business
                pass
    return out


def set_ops(a, b):
    """impl results of the abc.Set protocol, canonicalised strictly"""
    return {
        "le": a <= b,
        "and": tuple(sorted(ct.canon_tri(a & b, ordered=False), key=repr)),
        "sub": tuple(sorted(ct.canon_tri(a - b, ordered=False), key=repr)),
        "disjoint": a.isdisjoint(b),
    }


def expected_set_ops(a, b):
    """independent oracle from cell equality only"""
    inb = lambda c: any(d == c for d in b.cells)  # noqa: E731
    ina = lambda c: any(d == c for d in a.cells)  # noqa: E731
    return {
        "le": len(a) <= len(b) and all(inb(c) for c in a.cells),
        "and": tuple(sorted((ct.canon_cell(c) for c in b.cells if ina(c)), key=repr)),
        "sub": tuple(sorted((ct.canon_cell(c) for c in a.cells if not inb(c)), key=repr)),
        "disjoint": not any(inb(c) for c in a.cells),
    }


def run(ctx):
    from bermuda import Metadata, Triangle

    ctx.rule = ("pairs (t, variant): permuted / generator-built / re-typed (Cell<->CumulativeCell) / re-formatted "
                "(int<->float, dict order) / binary- and JSON-round-tripped copies (must be ==, equal hashes); proper "
                "prefixes, one-cell extension and every single edit (dates, prev, value, array element/shape, field "
                "name/added/dropped, each metadata attribute) (must be !=); exhaustive pairs and triples of "
                "sub-triangles of a 5-cell universe for ==, <=, &, -, isdisjoint. Non-trivial = distinct pair with >= 2 cells.")
    ctx.assumptions += [
        "translate/t_order.py reads __eq__/__hash__/values_eq/Triangle.__eq__ from the AST faithfully",
        "Python: x == y implies hash(x) == hash(y) for int/float/bool/str/date/None/tuple/frozenset; np.array_equal = "
        "equal shape and numerically equal elements; abc.Set mixins as documented",
    ]
    ok, feats = translate_and_prove(ctx, "C02_gen.v", "Props/C02.v")
    g = Gen(random.Random(ctx.seed * 7000003 + 2))
    n_tri = 70 if ctx.quick else 700
    cases = []   # (coq A, coq B, impl_eq) for model correspondence
    fails = []
    for _ in range(n_tri):
        t, info = g.triangle(n_periods=g.r.randint(1, 3), n_lags=g.r.randint(1, 3), same_fields=g.r.random() < 0.7)
        if len(t) == 0 or len(t) > 14:
            continue
        ctx.hist("basis:" + info["basis"])
        ctx.hist("values:" + info["values"])
        pairs = []
        for n, v in equal_variants(g, t):
            if isinstance(v, tuple) and v and v[0] == "pair":
                pairs.append((n, v[1], v[2], True))
            else:
                pairs.append((n, t, v, True))
        for n, v in edited_variants(g, t):
            if isinstance(v, tuple) and v and v[0] == "pair":
                pairs.append((n, v[1], v[2], False))
            else:
                pairs.append((n, t, v, False))
        for dn, base, is_edit in derived_bases(g, t):
            pairs.append((dn, t, base, not is_edit))
            pairs += [(n, base, v, True) for n, v in serial_variants(base, tag="(" + dn + ")")]
        t_gen = t
        for name, t, v, want in pairs:
            ctx.hist("variant:" + name.split("[")[0])
            try:
                got, got_r = (t == v), (v == t)
            except Exception as ex:  # noqa: BLE001
                fails.append((f"== raised {type(ex).__name__} on {name}", t, v))
                continue
            ctx.count(evaluations=1, traces=1)
            if len(t) >= 2:
                ctx.nontriv((ct.canon_tri(t), name, ct.canon_tri(v)))
            if got != want or got_r != want:
                fails.append((f"{name}: t == variant is {got}/{got_r}, must be {want}", t, v))
                continue
            if want:
                try:
                    if hash(t) != hash(t) or hash(v) != hash(Triangle(list(v.cells))):
                        fails.append((f"{name}: hash is not a function of the contents", t, v))
                    if hash(t) != hash(v) or any(hash(a) != hash(b) for a, b in zip(t.cells, v.cells)) \
                            or any(hash(a.metadata) != hash(b.metadata) for a, b in zip(t.cells, v.cells)):
                        fails.append((f"{name}: equal but hashes differ", t, v))
                    if len({*t.cells, *v.cells}) != len(t):
                        fails.append((f"{name}: equal cells are distinct set members", t, v))
                except TypeError as ex:
                    fails.append((f"{name}: hash raised {ex}", t, v))
                if not all(c in t for c in v.cells) or not (t <= v and v <= t):
                    fails.append((f"{name}: membership / <= disagree with ==", t, v))
            try:
                if len(cases) < (400 if ctx.quick else 3000):
                    cases.append((ct.ccells(t.cells), ct.ccells(v.cells), got, name))
            except ct.NotRepresentable:
                pass
        if len(fails) > 8:
            break
    # ---- large triangles (hundreds of cells, long sample arrays): size-triggered fast paths, chunked comparisons,
    # sampled hashes only engage here.  Equal copies must be equal; ONE edit anywhere (first / middle / last cell,
    # first / middle / last sample of a long array) must be detected.
    for i in range(4 if ctx.quick else 24):
        t, info = g.triangle(n_slices=g.r.randint(2, 4), n_periods=g.r.randint(8, 12), n_lags=g.r.randint(8, 12),
                             values=g.r.choice(["int", "arr_float"]), n_samples=g.r.choice([3, 257, 1200]), layout="regular")
        cells = list(t.cells)
        want = [300, 1100, 2100, 3100][i % 4]
        if len(cells) < want:
            # grow to the wanted size with further slices (copies of the cells under distinct details)
            extra, k = [], 0
            while len(cells) + len(extra) < want:
                k += 1
                for c in cells:
                    m = c.metadata
                    extra.append(rebuild(c, metadata=Metadata(**{**{x: getattr(m, x) for x in ATTRS}, "details": {**m.details, "copy": k},
                                                                 "loss_details": dict(m.loss_details)})))
            t = Triangle(cells + extra)
            cells = list(t.cells)
        if len(cells) < 100:
            continue
        ctx.hist("large:%d+ cells" % (100 * (len(cells) // 100)))
        perm = cells[:]
        g.r.shuffle(perm)
        eqs = [("large-permuted", Triangle(perm)), ("large-rebuilt", Triangle([rebuild(c) for c in cells]))] + serial_variants(t, "(large)")
        for name, v in eqs:
            ctx.count(evaluations=1, traces=1)
            if not (t == v and v == t) or hash(t) != hash(v):
                fails.append((f"{name}: equal copy of a {len(cells)}-cell triangle is unequal or hashes differently", t, v))
        # membership and the Set operators on a large triangle that also holds a restated cell
        c0 = cells[g.r.randrange(len(cells))]
        tr = Triangle(cells + [rebuild(c0, values={k: (v + 1 if isinstance(v, (int, float)) and not isinstance(v, bool) else v)
                                                    for k, v in c0.values.items()})])
        ctx.count(evaluations=len(tr), traces=1)
        miss = [c for c in tr.cells if c not in tr]
        if miss or not (tr <= tr) or len(tr - tr) != 0 or len(tr & tr) != len(tr):
            fails.append((f"large: {len(miss)} of {len(tr)} own cells are reported as not `in` the triangle / t <= t, t - t, t & t wrong "
                          f"(triangle with one restated cell)", tr, tr))
        # long integer sample arrays of large magnitude against their float copies: equal, so equal hashes
        big = np.array([g.r.randrange(10**12, 4 * 10**12) | 1 for _ in range(g.r.choice([10000, 50000]))], dtype=np.int64)
        ca = rebuild(cells[0], values={"paid_loss": big})
        cb = rebuild(cells[0], values={"paid_loss": big.astype(np.float64)})
        ctx.count(evaluations=1, traces=1)
        if not (ca == cb) or hash(ca) != hash(cb) or hash(Triangle([ca])) != hash(Triangle([cb])):
            fails.append(("large: 10000 int64 samples of magnitude 3e12 vs their float64 copy: equal but hashes differ (or unequal)",
                          Triangle([ca]), Triangle([cb])))
        for pos in (0, len(cells) // 2, len(cells) - 1, g.r.randrange(len(cells))):
            c = cells[pos]
            k0 = next(iter(c.values))
            v0 = c.values[k0]
            if isinstance(v0, np.ndarray):
                for j in (0, len(v0) // 2, len(v0) - 1):
                    v2 = v0.copy()
                    v2[j] += 1
                    tv = Triangle(cells[:pos] + [rebuild(c, values={**c.values, k0: v2})] + cells[pos + 1:])
                    ctx.count(evaluations=1, traces=1)
                    if t == tv or tv == t:
                        fails.append((f"large: edit of sample {j} of {len(v0)} in cell {pos} of {len(cells)} not detected by ==", t, tv))
            elif v0 is not None:
                tv = Triangle(cells[:pos] + [rebuild(c, values={**c.values, k0: v0 + 1})] + cells[pos + 1:])
                ctx.count(evaluations=1, traces=1)
                if t == tv or tv == t:
                    fails.append((f"large: edit of cell {pos} of {len(cells)} not detected by ==", t, tv))
            tv = Triangle(cells[:pos] + cells[pos + 1:])
            if t == tv or tv == t or (tv <= t) is not True or (t <= tv) is not False:
                fails.append((f"large: dropping cell {pos} of {len(cells)}: ==/<= wrong", t, tv))
    # ---- operands produced by OTHER public operations (round 8, composition): a TriangleSlice (triangle_to_slice,
    # ts[a:b]) or a derived Triangle holding the same cells is the same set of cells, so ==, hash, <=, &, - must all say so
    from bermuda import TriangleSlice
    from bermuda.utils import slice_to_triangle, triangle_to_slice

    for i in range(12 if ctx.quick else 120):
        t, info = g.triangle(n_slices=1, basis=g.r.choice(["cum", "inc"]), n_periods=g.r.randint(1, 4), n_lags=g.r.randint(1, 4))
        cells = list(t.cells)
        k = g.r.randint(0, len(cells))
        derived = [("triangle_to_slice(t)", t, triangle_to_slice(t)), ("TriangleSlice(cells)[:]", t, TriangleSlice(cells)[:]),
                   (f"TriangleSlice(cells)[:{k}]", Triangle(cells[:k]), TriangleSlice(cells)[:k]),
                   ("slice_to_triangle(triangle_to_slice(t))", t, slice_to_triangle(triangle_to_slice(t))),
                   ("t.filter(always)", t, t.filter(lambda c: True)), ("t + Triangle([])", t, t + Triangle([])),
                   ("t.select(all fields)", t, t.select(list(t.fields))), ("t.slices first value", t, next(iter(t.slices.values()))),
                   ("t[0:len]", t, t[0:len(t)]), ("t.replace()", t, t.replace())]
        for name, a, b in derived:
            ctx.count(evaluations=1, traces=1)
            ctx.hist("derived-operand:" + type(b).__name__)
            try:
                bad = []
                if not (a == b and b == a) or (a != b) or (b != a):
                    bad.append("== / != say the operands differ")
                if hash(a) != hash(b):
                    bad.append("hashes differ")
                if set_ops(a, b) != expected_set_ops(a, b) or set_ops(b, a) != expected_set_ops(b, a):
                    bad.append("set operations disagree with cell ==")
                if len(a) and ((a & b) != a or len(a - b) != 0 or not (a <= b and b <= a)):
                    bad.append("&, -, <= disagree with ==")
            except Exception as ex:  # noqa: BLE001
                bad = [f"comparison raised {type(ex).__name__}: {ex}"]
            if bad:
                fails.append((f"derived operand {name} (same cells, {type(b).__name__} vs {type(a).__name__}): {'; '.join(bad)}", a, b))
    # ---- exhaustive small universe: ==, <=, &, -, isdisjoint on all pairs; transitivity on all triples
    uni_fail = []
    n_uni = 4 if ctx.quick else 12
    set_cases = []
    for u in range(n_uni):
        basis = "inc" if u % 2 else "cum"
        diff = ["per_occurrence_limit", "loss_details", "country", None][u % 4]
        cells, info = g.cells(layout="regular", basis=basis, n_slices=2, n_periods=2, n_lags=2,
                              values=g.r.choice(["int", "float", "arr_int"]), slice_diff=diff)
        if diff == "per_occurrence_limit":
            # one unlimited slice next to a limited one (None sorts after every number)
            from bermuda import Metadata
            import dataclasses

            m0 = cells[0].metadata
            for k, c in enumerate(cells):
                lim = None if c.metadata == m0 else 1000
                cells[k] = rebuild(c, metadata=dataclasses.replace(c.metadata, per_occurrence_limit=lim))
        # take cells of BOTH slices
        cells = cells[:3] + cells[-2:]
        subs = [Triangle([c for k, c in enumerate(cells) if m >> k & 1]) for m in range(32)]
        # second universe: equal but re-typed / re-formatted copies
        alt = [rebuild(c, values={k: (float(v) if isinstance(v, int) else v) for k, v in c.values.items()}) for c in cells]
        subs2 = [Triangle([c for k, c in enumerate(alt) if m >> k & 1]) for m in range(32)]
        eqm = [[subs[i] == subs2[j] for j in range(32)] for i in range(32)]
        for i in range(32):
            for j in range(32):
                ctx.count(evaluations=1)
                want_eq = i == j
                if eqm[i][j] != want_eq:
                    uni_fail.append((f"sub-triangles {i:05b} == {j:05b} is {eqm[i][j]}", subs[i], subs2[j]))
                got, want = set_ops(subs[i], subs2[j]), expected_set_ops(subs[i], subs2[j])
                if got != want:
                    bad = [k for k in got if got[k] != want[k]]
                    uni_fail.append((f"set operation(s) {bad} on sub-triangles {i:05b}, {j:05b} disagree with cell ==", subs[i], subs2[j]))
                if want_eq and i and hash(subs[i]) != hash(subs2[j]):
                    uni_fail.append((f"equal sub-triangles {i:05b} hash differently", subs[i], subs2[j]))
        for i, j, k in itertools.product(range(32), repeat=3):
            if eqm[i][j] and eqm[j][k] and not eqm[i][k]:
                uni_fail.append(("== not transitive", subs[i], subs2[k]))
                break
        ctx.exhaustive = True
        ctx.hist("universe:" + basis)
        try:
            set_cases.append((ct.ccells(Triangle(cells).cells), ct.ccells(Triangle(alt).cells),
                              [[(eqm[i][j], subs[i] <= subs2[j]) for j in range(32)] for i in range(32)]))
        except ct.NotRepresentable:
            pass
        if uni_fail:
            break
    # ---- model vs implementation in Coq
    mism = []
    files = []
    per = 60
    hdr = ct.COQ_HEADER + "From Bermuda Require Import Model.Order Model.Eq.\n"
    for k in range(0, len(cases), per):
        chunk = cases[k:k + per]
        body = ";\n".join(f"Bool.eqb (tri_pyeq {a} {b}) {str(e).lower()}" for a, b, e, _ in chunk)
        f = ctx.build / f"cases_{k // per}.v"
        f.write_text(hdr + "Definition cases : list bool := [\n" + body + "].\nEval vm_compute in failing cases.\n")
        files.append((f, [c[3] for c in chunk]))
    for n, (ua, ub, mat) in enumerate(set_cases):
        rows = ";\n".join("[" + ";".join(f"({str(e).lower()},{str(l).lower()})" for e, l in row) + "]" for row in mat)
        f = ctx.build / f"universe_{n}.v"
        f.write_text(hdr + f"""Definition U : list cell := {ua}.\nDefinition U2 : list cell := {ub}.
Fixpoint pick (m : nat) (k : nat) (l : list cell) : list cell :=
  match l with [] => [] | c :: r => (if Nat.testbit m k then [c] else []) ++ pick m (S k) r end.
Definition impl : list (list (bool * bool)) := [\n{rows}].
Definition row_ok (i : nat) (row : list (bool * bool)) : list bool :=
  map (fun '(j, (e, l)) => Bool.eqb (tri_pyeq (pick i 0 U) (pick j 0 U2)) e && Bool.eqb (tri_le (pick i 0 U) (pick j 0 U2)) l)
      (combine (seq 0 32) row).
Eval vm_compute in failing (concat (map (fun '(i, row) => row_ok i row) (combine (seq 0 32) impl))).
""")
        files.append((f, [f"universe pair {i}" for i in range(1024)]))
    res = ctx.coqc_many([f for f, _ in files], jobs=16, timeout=900)
    for f, names in files:
        rc, out = res[f]
        vals = parse_coq_eval(out)
        if rc != 0 or not vals:
            mism.append(("coqc-failed", f.name, out[-500:]))
            continue
        idx = [int(x) for x in vals[-1].strip("[]").replace("%nat", "").split(";") if x.strip()]
        for i in idx:
            mism.append(("model!=impl", f.name, names[i] if i < len(names) else i))
    ctx.obligation("correspondence: tri_pyeq / tri_le model = implementation == / <=", not mism, repr(mism[:3]))
    for s in cases[:2]:
        ctx.sample({"variant": s[3], "impl_eq": s[2], "A_coq": s[0][:300]})
    for what, a, b in (fails + uni_fail)[:4]:
        ctx.violation("impl-violation", what,
                      {"kind": "pair", "what_failed": what, "a": [ct.cell_to_obj(c) for c in a.cells],
                       "b": [ct.cell_to_obj(c) for c in b.cells], "a_class": type(a).__name__, "b_class": type(b).__name__},
                      found_input=True)
    if mism and not ctx.violations:
        ctx.violation("correspondence", "model and implementation disagree on == / <=",
                      {"mismatches": [repr(m) for m in mism[:5]]}, found_input=False)


def replay(ctx, data):
    from bermuda import Triangle

    import bermuda

    a = getattr(bermuda, data.get("a_class", "Triangle"))([ct.cell_from_obj(o) for o in data["a"]])
    b = getattr(bermuda, data.get("b_class", "Triangle"))([ct.cell_from_obj(o) for o in data["b"]])
    strict = ct.canon_tri(a) == ct.canon_tri(b)
    print("what failed when recorded:", data.get("what_failed"))
    print("a == b:", a == b, " b == a:", b == a, " len:", len(a), len(b), " strictly identical:", strict)
    try:
        print("hash equal:", hash(a) == hash(b))
    except TypeError as ex:
        print("hash raised", ex)
    print("set ops impl:", {k: (v if isinstance(v, bool) else len(v)) for k, v in set_ops(a, b).items()},
          "expected:", {k: (v if isinstance(v, bool) else len(v)) for k, v in expected_set_ops(a, b).items()})
    bad = set_ops(a, b) != expected_set_ops(a, b)
    if strict and not (a == b and b == a):
        bad = True
    if len(a) != len(b) and a == b:
        bad = True
    if a == b:
        try:
            bad = bad or hash(a) != hash(b)
        except TypeError:
            bad = True
    return 1 if bad else 0
