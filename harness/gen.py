"""Structured generator of valid bermuda triangles (and a malformed stream) from one PRNG.

    g = Gen(random.Random(seed))
    t = g.triangle()                          # random everything
    t = g.triangle(layout="ragged", basis="inc", n_slices=3, values="arr_int", slice_diff="loss_details")

Layouts: regular (complete rectangle), ragged (upper-left triangle, each period observed up to a
common evaluation date), holey (regular minus random cells), irregular (period lengths vary),
single_period, single_lag, daily (day-level periods).  All month-aligned unless `daily`.
Values are ints or dyadic floats (multiples of 1/1024, |x| < 2^20) so that +,- are exact.
"""
from __future__ import annotations

import calendar
import datetime
import random

import numpy as np

from bermuda import Cell, CumulativeCell, IncrementalCell, Metadata, Triangle

D = datetime.date
FIELDS = ["paid_loss", "reported_loss", "earned_premium", "incurred_loss", "reported_claims", "written_premium"]
STR_POOL = ["US", "DE", "Gross", "Net", "Loss", "Loss+DCC", "USD", "EUR", "Accident", "Policy", "Ünï", "a", "b", "A", ""]
LAYOUTS = ["regular", "ragged", "holey", "irregular", "single_period", "single_lag", "daily"]
ATTRS = ["risk_basis", "country", "currency", "reinsurance_basis", "loss_definition",
         "per_occurrence_limit", "details", "loss_details"]


def month_end(y, m):
    return D(y, m, calendar.monthrange(y, m)[1])


def add_m(y, m, k):
    i = y * 12 + (m - 1) + k
    return i // 12, i % 12 + 1


class Gen:
    def __init__(self, rng: random.Random):
        self.r = rng

    # ------------------------------------------------------------------ numbers
    def num(self, kind="int", lo=0, hi=5000):
        if kind == "int":
            return self.r.randint(lo, hi)
        return self.r.randint(lo * 8, hi * 8) / 8.0  # dyadic float

    def value(self, kind, n_samples=4):
        k = kind
        if kind == "mixed":
            k = self.r.choice(["int", "float", "arr_int", "arr_float"])
        if k == "int":
            return self.num("int")
        if k == "float":
            return self.num("float")
        if k == "arr_int":
            return np.array([self.num("int") for _ in range(n_samples)], dtype=np.int64)
        if k == "arr_float":
            return np.array([self.num("float") for _ in range(n_samples)], dtype=np.float64)
        raise ValueError(kind)

    # ------------------------------------------------------------------ metadata
    def base_meta_kwargs(self):
        r = self.r
        kw = {}
        if r.random() < 0.5:
            kw["risk_basis"] = r.choice(["Accident", "Policy"])
        if r.random() < 0.4:
            kw["country"] = r.choice(["US", "DE", "Ünï"])
        if r.random() < 0.4:
            kw["currency"] = r.choice(["USD", "EUR"])
        if r.random() < 0.3:
            kw["reinsurance_basis"] = r.choice(["Gross", "Net"])
        if r.random() < 0.3:
            kw["loss_definition"] = r.choice(["Loss", "Loss+DCC"])
        if r.random() < 0.3:
            kw["per_occurrence_limit"] = r.choice([1000, 250000.0, 5, 0.5])
        if r.random() < 0.5:
            kw["details"] = {k: self.detail_value(k) for k in r.sample(["lob", "state", "n", "flag"], r.randint(1, 3))}
        if r.random() < 0.3:
            kw["loss_details"] = {k: self.detail_value(k) for k in r.sample(["cov", "peril", "layer"], r.randint(1, 2))}
        return kw

    def detail_value(self, key):
        # type-consistent per key (mixed types per key make metadata incomparable -> TriangleError)
        r = self.r
        if key in ("lob", "state", "cov", "peril"):
            return r.choice(["auto", "home", "NY", "CA", "Ünï", "x"])
        if key in ("n", "layer"):
            return r.choice([1, 2, 3, 10])
        if key == "flag":
            return r.choice([True, False])
        return r.choice(["p", "q"])

    def vary(self, kw: dict, attr: str, i: int) -> dict:
        """i-th variant (i>=1) of metadata kwargs differing from kw exactly in `attr`."""
        kw = {k: (dict(v) if isinstance(v, dict) else v) for k, v in kw.items()}
        if attr == "per_occurrence_limit":
            kw[attr] = [1000, 2000, 2500.5, 9][i % 4] + (kw.get(attr) or 0)
        elif attr in ("details", "loss_details"):
            d = dict(kw.get(attr) or {})
            key = "cov" if attr == "loss_details" else "lob"
            d[key] = ["auto", "home", "x", "y"][i % 4] + ("" if d.get(key) is None else "_")
            kw[attr] = d
        else:
            kw[attr] = ["V1", "V2", "V3", "V4"][i % 4]
        return kw

    def metas(self, n_slices, slice_diff=None):
        base = self.base_meta_kwargs()
        out = [base]
        if slice_diff is None:
            slice_diff = self.r.choice(ATTRS + ["several"])
        for i in range(1, n_slices):
            if slice_diff == "several":
                kw = base
                for a in self.r.sample(ATTRS, self.r.randint(2, 4)):
                    kw = self.vary(kw, a, i)
            else:
                kw = self.vary(base, slice_diff, i)
            out.append(kw)
        ms = []
        for kw in out:
            m = Metadata(**kw)
            if m not in ms:
                ms.append(m)
        return ms, slice_diff

    # ------------------------------------------------------------------ coordinates
    def coords(self, layout, res=None, n_periods=None, n_lags=None):
        """list of (period_start, period_end, [evaluation dates])"""
        r = self.r
        res = res or r.choice([1, 3, 6, 12])
        n_periods = n_periods or r.randint(1, 5)
        n_lags = n_lags or r.randint(1, 5)
        y0, m0 = r.randint(1995, 2030), r.choice([1, 4, 7, 10]) if res != 1 else r.randint(1, 12)
        rows = []
        if layout == "daily":
            start = D(y0, m0, r.randint(1, 28))
            plen = r.choice([1, 7, 10])
            step = r.choice([1, 7, 30])
            for p in range(n_periods):
                ps = start + datetime.timedelta(days=p * plen)
                pe = ps + datetime.timedelta(days=plen - 1)
                evs = [pe + datetime.timedelta(days=k * step) for k in range(n_lags)]
                rows.append((ps, pe, evs))
            return rows, res
        if layout == "single_period":
            n_periods = 1
        if layout == "single_lag":
            n_lags = 1
        lens = [res] * n_periods
        if layout == "irregular":
            lens = [r.choice([1, 3, 6, 12]) for _ in range(n_periods)]
        cur = (y0, m0)
        ev_res = r.choice([res, res, 1, 3]) if layout != "regular" else res
        for p in range(n_periods):
            ps = D(cur[0], cur[1], 1)
            ey, em = add_m(cur[0], cur[1], lens[p] - 1)
            pe = month_end(ey, em)
            gap = 0
            if layout in ("irregular", "holey") and r.random() < 0.25:
                gap = r.choice([1, 3])
            cur = add_m(ey, em, 1 + gap)
            evs = [month_end(*add_m(ey, em, k * ev_res)) for k in range(n_lags)]
            rows.append((ps, pe, evs))
        if layout == "ragged":
            last = rows[-1][2][0] if len(rows[-1][2]) else None
            cutoff = max(e for _, _, evs in rows for e in evs[:1])
            cutoff = max(cutoff, rows[0][2][-1]) if r.random() < 0.5 else cutoff
            rows = [(a, b, [e for e in evs if e <= cutoff] or evs[:1]) for a, b, evs in rows]
        if layout == "holey":
            rows2 = []
            for a, b, evs in rows:
                keep = [e for e in evs if r.random() < 0.7] or evs[:1]
                rows2.append((a, b, keep))
            rows = rows2
        return rows, res

    # ------------------------------------------------------------------ triangles
    def cells(self, layout=None, basis=None, n_slices=None, values=None, fields=None, slice_diff=None,
              res=None, n_periods=None, n_lags=None, cls=None, n_samples=None, same_fields=True):
        r = self.r
        layout = layout or r.choice(LAYOUTS)
        basis = basis or r.choice(["cum", "cum", "inc"])
        n_slices = n_slices or r.choice([1, 1, 2, 3, 4])
        values = values or r.choice(["int", "int", "float", "arr_int", "arr_float", "mixed"])
        fields = fields or r.sample(FIELDS, r.randint(1, 4))
        n_samples = n_samples or r.choice([2, 3, 5])
        ms, slice_diff = self.metas(n_slices, slice_diff)
        cells = []
        info = {"layout": layout, "basis": basis, "n_slices": len(ms), "values": values,
                "slice_diff": slice_diff, "fields": list(fields)}
        for m in ms:
            rows, res_used = self.coords(layout, res, n_periods, n_lags) if not cells or r.random() < 0.15 else (rows, res_used)  # noqa: F821
            fkinds = {f: (values if values != "mixed" else r.choice(["int", "float", "arr_int", "arr_float"])) for f in fields}
            for ps, pe, evs in rows:
                row_fields = fields if same_fields or r.random() < 0.7 else r.sample(fields, r.randint(1, len(fields)))
                prev = ps - datetime.timedelta(days=1)
                for e in evs:
                    vals = {f: self.value(fkinds[f], n_samples) for f in row_fields}
                    if basis == "inc":
                        cells.append(IncrementalCell(period_start=ps, period_end=pe, prev_evaluation_date=prev,
                                                     evaluation_date=e, values=vals, metadata=m))
                        prev = e
                    else:
                        k = cls or CumulativeCell
                        cells.append(k(period_start=ps, period_end=pe, evaluation_date=e, values=vals, metadata=m))
        info["n_cells"] = len(cells)
        return cells, info

    def triangle(self, **kw):
        cells, info = self.cells(**kw)
        self.r.shuffle(cells)
        return Triangle(cells), info


def describe(info: dict) -> str:
    return "/".join(str(info[k]) for k in ("layout", "basis", "n_slices", "values", "slice_diff"))
