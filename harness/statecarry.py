"""Sequence oracles for state carried from one public call to the next (round 8, kinds K5/K6).

Every property is stated for every call, whatever was called before it in the same process.  A default
evaluated once (mutable default argument, module-level table merged in place, a scratch buffer that is
only rewound on success) makes a call correct in isolation and wrong after a particular earlier call.
Each oracle here runs such a sequence on the implementation:

    reference result of the observed call  ->  interfering call(s) (non-default arguments, or a call that is
    refused midway)  ->  the observed call again: same strict result, and still what the property demands

and returns a list of failure strings (empty = fine).  They are pure functions of the implementation
(no generated input), so a violation is replayed by running the same oracle again
(`{"op": "state-carry", "name": <oracle>}`; see `replay`).
"""
import datetime
import io
import os
import tempfile
from pathlib import Path

import numpy as np

D = datetime.date


def _canon(cells):
    from harness.coqterm import canon_tri

    return canon_tri(list(cells), ordered=True)


def _run(thunk):
    try:
        return "ok", thunk()
    except Exception as ex:  # noqa: BLE001
        return "err", ex


def _mend(y, m):
    return (D(y + (m == 12), m % 12 + 1, 1) - datetime.timedelta(days=1))


def _two_slice_monthly(fields=("paid_loss", "reported_claims"), extra=None):
    from bermuda import CumulativeCell, Metadata, Triangle

    cells = []
    for si, country in enumerate(("DE", "US")):
        for m in range(1, 7):
            for ei, e in enumerate((_mend(2021, 6), _mend(2021, 12))):
                vals = {f: 10 * (si + 1) * m + ei + fi for fi, f in enumerate(fields)}
                if extra:
                    vals.update(extra)
                cells.append(CumulativeCell(D(2021, m, 1), _mend(2021, m), e, vals, Metadata(country=country)))
    return Triangle(cells)


# ------------------------------------------------------------------------------------------ summarize / aggregate
def summary_fns_then_defaults():
    """summarize(..., summary_fns=<override of an additive default + a new field>) must not change what later
    default calls of summarize / aggregate do (C08, C09): sums are sums again, an unknown field is refused again."""
    from bermuda.errors import TriangleError

    fails = []
    t = _two_slice_monthly()
    t_custom = _two_slice_monthly(extra={"custom_field_r8": 3})
    agg = dict(period_resolution=(1, "quarter"))
    st0, s0 = _run(lambda: t.summarize())
    sta0, a0 = _run(lambda: t.aggregate(**agg))
    stc0, c0 = _run(lambda: t_custom.summarize())
    if st0 != "ok" or sta0 != "ok":
        return [f"reference summarize/aggregate raised {s0 if st0 != 'ok' else a0!r}"]
    if not (stc0 == "err" and isinstance(c0, TriangleError)):
        fails.append("a field without an aggregation rule was not refused with TriangleError (before any custom call)")
    # the documented totals of the reference results themselves
    for c in s0.cells:
        exp = sum(x["paid_loss"] for x in t.cells if (x.period, x.evaluation_date) == (c.period, c.evaluation_date))
        if c["paid_loss"] != exp:
            fails.append(f"default summarize: paid_loss {c['paid_loss']} != sum over slices {exp}")
            break
    rules = {
        "paid_loss": lambda vd: max(vd["paid_loss"]),
        "reported_claims": lambda vd: max(vd["reported_claims"]),
        "PAID_LOSS": lambda vd: -1,
        "custom_field_r8": lambda vd: vd["custom_field_r8"][0],
    }
    for tri in (t_custom, t):
        _run(lambda tri=tri: tri.summarize(summary_fns=dict(rules)))
    _run(lambda: t_custom.summarize(summary_fns={"custom_field_r8": lambda vd: 1 / 0}))     # a rule that raises midway
    st1, s1 = _run(lambda: t.summarize())
    sta1, a1 = _run(lambda: t.aggregate(**agg))
    stc1, c1 = _run(lambda: t_custom.summarize())
    if st1 != "ok" or _canon(s1.cells) != _canon(s0.cells):
        fails.append("summarize() with default rules gives a different result after an earlier call with summary_fns "
                     f"(paid_loss of the first cell {s0.cells[0]['paid_loss']} -> "
                     f"{s1.cells[0]['paid_loss'] if st1 == 'ok' else repr(s1)})")
    if sta1 != "ok" or _canon(a1.cells) != _canon(a0.cells):
        fails.append("aggregate() gives a different result after an earlier summarize(summary_fns=...) call "
                     f"(first cell {dict(a0.cells[0].values)} -> {dict(a1.cells[0].values) if sta1 == 'ok' else repr(a1)})")
    if not (stc1 == "err" and isinstance(c1, TriangleError)):
        fails.append("a field without an aggregation rule is accepted by default summarize() after an earlier call that "
                     "supplied a rule for it via summary_fns")
    return fails


ORACLES = {
    "summary_fns_then_defaults": (summary_fns_then_defaults, ("C08", "C09")),
}

# ------------------------------------------------------------------------------------------ extension operators
def _gappy(premium=True, country=None):
    """quarterly periods observed from different first lags, one gap, one slice"""
    from bermuda import CumulativeCell, Metadata, Triangle

    cells = []
    for q, first in ((1, 2), (2, 1), (3, 0)):
        ps, pe = D(2020, 3 * q - 2, 1), _mend(2020, 3 * q)
        for k in range(first, 5):
            if q == 1 and k == 3:
                continue
            mm = 3 * q + 3 * k
            e = _mend(2020 + (mm - 1) // 12, (mm - 1) % 12 + 1)
            vals = {"paid_loss": 100 * q + k, "reported_claims": q + k}
            if premium:
                vals["earned_premium"] = 1000 * q
            cells.append(CumulativeCell(ps, pe, e, vals, Metadata(country=country)))
    return Triangle(cells)


def extension_ops_after_other_calls():
    """make_right_triangle / make_right_diagonal / fill_forward_gaps / backfill with DEFAULT arguments give the same
    result before and after calls with other arguments (explicit lists, a triangle without the default static field:
    refused with KeyError, fill_with_none, other resolutions) - C15: backfilled cells carry the period's static fields."""
    from bermuda.utils import backfill, fill_forward_gaps, make_right_diagonal, make_right_triangle

    t, t_np = _gappy(True), _gappy(False, country="US")
    diag = [_mend(2021, 12), _mend(2022, 3)]
    observed = {
        "backfill(t)": lambda: backfill(t),
        "backfill(t, min_dev_lag=3)": lambda: backfill(t, min_dev_lag=3),
        "fill_forward_gaps(t)": lambda: fill_forward_gaps(t),
        "make_right_triangle(t)": lambda: make_right_triangle(t),
        "make_right_diagonal(t, dates)": lambda: make_right_diagonal(t, list(diag)),
    }
    ref = {k: _run(f) for k, f in observed.items()}
    fails = []
    for k, (st, r) in ref.items():
        if st != "ok":
            fails.append(f"{k} raised {r!r} on a plain gappy triangle")
    if fails:
        return fails
    # what C15 says about the reference backfill itself
    for c in ref["backfill(t)"][1].cells:
        if c not in t.cells and (c["earned_premium"] != 1000 * ((c.period_start.month + 2) // 3) or c["paid_loss"] != 0):
            fails.append(f"backfilled cell {c.period_start} @ {c.evaluation_date} holds {dict(c.values)}: "
                         "must be zeros plus the period's static earned_premium")
            break
    sf = ["earned_premium", "reported_claims"]
    lags = [24.0, 36.0]
    interfering = [
        lambda: backfill(t_np),                                  # refused: no earned_premium
        lambda: backfill(t_np, static_fields=[]),
        lambda: backfill(t, static_fields=sf, eval_resolution=3, min_dev_lag=-2),
        lambda: fill_forward_gaps(t, eval_resolution=1, fill_with_none=True),
        lambda: fill_forward_gaps(t_np, fill_with_none=True),
        lambda: make_right_triangle(t, dev_lags=lags),
        lambda: make_right_triangle(t_np, dev_lags=[0.0, 400.0], dev_lag_unit="day"),
        lambda: make_right_diagonal(t, diag, include_historic=True),
        lambda: make_right_diagonal(t_np, [D(2019, 1, 31)]),
    ]
    for f in interfering:
        _run(f)
    if sf != ["earned_premium", "reported_claims"] or lags != [24.0, 36.0] or diag != [_mend(2021, 12), _mend(2022, 3)]:
        fails.append(f"a list passed as an argument was modified by the call: {sf} {lags} {diag}")
    for k, f in observed.items():
        st, r = _run(f)
        if st != "ok" or _canon(r.cells) != _canon(ref[k][1].cells):
            what = repr(r) if st != "ok" else next((f"{c.period_start} @ {c.evaluation_date}: {dict(c.values)}" for c, c0 in
                                                    zip(r.cells, ref[k][1].cells) if _canon([c]) != _canon([c0])), f"{len(r)} cells")
            fails.append(f"{k} gives a different result after earlier calls with other arguments ({what})")
    return fails


# ------------------------------------------------------------------------------------------ binary writer / reader
def _tri_for_binary(country, n=3, premium=7.5):
    from bermuda import CumulativeCell, Metadata, Triangle

    md = Metadata(country=country, currency="EUR", details={"lob": "motor"}) if country else Metadata()
    return Triangle([CumulativeCell(D(2020, 1, 1), _mend(2020, 12), _mend(2020 + k, 12),
                                    {"paid_loss": 10 * k + 1, "earned_premium": premium, "s": np.array([1.5, k, 3.0])}, md)
                     for k in range(n)])


def binary_writes_in_sequence():
    """to_binary / from_binary in one process: every file is the same bytes as when the triangle is written first in
    a fresh state, and reads back strictly identical - after a write that was refused midway (unsupported dtype),
    after a write of a triangle whose LAST metadata equals the next triangle's FIRST metadata, after a read that
    failed on a torn file, for .trib and .tribc (C05, C06, C19)."""
    from bermuda import CumulativeCell, Metadata, Triangle

    fails = []
    a, b = _tri_for_binary("DE"), _tri_for_binary("DE", n=2, premium=8.5)
    two = Triangle(list(_tri_for_binary("AT").cells) + list(a.cells))            # last slice = a's metadata
    bad = Triangle([CumulativeCell(D(2020, 1, 1), _mend(2020, 12), _mend(2020, 12),
                                   {"paid_loss": 1, "zz": np.array([1, 2], dtype=np.float32)}, Metadata(country="DE"))])
    with tempfile.TemporaryDirectory(dir=os.environ.get("TMPDIR") or None) as d:
        def wr(t, name):
            p = os.path.join(d, name)
            t.to_binary(p, compress=name.endswith(".tribc"))
            return p, Path(p).read_bytes()

        def rd(p):
            return Triangle.from_binary(p)

        ref = {}
        for nm, t in (("a", a), ("b", b), ("two", two)):
            st, r = _run(lambda t=t, nm=nm: wr(t, f"ref_{nm}.trib"))
            if st != "ok":
                return [f"to_binary raised {r!r}"]
            ref[nm] = r[1]
            st, back = _run(lambda r=r: rd(r[0]))
            if st != "ok" or _canon(back.cells) != _canon(t.cells):
                fails.append(f"write-then-read of triangle {nm} is not the identity ({back!r})"[:300])
        seq = [("two", two), ("a", a), ("a", a), ("b", b), ("BAD", bad), ("a", a), ("b", b), ("TORN", None), ("two", two), ("a", a)]
        for i, (nm, t) in enumerate(seq):
            if nm == "BAD":
                st, r = _run(lambda: wr(bad, "bad.trib"))
                if st == "ok":     # accepted dtype: then it must read back
                    st2, back = _run(lambda: rd(r[0]))
                    if st2 != "ok":
                        fails.append(f"a float32 array was written without error but the file does not read back ({back!r})")
                continue
            if nm == "TORN":
                p = os.path.join(d, "torn.trib")
                Path(p).write_bytes(ref["a"][: len(ref["a"]) - 5])
                _run(lambda: rd(p))
                continue
            for ext in (".trib", ".tribc"):
                st, r = _run(lambda t=t, i=i, ext=ext: wr(t, f"seq_{i}{ext}"))
                if st != "ok":
                    fails.append(f"step {i}: to_binary({nm}{ext}) raised {r!r} after {[x for x, _ in seq[:i]]}")
                    continue
                if ext == ".trib" and r[1] != ref[nm]:
                    fails.append(f"step {i}: the bytes written for triangle {nm} differ from the bytes written for it first in the "
                                 f"process ({len(r[1])} vs {len(ref[nm])} bytes) after {[x for x, _ in seq[:i]]}")
                st, back = _run(lambda r=r: rd(r[0]))
                if st != "ok" or _canon(back.cells) != _canon(t.cells):
                    fails.append(f"step {i}: {nm}{ext} does not read back identically after {[x for x, _ in seq[:i]]}: "
                                 + (repr(back) if st != "ok" else f"metadata {back.cells[0].metadata}")[:200])
            if len(fails) > 4:
                break
    return fails


ORACLES.update({
    "extension_ops_after_other_calls": (extension_ops_after_other_calls, ("C15",)),
    "binary_writes_in_sequence": (binary_writes_in_sequence, ("C05", "C06", "C19")),
})

# ------------------------------------------------------------------------------------------ relational operators / JSON / currency
def _repeat_after(observed, interfering, watch=()):
    """observed: name -> thunk returning a Triangle (or list of pairs); run all, run the interfering thunks (errors
    ignored), run all again: strictly the same results; `watch`: (label, object, snapshot) argument lists that must not change"""
    def canon(r):
        if hasattr(r, "cells"):
            return ("tri", _canon(r.cells))
        if isinstance(r, list):
            return ("pairs", [tuple(None if c is None else _canon([c])[0] for c in p) for p in r])
        return ("val", repr(r))

    ref = {k: _run(f) for k, f in observed.items()}
    for f in interfering:
        _run(f)
    fails = []
    for label, obj, snap in watch:
        if repr(obj) != snap:
            fails.append(f"the argument {label} was modified by a call: {snap} -> {obj!r}")
    for k, f in observed.items():
        st, r = _run(f)
        st0, r0 = ref[k]
        if st != st0 or (st == "ok" and canon(r) != canon(r0)) or (st == "err" and type(r) is not type(r0)):
            fails.append(f"{k}: {('raised ' + repr(r0)) if st0 == 'err' else 'a result'} before, "
                         f"{('raised ' + repr(r)) if st == 'err' else 'a different result'} after earlier calls with other arguments")
    return fails


def relational_ops_after_other_calls():
    """join / merge / coalesce / period_merge / add_statics give the same result before and after calls with other join
    types, `on` lists, suffixes, static lists (some refused) - C10; the lists passed as arguments come back unchanged."""
    from bermuda import CumulativeCell, Metadata, Triangle
    from bermuda.utils import add_statics, coalesce, join, merge, period_merge

    def tri(field, country, basis, n, extra=None):
        return Triangle([CumulativeCell(D(2020, 1, 1), _mend(2020, 12), _mend(2020 + k, 12),
                                        {field: 10 * k + 1, **(extra or {})}, Metadata(country=country, risk_basis=basis))
                         for k in range(n)])

    a = tri("paid_loss", "DE", "Accident", 3)
    b = tri("reported_loss", "DE", "Policy", 2, {"earned_exposure": 5.5})
    c = tri("paid_loss", "DE", "Accident", 4, {"earned_premium": 100})
    on = ["country"]
    statics = ["earned_premium", "earned_exposure"]
    observed = {
        "join(a, b)": lambda: join(a, b),
        "join(a, b, 'right', on=['country'])": lambda: join(a, b, "right", on=list(on)),
        "join(a, b, 'left_anti', on=['country'])": lambda: join(a, b, "left_anti", on=list(on)),
        "merge(a, c)": lambda: merge(a, c),
        "merge(a, b, on=['country'])": lambda: merge(a, b, on=list(on)),
        "coalesce([a, c])": lambda: coalesce([a, c]),
        "add_statics(a, c)": lambda: add_statics(a, c),
        "add_statics(a, b)": lambda: add_statics(a, b),
        "period_merge(a, c.right_edge)": lambda: period_merge(a, c.right_edge),
    }
    interfering = [
        lambda: join(a, b, "inner", on=on), lambda: join(b, a, "right_anti", on=["risk_basis"]), lambda: join(a, b, "nope"),
        lambda: merge(b, a, "right", on=on), lambda: merge(a, b, "inner", on=["country", "currency"]),
        lambda: coalesce([c, a, b]), lambda: coalesce([]),
        lambda: add_statics(a, c, statics), lambda: add_statics(a, b, ["earned_premium", "nope"]), lambda: add_statics(b, a, []),
        lambda: period_merge(a, c.right_edge, suffix="_x"), lambda: period_merge(a, c),
    ]
    return _repeat_after(observed, interfering, [("on", on, repr(["country"])), ("statics", statics, repr(["earned_premium", "earned_exposure"]))])


def json_after_other_calls():
    """to_json / from_json / to_dict / from_dict give the same text and the same triangle before and after other
    exports / imports (another triangle, a refused import of invalid text) - C07"""
    import json as _json

    from bermuda import Triangle
    from bermuda.io.json import json_string_to_triangle as loads

    a, b = _tri_for_binary("DE"), _tri_for_binary(None, n=2)
    ta, tb = a.to_json(), b.to_json()
    observed = {
        "loads(to_json(a))": lambda: loads(a.to_json()),
        "from_dict(to_dict(b))": lambda: Triangle.from_dict(b.to_dict()),
        "to_json(a) text": lambda: _json.loads(a.to_json()),
        "loads(text of a)": lambda: loads(ta),
    }
    interfering = [lambda: loads(tb), lambda: loads("{not json"), lambda: loads(ta[: len(ta) // 2]), lambda: Triangle.from_json("/nonexistent.json"),
                   lambda: Triangle.from_dict({"slices": [{"cells": [{"period_start": "x"}]}]}), lambda: b.to_json(), lambda: Triangle([]).to_json()]
    fails = _repeat_after(observed, interfering)
    st, r = _run(lambda: loads(ta))
    if st != "ok" or _canon(r.cells) != _canon(a.cells):
        fails.append(f"json_string_to_triangle(to_json(a)) is not a after the other calls ({r!r})"[:300])
    return fails


def currency_after_other_calls():
    """convert_currency gives the same amounts before and after conversions with other rate tables / targets (some
    refused); the rate dict passed in comes back unchanged - C18"""
    from bermuda import CumulativeCell, Metadata, Triangle
    from bermuda.utils import convert_currency

    t = Triangle([CumulativeCell(D(2020, 1, 1), _mend(2020, 12), _mend(2020 + k, 12),
                                 {"paid_loss": 100 * (k + 1), "reported_claims": 3 + k, "earned_premium": np.array([10.0, 20.0])},
                                 Metadata(currency=cur)) for cur in ("GBP", "USD", "EUR") for k in range(2)])
    rates = {"GBP": 1.25, "EUR": 1.5}
    observed = {     # the refusal first: the reference run itself must not be able to supply what it lacks
        "convert_currency(t, 'USD', {'GBP': 1.25}) [no EUR rate: refused]": lambda: convert_currency(t, "USD", {"GBP": 1.25}),
        "convert_currency(t, 'USD', rates)": lambda: convert_currency(t, "USD", rates),
        "convert_currency(t, 'USD', copy of rates)": lambda: convert_currency(t, "USD", dict(rates))}
    interfering = [lambda: convert_currency(t, "EUR", {"GBP": 2.0, "USD": 0.5}), lambda: convert_currency(t, "JPY", {}),
                   lambda: convert_currency(t, "USD", {"EUR": 7.0, "GBP": 1.0, "CHF": 2.0}),
                   lambda: convert_currency(t, "USD", {"GBP": 3.0}), lambda: convert_currency(t, "GBP", {"USD": 1.0, "EUR": 1.0, "GBP": 9.0})]
    fails = _repeat_after(observed, interfering, [("exchange_rates", rates, repr({"GBP": 1.25, "EUR": 1.5}))])
    st, r = _run(observed["convert_currency(t, 'USD', rates)"])
    if st == "ok":
        for c0, c1 in zip(sorted(t.cells, key=lambda c: (c.metadata.currency, c.evaluation_date)),
                          sorted(r.cells, key=lambda c: 0)):
            pass
        got = sorted((c["paid_loss"], c["reported_claims"]) for c in r.cells)
        want = sorted((c["paid_loss"] * {"GBP": 1.25, "EUR": 1.5, "USD": 1}[c.metadata.currency], c["reported_claims"]) for c in t.cells)
        if got != want:
            fails.append(f"convert_currency amounts {got} are not the source amounts times the rate {want}")
    return fails


ORACLES.update({
    "relational_ops_after_other_calls": (relational_ops_after_other_calls, ("C10",)),
    "json_after_other_calls": (json_after_other_calls, ("C07",)),
    "currency_after_other_calls": (currency_after_other_calls, ("C18",)),
})

# ------------------------------------------------------------------------------------------ blend
def blend_shared_arrays_and_earlier_results():
    """blend on triangles whose cells all hold ONE array object (derive_fields with a constant array) honours per-cell
    weights in every cell; results of earlier blend calls do not change when blend is called again (C16: per-cell convex
    combination / mixture of the inputs)."""
    from bermuda import CumulativeCell, Triangle
    from bermuda.utils import blend

    A, B = np.array([10.0, 20.0, 40.0]), np.array([110.0, 220.0, 340.0])
    base = Triangle([CumulativeCell(D(2020, 1, 1), _mend(2020, 12), _mend(2020 + k, 12), {"earned_premium": 100.0 + k}) for k in range(4)])
    ta, tb = base.derive_fields(ultimate=A), base.derive_fields(ultimate=B)
    n = len(base)
    w = np.array([k / (n - 1) for k in range(n)])            # 0 .. 1: the last cell is all B, the first all A
    fails = []
    st, r = _run(lambda: blend([ta, tb], weights={"a": 1 - w, "b": w}, method="linear"))
    if st != "ok":
        fails.append(f"linear blend with per-cell dict weights raised {r!r}")
    else:
        for k, c in enumerate(r.cells):
            exp = (1 - w[k]) * A + w[k] * B
            if not np.allclose(np.asarray(c["ultimate"], dtype=float), exp, rtol=1e-9, atol=1e-9):
                fails.append(f"linear blend, cell {k}, weights ({1 - w[k]:.3f}, {w[k]:.3f}): got {np.asarray(c['ultimate']).tolist()}, "
                             f"the convex combination is {exp.tolist()} (inputs share one array object per triangle)")
                break
    st, r = _run(lambda: blend([ta, tb], weights={"a": 1 - w, "b": w}, method="mixture", seed=7))
    if st == "ok":
        first, last = np.asarray(r.cells[0]["ultimate"], dtype=float), np.asarray(r.cells[-1]["ultimate"], dtype=float)
        if not (np.array_equal(first, A) and np.array_equal(last, B)):
            fails.append(f"mixture blend with weights (1,0) in the first and (0,1) in the last cell: got {first.tolist()} / {last.tolist()}, "
                         f"must be exactly {A.tolist()} / {B.tolist()}")
    # results of earlier calls are values, not views of a reused buffer
    t1 = base.derive_fields(ultimate=lambda c: A + c["earned_premium"])
    t2 = base.derive_fields(ultimate=lambda c: B - c["earned_premium"])
    st, r1 = _run(lambda: blend([t1], method="linear"))
    if st == "ok":
        snap = _canon(r1.cells)
        want = _canon(t1.cells)
        for f in (lambda: blend([t2], method="linear"), lambda: blend([t2, t1], weights=[0.5, 0.5], method="linear"),
                  lambda: blend([t2], weights=[1.0], method="mixture", seed=1)):
            _run(f)
        if _canon(r1.cells) != snap:
            fails.append("the result of an earlier blend([t1], method='linear') changed when blend was called again "
                         f"(first cell now {np.asarray(r1.cells[0]['ultimate']).tolist()})")
        if [np.asarray(c["ultimate"], dtype=float).tolist() for c in r1.cells] != [np.asarray(c["ultimate"], dtype=float).tolist() for c in t1.cells]:
            fails.append("blend([t1], method='linear') of a single triangle is not that triangle's values in every cell")
    return fails


ORACLES.update({"blend_shared_arrays_and_earlier_results": (blend_shared_arrays_and_earlier_results, ("C16",))})


def run_for(ctx, prop):
    """run every sequence oracle relevant to `prop`; report failures as concrete violations"""
    n = 0
    for name, (fn, props) in ORACLES.items():
        if prop not in props:
            continue
        n += 1
        st, fails = _run(fn)
        if st == "err":
            fails = [f"the sequence raised {type(fails).__name__}: {fails}"]
        ctx.count(evaluations=1)
        ctx.hist("state-carry:" + name)
        if fails:
            ctx.violation("impl-violation", f"state carried between calls ({name}): {fails[0]}",
                          {"op": "state-carry", "name": name, "failures": fails[:6], "doc": (fn.__doc__ or "").strip()},
                          found_input=True)
    return n


def replay(data):
    fn = ORACLES[data["name"]][0]
    st, fails = _run(fn)
    if st == "err":
        fails = [f"the sequence raised {type(fails).__name__}: {fails}"]
    print(f"state-carry sequence {data['name']}: {(fn.__doc__ or '').strip()}")
    for f in fails:
        print("  FAIL:", f)
    return 1 if fails else 0
