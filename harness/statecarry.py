"""Sequence oracles for state carried from one public call to the next (round 8, kinds K5/K6).

Every property is stated for every call, whatever was called before it in the same process.  A default
evaluated once (mutable default argument, module-level table merged in place, a scratch buffer that is
only rewound on success) makes a call correct in isolation and wrong after a particular earlier call.
Each oracle here runs such a sequence on the implementation:

    reference result of the observed call  ->  interfering call(s) (non-default arguments, or a call that is
    refused midway)  ->  the observed call again: same strict result, and still what the property demands

and returns a list of failure strings (empty = fine).  They are pure functions of the implementation
(no generated input), so a violation is replayed by running the same oracle again
(`{"op": "state-carry", "name": <oracle>}`; see `replay`).
"""
import datetime
import io
import os
import tempfile

import numpy as np

D = datetime.date


def _canon(cells):
    from harness.coqterm import canon_tri

    return canon_tri(list(cells), ordered=True)


def _run(thunk):
    try:
        return "ok", thunk()
    except Exception as ex:  # noqa: BLE001
        return "err", ex


def _mend(y, m):
    return (D(y + (m == 12), m % 12 + 1, 1) - datetime.timedelta(days=1))


def _two_slice_monthly(fields=("paid_loss", "reported_claims"), extra=None):
    from bermuda import CumulativeCell, Metadata, Triangle

    cells = []
    for si, country in enumerate(("DE", "US")):
        for m in range(1, 7):
            for ei, e in enumerate((_mend(2021, 6), _mend(2021, 12))):
                vals = {f: 10 * (si + 1) * m + ei + fi for fi, f in enumerate(fields)}
                if extra:
                    vals.update(extra)
                cells.append(CumulativeCell(D(2021, m, 1), _mend(2021, m), e, vals, Metadata(country=country)))
    return Triangle(cells)


# ------------------------------------------------------------------------------------------ summarize / aggregate
def summary_fns_then_defaults():
    """summarize(..., summary_fns=<override of an additive default + a new field>) must not change what later
    default calls of summarize / aggregate do (C08, C09): sums are sums again, an unknown field is refused again."""
    from bermuda.errors import TriangleError

    fails = []
    t = _two_slice_monthly()
    t_custom = _two_slice_monthly(extra={"custom_field_r8": 3})
    agg = dict(period_resolution=(1, "quarter"))
    st0, s0 = _run(lambda: t.summarize())
    sta0, a0 = _run(lambda: t.aggregate(**agg))
    stc0, c0 = _run(lambda: t_custom.summarize())
    if st0 != "ok" or sta0 != "ok":
        return [f"reference summarize/aggregate raised {s0 if st0 != 'ok' else a0!r}"]
    if not (stc0 == "err" and isinstance(c0, TriangleError)):
        fails.append("a field without an aggregation rule was not refused with TriangleError (before any custom call)")
    # the documented totals of the reference results themselves
    for c in s0.cells:
        exp = sum(x["paid_loss"] for x in t.cells if (x.period, x.evaluation_date) == (c.period, c.evaluation_date))
        if c["paid_loss"] != exp:
            fails.append(f"default summarize: paid_loss {c['paid_loss']} != sum over slices {exp}")
            break
    rules = {
        "paid_loss": lambda vd: max(vd["paid_loss"]),
        "reported_claims": lambda vd: max(vd["reported_claims"]),
        "PAID_LOSS": lambda vd: -1,
        "custom_field_r8": lambda vd: vd["custom_field_r8"][0],
    }
    for tri in (t_custom, t):
        _run(lambda tri=tri: tri.summarize(summary_fns=dict(rules)))
    _run(lambda: t_custom.summarize(summary_fns={"custom_field_r8": lambda vd: 1 / 0}))     # a rule that raises midway
    st1, s1 = _run(lambda: t.summarize())
    sta1, a1 = _run(lambda: t.aggregate(**agg))
    stc1, c1 = _run(lambda: t_custom.summarize())
    if st1 != "ok" or _canon(s1.cells) != _canon(s0.cells):
        fails.append("summarize() with default rules gives a different result after an earlier call with summary_fns "
                     f"(paid_loss of the first cell {s0.cells[0]['paid_loss']} -> "
                     f"{s1.cells[0]['paid_loss'] if st1 == 'ok' else repr(s1)})")
    if sta1 != "ok" or _canon(a1.cells) != _canon(a0.cells):
        fails.append("aggregate() gives a different result after an earlier summarize(summary_fns=...) call "
                     f"(first cell {dict(a0.cells[0].values)} -> {dict(a1.cells[0].values) if sta1 == 'ok' else repr(a1)})")
    if not (stc1 == "err" and isinstance(c1, TriangleError)):
        fails.append("a field without an aggregation rule is accepted by default summarize() after an earlier call that "
                     "supplied a rule for it via summary_fns")
    return fails


ORACLES = {
    "summary_fns_then_defaults": (summary_fns_then_defaults, ("C08", "C09")),
}


def run_for(ctx, prop):
    """run every sequence oracle relevant to `prop`; report failures as concrete violations"""
    n = 0
    for name, (fn, props) in ORACLES.items():
        if prop not in props:
            continue
        n += 1
        st, fails = _run(fn)
        if st == "err":
            fails = [f"the sequence raised {type(fails).__name__}: {fails}"]
        ctx.count(evaluations=1)
        ctx.hist("state-carry:" + name)
        if fails:
            ctx.violation("impl-violation", f"state carried between calls ({name}): {fails[0]}",
                          {"op": "state-carry", "name": name, "failures": fails[:6], "doc": (fn.__doc__ or "").strip()},
                          found_input=True)
    return n


def replay(data):
    fn = ORACLES[data["name"]][0]
    st, fails = _run(fn)
    if st == "err":
        fails = [f"the sequence raised {type(fails).__name__}: {fails}"]
    print(f"state-carry sequence {data['name']}: {(fn.__doc__ or '').strip()}")
    for f in fails:
        print("  FAIL:", f)
    return 1 if fails else 0
