"""Sequence oracles for state carried from one public call to the next (round 8, kinds K5/K6).

Every property is stated for every call, whatever was called before it in the same process.  A default
evaluated once (mutable default argument, module-level table merged in place, a scratch buffer that is
only rewound on success) makes a call correct in isolation and wrong after a particular earlier call.
Each oracle here runs such a sequence on the implementation:

    reference result of the observed call  ->  interfering call(s) (non-default arguments, or a call that is
    refused midway)  ->  the observed call again: same strict result, and still what the property demands

and returns a list of failure strings (empty = fine).  They are pure functions of the implementation
(no generated input), so a violation is replayed by running the same oracle again
(`{"op": "state-carry", "name": <oracle>}`; see `replay`).
"""
import datetime
import io
import os
import tempfile
from pathlib import Path

import numpy as np

D = datetime.date


def _canon(cells):
    from harness.coqterm import canon_tri

    return canon_tri(list(cells), ordered=True)


def _run(thunk):
    try:
        return "ok", thunk()
    except Exception as ex:  # noqa: BLE001
        return "err", ex


def _mend(y, m):
    return (D(y + (m == 12), m % 12 + 1, 1) - datetime.timedelta(days=1))


def _two_slice_monthly(fields=("paid_loss", "reported_claims"), extra=None):
    from bermuda import CumulativeCell, Metadata, Triangle

    cells = []
    for si, country in enumerate(("DE", "US")):
        for m in range(1, 7):
            for ei, e in enumerate((_mend(2021, 6), _mend(2021, 12))):
                vals = {f: 10 * (si + 1) * m + ei + fi for fi, f in enumerate(fields)}
                if extra:
                    vals.update(extra)
                cells.append(CumulativeCell(D(2021, m, 1), _mend(2021, m), e, vals, Metadata(country=country)))
    return Triangle(cells)


# ------------------------------------------------------------------------------------------ summarize / aggregate
def summary_fns_then_defaults():
    """summarize(..., summary_fns=<override of an additive default + a new field>) must not change what later
    default calls of summarize / aggregate do (C08, C09): sums are sums again, an unknown field is refused again."""
    from bermuda.errors import TriangleError

    fails = []
    t = _two_slice_monthly()
    t_custom = _two_slice_monthly(extra={"custom_field_r8": 3})
    agg = dict(period_resolution=(1, "quarter"))
    st0, s0 = _run(lambda: t.summarize())
    sta0, a0 = _run(lambda: t.aggregate(**agg))
    stc0, c0 = _run(lambda: t_custom.summarize())
    if st0 != "ok" or sta0 != "ok":
        return [f"reference summarize/aggregate raised {s0 if st0 != 'ok' else a0!r}"]
    if not (stc0 == "err" and isinstance(c0, TriangleError)):
        fails.append("a field without an aggregation rule was not refused with TriangleError (before any custom call)")
    # the documented totals of the reference results themselves
    for c in s0.cells:
        exp = sum(x["paid_loss"] for x in t.cells if (x.period, x.evaluation_date) == (c.period, c.evaluation_date))
        if c["paid_loss"] != exp:
            fails.append(f"default summarize: paid_loss {c['paid_loss']} != sum over slices {exp}")
            break
    rules = {
        "paid_loss": lambda vd: max(vd["paid_loss"]),
        "reported_claims": lambda vd: max(vd["reported_claims"]),
        "PAID_LOSS": lambda vd: -1,
        "custom_field_r8": lambda vd: vd["custom_field_r8"][0],
    }
    for tri in (t_custom, t):
        _run(lambda tri=tri: tri.summarize(summary_fns=dict(rules)))
    _run(lambda: t_custom.summarize(summary_fns={"custom_field_r8": lambda vd: 1 / 0}))     # a rule that raises midway
    st1, s1 = _run(lambda: t.summarize())
    sta1, a1 = _run(lambda: t.aggregate(**agg))
    stc1, c1 = _run(lambda: t_custom.summarize())
    if st1 != "ok" or _canon(s1.cells) != _canon(s0.cells):
        fails.append("summarize() with default rules gives a different result after an earlier call with summary_fns "
                     f"(paid_loss of the first cell {s0.cells[0]['paid_loss']} -> "
                     f"{s1.cells[0]['paid_loss'] if st1 == 'ok' else repr(s1)})")
    if sta1 != "ok" or _canon(a1.cells) != _canon(a0.cells):
        fails.append("aggregate() gives a different result after an earlier summarize(summary_fns=...) call "
                     f"(first cell {dict(a0.cells[0].values)} -> {dict(a1.cells[0].values) if sta1 == 'ok' else repr(a1)})")
    if not (stc1 == "err" and isinstance(c1, TriangleError)):
        fails.append("a field without an aggregation rule is accepted by default summarize() after an earlier call that "
                     "supplied a rule for it via summary_fns")
    return fails


ORACLES = {
    "summary_fns_then_defaults": (summary_fns_then_defaults, ("C08", "C09")),
}

# ------------------------------------------------------------------------------------------ extension operators
def _gappy(premium=True, country=None):
    """quarterly periods observed from different first lags, one gap, one slice"""
    from bermuda import CumulativeCell, Metadata, Triangle

    cells = []
    for q, first in ((1, 2), (2, 1), (3, 0)):
        ps, pe = D(2020, 3 * q - 2, 1), _mend(2020, 3 * q)
        for k in range(first, 5):
            if q == 1 and k == 3:
                continue
            mm = 3 * q + 3 * k
            e = _mend(2020 + (mm - 1) // 12, (mm - 1) % 12 + 1)
            vals = {"paid_loss": 100 * q + k, "reported_claims": q + k}
            if premium:
                vals["earned_premium"] = 1000 * q
            cells.append(CumulativeCell(ps, pe, e, vals, Metadata(country=country)))
    return Triangle(cells)


def extension_ops_after_other_calls():
    """make_right_triangle / make_right_diagonal / fill_forward_gaps / backfill with DEFAULT arguments give the same
    result before and after calls with other arguments (explicit lists, a triangle without the default static field:
    refused with KeyError, fill_with_none, other resolutions) - C15: backfilled cells carry the period's static fields."""
    from bermuda.utils import backfill, fill_forward_gaps, make_right_diagonal, make_right_triangle

    t, t_np = _gappy(True), _gappy(False, country="US")
    diag = [_mend(2021, 12), _mend(2022, 3)]
    observed = {
        "backfill(t)": lambda: backfill(t),
        "backfill(t, min_dev_lag=3)": lambda: backfill(t, min_dev_lag=3),
        "fill_forward_gaps(t)": lambda: fill_forward_gaps(t),
        "make_right_triangle(t)": lambda: make_right_triangle(t),
        "make_right_diagonal(t, dates)": lambda: make_right_diagonal(t, list(diag)),
    }
    ref = {k: _run(f) for k, f in observed.items()}
    fails = []
    for k, (st, r) in ref.items():
        if st != "ok":
            fails.append(f"{k} raised {r!r} on a plain gappy triangle")
    if fails:
        return fails
    # what C15 says about the reference backfill itself
    for c in ref["backfill(t)"][1].cells:
        if c not in t.cells and (c["earned_premium"] != 1000 * ((c.period_start.month + 2) // 3) or c["paid_loss"] != 0):
            fails.append(f"backfilled cell {c.period_start} @ {c.evaluation_date} holds {dict(c.values)}: "
                         "must be zeros plus the period's static earned_premium")
            break
    sf = ["earned_premium", "reported_claims"]
    lags = [24.0, 36.0]
    interfering = [
        lambda: backfill(t_np),                                  # refused: no earned_premium
        lambda: backfill(t_np, static_fields=[]),
        lambda: backfill(t, static_fields=sf, eval_resolution=3, min_dev_lag=-2),
        lambda: fill_forward_gaps(t, eval_resolution=1, fill_with_none=True),
        lambda: fill_forward_gaps(t_np, fill_with_none=True),
        lambda: make_right_triangle(t, dev_lags=lags),
        lambda: make_right_triangle(t_np, dev_lags=[0.0, 400.0], dev_lag_unit="day"),
        lambda: make_right_diagonal(t, diag, include_historic=True),
        lambda: make_right_diagonal(t_np, [D(2019, 1, 31)]),
    ]
    for f in interfering:
        _run(f)
    if sf != ["earned_premium", "reported_claims"] or lags != [24.0, 36.0] or diag != [_mend(2021, 12), _mend(2022, 3)]:
        fails.append(f"a list passed as an argument was modified by the call: {sf} {lags} {diag}")
    for k, f in observed.items():
        st, r = _run(f)
        if st != "ok" or _canon(r.cells) != _canon(ref[k][1].cells):
            what = repr(r) if st != "ok" else next((f"{c.period_start} @ {c.evaluation_date}: {dict(c.values)}" for c, c0 in
                                                    zip(r.cells, ref[k][1].cells) if _canon([c]) != _canon([c0])), f"{len(r)} cells")
            fails.append(f"{k} gives a different result after earlier calls with other arguments ({what})")
    return fails


# ------------------------------------------------------------------------------------------ binary writer / reader
def _tri_for_binary(country, n=3, premium=7.5):
    from bermuda import CumulativeCell, Metadata, Triangle

    md = Metadata(country=country, currency="EUR", details={"lob": "motor"}) if country else Metadata()
    return Triangle([CumulativeCell(D(2020, 1, 1), _mend(2020, 12), _mend(2020 + k, 12),
                                    {"paid_loss": 10 * k + 1, "earned_premium": premium, "s": np.array([1.5, k, 3.0])}, md)
                     for k in range(n)])


def binary_writes_in_sequence():
    """to_binary / from_binary in one process: every file is the same bytes as when the triangle is written first in
    a fresh state, and reads back strictly identical - after a write that was refused midway (unsupported dtype),
    after a write of a triangle whose LAST metadata equals the next triangle's FIRST metadata, after a read that
    failed on a torn file, for .trib and .tribc (C05, C06, C19)."""
    from bermuda import CumulativeCell, Metadata, Triangle

    fails = []
    a, b = _tri_for_binary("DE"), _tri_for_binary("DE", n=2, premium=8.5)
    two = Triangle(list(_tri_for_binary("AT").cells) + list(a.cells))            # last slice = a's metadata
    bad = Triangle([CumulativeCell(D(2020, 1, 1), _mend(2020, 12), _mend(2020, 12),
                                   {"paid_loss": 1, "zz": np.array([1, 2], dtype=np.float32)}, Metadata(country="DE"))])
    with tempfile.TemporaryDirectory(dir=os.environ.get("TMPDIR") or None) as d:
        def wr(t, name):
            p = os.path.join(d, name)
            t.to_binary(p, compress=name.endswith(".tribc"))
            return p, Path(p).read_bytes()

        def rd(p):
            return Triangle.from_binary(p)

        ref = {}
        for nm, t in (("a", a), ("b", b), ("two", two)):
            st, r = _run(lambda t=t, nm=nm: wr(t, f"ref_{nm}.trib"))
            if st != "ok":
                return [f"to_binary raised {r!r}"]
            ref[nm] = r[1]
            st, back = _run(lambda r=r: rd(r[0]))
            if st != "ok" or _canon(back.cells) != _canon(t.cells):
                fails.append(f"write-then-read of triangle {nm} is not the identity ({back!r})"[:300])
        seq = [("two", two), ("a", a), ("a", a), ("b", b), ("BAD", bad), ("a", a), ("b", b), ("TORN", None), ("two", two), ("a", a)]
        for i, (nm, t) in enumerate(seq):
            if nm == "BAD":
                st, r = _run(lambda: wr(bad, "bad.trib"))
                if st == "ok":     # accepted dtype: then it must read back
                    st2, back = _run(lambda: rd(r[0]))
                    if st2 != "ok":
                        fails.append(f"a float32 array was written without error but the file does not read back ({back!r})")
                continue
            if nm == "TORN":
                p = os.path.join(d, "torn.trib")
                Path(p).write_bytes(ref["a"][: len(ref["a"]) - 5])
                _run(lambda: rd(p))
                continue
            for ext in (".trib", ".tribc"):
                st, r = _run(lambda t=t, i=i, ext=ext: wr(t, f"seq_{i}{ext}"))
                if st != "ok":
                    fails.append(f"step {i}: to_binary({nm}{ext}) raised {r!r} after {[x for x, _ in seq[:i]]}")
                    continue
                if ext == ".trib" and r[1] != ref[nm]:
                    fails.append(f"step {i}: the bytes written for triangle {nm} differ from the bytes written for it first in the "
                                 f"process ({len(r[1])} vs {len(ref[nm])} bytes) after {[x for x, _ in seq[:i]]}")
                st, back = _run(lambda r=r: rd(r[0]))
                if st != "ok" or _canon(back.cells) != _canon(t.cells):
                    fails.append(f"step {i}: {nm}{ext} does not read back identically after {[x for x, _ in seq[:i]]}: "
                                 + (repr(back) if st != "ok" else f"metadata {back.cells[0].metadata}")[:200])
            if len(fails) > 4:
                break
    return fails


ORACLES.update({
    "extension_ops_after_other_calls": (extension_ops_after_other_calls, ("C15",)),
    "binary_writes_in_sequence": (binary_writes_in_sequence, ("C05", "C06", "C19")),
})


def run_for(ctx, prop):
    """run every sequence oracle relevant to `prop`; report failures as concrete violations"""
    n = 0
    for name, (fn, props) in ORACLES.items():
        if prop not in props:
            continue
        n += 1
        st, fails = _run(fn)
        if st == "err":
            fails = [f"the sequence raised {type(fails).__name__}: {fails}"]
        ctx.count(evaluations=1)
        ctx.hist("state-carry:" + name)
        if fails:
            ctx.violation("impl-violation", f"state carried between calls ({name}): {fails[0]}",
                          {"op": "state-carry", "name": name, "failures": fails[:6], "doc": (fn.__doc__ or "").strip()},
                          found_input=True)
    return n


def replay(data):
    fn = ORACLES[data["name"]][0]
    st, fails = _run(fn)
    if st == "err":
        fails = [f"the sequence raised {type(fails).__name__}: {fails}"]
    print(f"state-carry sequence {data['name']}: {(fn.__doc__ or '').strip()}")
    for f in fails:
        print("  FAIL:", f)
    return 1 if fails else 0
