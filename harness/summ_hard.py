"""Directed input families of notes/HARDENING.md (A-L) for summarize (C09) and aggregate (C08).

`triangles()` returns small named cell lists (cumulative unless stated) that every quick run feeds, with
several argument sets, through exactly the same oracles / Coq correspondence as the random stream."""
from __future__ import annotations

import datetime

import numpy as np

from harness import summ_common as S
from harness.gen import month_end

D = datetime.date


def _months(y, m, n):
    """n consecutive monthly periods starting at (y, m): list of (start, end)."""
    out = []
    for i in range(n):
        k = y * 12 + (m - 1) + i
        yy, mm = k // 12, k % 12 + 1
        out.append((D(yy, mm, 1), month_end(yy, mm)))
    return out


def _cum(ps, pe, ev, vals, meta=None, cls=None, flavour="date"):
    from bermuda import CumulativeCell, Metadata

    return S.mk_cell(cls or CumulativeCell, flavour, ps, pe, ev, vals, meta if meta is not None else Metadata())


def triangles():
    """-> list of (family name, cells)"""
    from bermuda import Cell, Metadata

    out = []

    def fam(name, build):
        """A family whose (valid) cells the library refuses to construct is reported, not crashed on."""
        try:
            out.append((name, build()))
        except Exception as ex:  # noqa: BLE001
            out.append((name, ex))
    q1 = _months(2021, 1, 6)
    evs = [D(2021, 6, 30), D(2021, 9, 30), D(2021, 12, 31)]

    # ---- A: equal Metadata spelled differently inside ONE slice (key order, 7 / 7.0, True / 1, 1000 / 1000.0)
    a1 = Metadata(per_occurrence_limit=1000, details={"coverage": "BI", "state": "NY", "n": 7, "flag": True},
                  loss_details={"peril": "wind", "layer": 1})
    a2 = Metadata(per_occurrence_limit=1000.0, details={"flag": 1, "n": 7.0, "state": "NY", "coverage": "BI"},
                  loss_details={"layer": True, "peril": "wind"})
    b1 = Metadata(country="US", details={"x": 0, "y": "q"})
    b2 = Metadata(country="US", details={"y": "q", "x": False})
    fam("A:one-slice-respelled", lambda: [_cum(ps, pe, e, {"paid_loss": 10 * i + j, "earned_premium": 100}, (a1, a2)[(i + j) % 2])
                                          for i, (ps, pe) in enumerate(q1) for j, e in enumerate(evs)])
    fam("A:two-slices-respelled", lambda: [_cum(ps, pe, e, {"paid_loss": 10 * i + j + k}, ((a1, a2), (b1, b2))[k][(i + j) % 2])
                                           for k in (0, 1) for i, (ps, pe) in enumerate(q1) for j, e in enumerate(evs[:2])])

    # ---- B: distinct Metadata that flatten alike
    bs = [Metadata(details={"k": "v"}), Metadata(loss_details={"k": "v"}), Metadata(details={"k": "v"}, loss_details={"k": "v"}),
          Metadata(details={"currency": "USD"}), Metadata(currency="USD"), Metadata(currency="USD", details={"currency": "USD"})]
    fam("B:details-vs-loss_details-vs-attribute(mixed currency)", lambda: [_cum(ps, pe, evs[0], {"paid_loss": 1 + i + 10 * k}, m) for k, m in enumerate(bs) for i, (ps, pe) in enumerate(q1[:3])])
    bs2 = [Metadata(details={"k": "v"}), Metadata(loss_details={"k": "v"}), Metadata(details={"k": "v"}, loss_details={"k": "v"}),
           Metadata(details={"country": "US"}), Metadata(country="US"), Metadata(country=""), Metadata(),
           Metadata(details={"k": ""}), Metadata(loss_details={"k": ""})]
    fam("B:flatten-alike-slices", lambda: [_cum(ps, pe, e, {"paid_loss": 1 + i + 10 * k, "earned_premium": 50}, m)
                                           for k, m in enumerate(bs2) for i, (ps, pe) in enumerate(q1[:3]) for e in evs[:2]])

    # ---- C: calendar corners (February month ends of 1900 / 1968 / 2000 / 2100 / 2240; 30/31-day ends)
    for y in (1899, 1967, 1999, 2099, 2239):
        ms = _months(y, 11, 6)                  # Nov .. Apr across the February of y+1
        es = [ms[-1][1], month_end(y + 1, 6), month_end(y + 1, 12)]
        fam(f"C:february-{y + 1}", lambda: [_cum(ps, pe, e, {"paid_loss": 3 * i + j + 1}) for i, (ps, pe) in enumerate(ms)
                                            for j, e in enumerate(es)])
    ms = _months(2023, 11, 4)
    off = [month_end(2024, 3) - datetime.timedelta(days=1), month_end(2024, 3), month_end(2024, 3) + datetime.timedelta(days=1),
           D(2024, 2, 28), D(2024, 2, 29), D(2024, 6, 30)]
    fam("C:evaluation-next-to-a-month-end", lambda: [_cum(ps, pe, e, {"reported_loss": 5 * i + j + 1})
                                                     for i, (ps, pe) in enumerate(ms) for j, e in enumerate(off)])

    # ---- D: coordinates given as pandas.Timestamp / datetime with a time of day
    fam("D:timestamp-and-datetime-slices", lambda: [
        _cum(ps, pe, e, {"paid_loss": 7 * i + j + 100 * k}, Metadata(details={"src": fl}), flavour=fl)
        for k, fl in enumerate(("date", "ts", "dt")) for i, (ps, pe) in enumerate(q1[:4]) for j, e in enumerate(evs[:2])])
    fam("D:one-slice-mixed-date-types", lambda: [
        _cum(ps, pe, e, {"paid_loss": 7 * i + j}, flavour=("date", "ts", "dt")[(i + j) % 3])
        for i, (ps, pe) in enumerate(q1) for j, e in enumerate(evs[:2])])

    from bermuda import IncrementalCell
    fam("D:incremental-timestamp-slices", lambda: [
        S.mk_cell(IncrementalCell, fl, ps, pe, e, {"paid_loss": 7 * i + j + 100 * k}, Metadata(details={"src": fl}),
                  prev=(ps - datetime.timedelta(days=1) if j == 0 else evs[j - 1]))
        for k, fl in enumerate(("date", "ts", "dt")) for i, (ps, pe) in enumerate(q1[:4]) for j, e in enumerate(evs)])

    # ---- E: falsy but valid values (field values 0 / 0.0 / zero arrays / None; limit 0; falsy details)
    fz = Metadata(per_occurrence_limit=0, details={"zero": 0, "no": False, "empty": "", "f": 0.0})
    fz2 = Metadata(per_occurrence_limit=0, details={"zero": 0, "no": False, "empty": "", "f": 0.0, "lob": "b"})
    fam("E:zero-and-None-values", lambda: [
        _cum(ps, pe, e, {"paid_loss": (0, 0.0, None, 5)[(i + j) % 4], "reported_loss": 0, "earned_premium": (0.0, 0)[j % 2],
                         "open_claims": None}, (fz, fz2)[k])
        for k in (0, 1) for i, (ps, pe) in enumerate(q1) for j, e in enumerate(evs[:2])])
    fam("E:zero-arrays", lambda: [
        _cum(ps, pe, e, {"paid_loss": np.zeros(3, dtype=np.int64) if (i + k) % 2 else np.array([1, 0, 2], dtype=np.int64),
                         "reported_loss": np.zeros(3)}, (fz, fz2)[k])
        for k in (0, 1) for i, (ps, pe) in enumerate(q1[:4]) for e in evs[:1]])

    # ---- F: degenerate shapes
    fam("F:one-cell", lambda: [_cum(q1[0][0], q1[0][1], evs[0], {"paid_loss": 5})])
    fam("F:one-cell-base-class", lambda: [_cum(q1[0][0], q1[0][1], evs[0], {"paid_loss": 5}, cls=Cell)])
    fam("F:field-only-at-later-evaluations", lambda: [
        _cum(ps, pe, e, {"paid_loss": i + j + 1, **({"reported_loss": 2 * i + j} if j >= 1 else {}),
                         **({"earned_premium": 100} if j == 2 else {})})
        for i, (ps, pe) in enumerate(q1) for j, e in enumerate(evs)])
    m1, m2 = Metadata(loss_details={"cov": "a"}), Metadata(loss_details={"cov": "b"})
    fam("F:field-missing-in-first-cell/all-None-field", lambda: [
        _cum(ps, pe, e, {"paid_loss": i + 1, "open_claims": None, **({"incurred_loss": 3 + i} if k == 1 or i > 0 else {})}, (m1, m2)[k])
        for k in (0, 1) for i, (ps, pe) in enumerate(q1[:4]) for e in evs[:1]])
    fam("F:scalars-after-arrays", lambda: [
        _cum(ps, pe, evs[0], {"paid_loss": np.array([1.5, 2.0]) if i < 3 else float(i), "reported_loss": i if i < 2 else np.array([i, 1])})
        for i, (ps, pe) in enumerate(q1)])

    # ---- G: NumPy corner types
    big = 2 ** 53 + 1
    fam("G:numpy-scalars", lambda: [
        _cum(ps, pe, e, {"paid_loss": np.int64(big + i), "reported_loss": np.float64(1.5 * i), "incurred_loss": np.int64(i),
                         "open_claims": bool(i % 2), "closed_claims": big + 2 * i})
        for i, (ps, pe) in enumerate(q1) for e in evs[:2]])
    for name, mk in (("float32", lambda i: np.array([i + 0.5, 2.0 * i], dtype=np.float32)),
                     ("int32", lambda i: np.array([i, 3 * i], dtype=np.int32)),
                     ("int16", lambda i: np.array([i, 3 * i], dtype=np.int16)),
                     ("bool", lambda i: np.array([i % 2 == 0, True])),
                     ("size-1", lambda i: np.array([i + 1], dtype=np.int64)),
                     ("strided", lambda i: np.arange(10 * i, 10 * i + 8, dtype=np.int64)[::2]),
                     ("strided-float", lambda i: np.asfortranarray(np.arange(12.0).reshape(3, 4) + i)[:, 1])):
        fam(f"G:{name}-arrays", lambda: [_cum(ps, pe, e, {"paid_loss": mk(i), "reported_loss": mk(i + 1)})
                                         for i, (ps, pe) in enumerate(q1) for e in evs[:2]])

    # ---- L: refusal clauses both ways -- equal strings that are distinct objects must NOT be refused; None mixed
    #         with a non-None risk basis / currency MUST be refused; all-None is consistent
    def code(x):
        return (" " + x.lower() + " ").strip().upper()        # built at run time: never the same object twice
    for label, rbs, curs in (("L:valid-equal-strings-distinct-objects", ["accident", "accident", "accident"], ["usd", "usd", "usd"]),
                             ("L:valid-all-None", [None, None, None], [None, None, None]),
                             ("L:refuse-None-vs-Accident", [None, "accident", "accident"], ["usd", "usd", "usd"]),
                             ("L:refuse-None-vs-Policy-last", ["policy", "policy", None], [None, None, None]),
                             ("L:refuse-None-vs-currency", ["accident", "accident", "accident"], ["usd", None, "usd"]),
                             ("L:refuse-Accident-vs-Policy", ["accident", "policy", "accident"], ["usd", "usd", "usd"])):
        fam(label, lambda rbs=rbs, curs=curs: [
            _cum(ps, pe, e, {"paid_loss": 10 * k + i + j, "earned_premium": 100},
                 Metadata(risk_basis=(code(rb).capitalize() if rb else None), currency=(code(cu) if cu else None),
                          country=code("us"), details={"lob": "L%d" % k}))
            for k, (rb, cu) in enumerate(zip(rbs, curs)) for i, (ps, pe) in enumerate(q1[:3]) for j, e in enumerate(evs[:2])])

    # ---- I: restated cells (same slice and coordinates twice, different values)
    fam("I:restated-cells", lambda: [_cum(ps, pe, e, {"paid_loss": 10 * i + j + 100 * rep, "earned_premium": 7 + rep})
                                     for rep in (0, 1, 2) for i, (ps, pe) in enumerate(q1[:4]) for j, e in enumerate(evs[:2])
                                     if rep == 0 or (i + j) % 2 == 0])

    # ---- J: period layouts (semi-monthly inside a month, shared starts, nested / overlapping, per-slice ragged, gaps)
    semi = [(D(2021, m, 1), D(2021, m, 15)) for m in (1, 2, 3)] + [(D(2021, m, 16), month_end(2021, m)) for m in (1, 2, 3)]
    fam("J:semi-monthly", lambda: [_cum(ps, pe, e, {"paid_loss": ps.day + ps.month}) for ps, pe in semi for e in evs[:2]])
    nested = [(D(2021, 1, 1), D(2021, 1, 31)), (D(2021, 1, 1), D(2021, 3, 31)), (D(2021, 1, 1), D(2021, 6, 30)),
              (D(2021, 2, 1), D(2021, 3, 31)), (D(2021, 4, 1), D(2021, 6, 30)), (D(2021, 6, 1), D(2021, 6, 30))]
    fam("J:nested-and-shared-starts", lambda: [_cum(ps, pe, e, {"paid_loss": 1 + i + 10 * j})
                                               for i, (ps, pe) in enumerate(nested) for j, e in enumerate(evs)])
    gaps = [q for i, q in enumerate(_months(2020, 1, 14)) if i in (0, 2, 5, 9, 13)]
    rag1, rag2 = Metadata(details={"lob": "a"}), Metadata(details={"lob": "b"})
    fam("J:gaps-and-per-slice-ragged", lambda: [_cum(ps, pe, e, {"paid_loss": i + j + 1}, m)
                                                for m, sel in ((rag1, gaps), (rag2, gaps[1:4]))
                                                for i, (ps, pe) in enumerate(sel)
                                                for j, e in enumerate([month_end(2021, 3), month_end(2021, 6), month_end(2021, 12)][: 3 - (i % 2)])])
    return out


def aggregate_args():
    """Argument sets every hardening triangle is aggregated with (family K: unit spellings, boundary quantities)."""
    base = {"period_origin": D(1999, 12, 31), "eval_origin": D(1999, 12, 31), "summarize_premium": True}
    return [
        {**base, "period_resolution": (3, "month"), "eval_resolution": None},
        {**base, "period_resolution": (1, "YEAR"), "eval_resolution": (3, "Months")},
        {**base, "period_resolution": None, "eval_resolution": (1, "Quarter")},
        {**base, "period_resolution": (6, "MONTHS"), "eval_resolution": (2, "quarters "), "summarize_premium": False},
        {**base, "period_resolution": (1, "month"), "eval_resolution": (1, " month")},
        {**base, "period_resolution": (400, "months"), "eval_resolution": None, "period_origin": D(1999, 12, 31)},
    ]
