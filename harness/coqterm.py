"""Print Python/bermuda objects as Coq terms of Model/Base.v, plus a strict Python canonical form.

Numbers must be dyadic multiples of 1/1024 (the generators guarantee it); anything else raises
NotRepresentable so that a case is skipped rather than silently rounded."""
from __future__ import annotations

import datetime

import numpy as np

SCALE = 1024


class NotRepresentable(Exception):
    pass


def cstr(s: str) -> str:
    b = s.encode("utf-8")
    return "(" + "[" + ";".join(str(x) for x in b) + "]" + ":str)"


def copt(x, f) -> str:
    return "None" if x is None else f"(Some {f(x)})"


def _n1024(x) -> int:
    if isinstance(x, (bool, np.bool_)):
        raise NotRepresentable("bool as number")
    if isinstance(x, (int, np.integer)):
        return int(x) * SCALE
    if isinstance(x, (float, np.floating)):
        y = float(x) * SCALE
        if y != y or y in (float("inf"), float("-inf")) or y != int(y) or abs(y) > 2**60:
            raise NotRepresentable(f"float {x!r} is not a small dyadic")
        return int(y)
    raise NotRepresentable(f"not a number: {type(x)}")


def zlit(n: int) -> str:
    return f"({n})" if n < 0 else str(n)


def cnum(x) -> str:
    isf = isinstance(x, (float, np.floating))
    return f"(Num {'true' if isf else 'false'} {zlit(_n1024(x))})"


def cdate(d: datetime.date) -> str:
    return str(d.toordinal())


def cmval(v) -> str:
    if v is None:
        return "MNone"
    if isinstance(v, (bool, np.bool_)):
        return f"(MBool {'true' if v else 'false'})"
    if isinstance(v, str):
        return f"(MStr {cstr(v)})"
    if isinstance(v, datetime.date):
        return f"(MDate {cdate(v)})"
    if isinstance(v, (int, float, np.integer, np.floating)):
        return f"(MNum {cnum(v)})"
    raise NotRepresentable(f"metadata value {type(v)}")


def cvalue(v) -> str:
    if v is None:
        return "VNone"
    if isinstance(v, np.ndarray):
        if v.ndim != 1:
            raise NotRepresentable("array rank != 1")
        isf = v.dtype.kind == "f"
        if v.dtype.kind not in "fi":
            raise NotRepresentable(f"array dtype {v.dtype}")
        xs = [float(x) if isf else int(x) for x in v.tolist()]
        return f"(VArr {'true' if isf else 'false'} [" + ";".join(zlit(_n1024(x)) for x in xs) + "])"
    if isinstance(v, (bool, np.bool_)):
        raise NotRepresentable("bool cell value")
    return f"(VNum {cnum(v)})"


def cdict(d: dict, fv) -> str:
    return "[" + ";".join(f"({cstr(k)},{fv(v)})" for k, v in d.items()) + "]"


def cmeta(m) -> str:
    return (
        f"(mkMeta {copt(m.risk_basis, cstr)} {copt(m.country, cstr)} {copt(m.currency, cstr)} "
        f"{copt(m.reinsurance_basis, cstr)} {copt(m.loss_definition, cstr)} "
        f"{copt(m.per_occurrence_limit, cnum)} {cdict(m.details, cmval)} {cdict(m.loss_details, cmval)})"
    )


def ckind(c) -> str:
    return {"Cell": "KCell", "CumulativeCell": "KCum", "IncrementalCell": "KInc"}[type(c).__name__]


def ccell(c) -> str:
    prev = getattr(c, "prev_evaluation_date", None) if type(c).__name__ == "IncrementalCell" else None
    return (
        f"(mkCell {ckind(c)} {cdate(c.period_start)} {cdate(c.period_end)} {cdate(c.evaluation_date)} "
        f"{copt(prev, cdate)} {cmeta(c.metadata)} {cdict(c.values, cvalue)})"
    )


def ccells(cells) -> str:
    return "[" + ";\n  ".join(ccell(c) for c in cells) + "]"


ERR = {
    "TriangleError": "TriangleError",
    "TriangleEmptyError": "TriangleError",
    "ValueError": "ValueError",
    "TypeError": "TypeError",
    "IndexError": "IndexError",
    "KeyError": "KeyError",
}


def cerr(ex: BaseException) -> str:
    for k in type(ex).__mro__:
        if k.__name__ in ERR:
            return ERR[k.__name__]
    return "OtherError"


def cresult_cells(thunk) -> str:
    """Run thunk() -> Triangle or list of cells; print `Ok [...]` / `Err e`."""
    try:
        r = thunk()
    except NotRepresentable:
        raise
    except Exception as ex:  # noqa: BLE001
        return f"(Err {cerr(ex)})"
    cells = r.cells if hasattr(r, "cells") else list(r)
    return f"(Ok {ccells(cells)})"


# ---------------------------------------------------------------- strict Python canonical form
def canon_value(v):
    if v is None:
        return ("none",)
    if isinstance(v, np.ndarray):
        return ("arr", str(v.dtype), v.shape, v.tobytes().hex())
    if isinstance(v, (bool, np.bool_)):
        return ("bool", bool(v))
    if isinstance(v, (int, np.integer)):
        return ("int", int(v))
    if isinstance(v, (float, np.floating)):
        return ("float", float(v).hex())
    return ("other", repr(v))


def canon_mval(v):
    if isinstance(v, datetime.date):
        return ("date", v.isoformat())
    if isinstance(v, str):
        return ("str", v)
    return canon_value(v)


def canon_meta(m, ordered=False):
    d = [(k, canon_mval(v)) for k, v in m.details.items()]
    ld = [(k, canon_mval(v)) for k, v in m.loss_details.items()]
    if not ordered:
        d, ld = sorted(d), sorted(ld)
    return (m.risk_basis, m.country, m.currency, m.reinsurance_basis, m.loss_definition,
            canon_mval(m.per_occurrence_limit), tuple(d), tuple(ld))


def canon_cell(c, ordered=False):
    vals = [(k, canon_value(v)) for k, v in c.values.items()]
    if not ordered:
        vals = sorted(vals)
    prev = getattr(c, "prev_evaluation_date", None)
    return (type(c).__name__, c.period_start.isoformat(), c.period_end.isoformat(),
            c.evaluation_date.isoformat(), prev.isoformat() if prev else None,
            canon_meta(c.metadata, ordered), tuple(vals))


def canon_tri(t, ordered=False):
    return tuple(canon_cell(c, ordered) for c in (t.cells if hasattr(t, "cells") else t))


COQ_HEADER = """From Coq Require Import ZArith List Bool.
From Bermuda Require Import Model.Base.
Import ListNotations.
Local Open Scope Z_scope.
"""


# ---------------------------------------------------------------- JSON-able descriptions (replays)
def _val_to_obj(v):
    if v is None:
        return None
    if isinstance(v, np.ndarray):
        return {"array": v.tolist(), "dtype": str(v.dtype)}
    if isinstance(v, (bool, np.bool_)):
        return {"bool": bool(v)}
    if isinstance(v, (int, np.integer)):
        return {"int": int(v)}
    if isinstance(v, (float, np.floating)):
        return {"float": float(v)}
    if isinstance(v, datetime.date):
        return {"date": v.isoformat()}
    if isinstance(v, str):
        return {"str": v}
    return {"repr": repr(v)}


def _val_from_obj(o):
    if o is None:
        return None
    (k, v), = [(k, v) for k, v in o.items() if k != "dtype"]
    if k == "array":
        return np.array(v, dtype=o["dtype"])
    if k == "date":
        return datetime.date.fromisoformat(v)
    if k in ("bool", "int", "float", "str"):
        return {"bool": bool, "int": int, "float": float, "str": str}[k](v)
    raise ValueError(o)


def meta_to_obj(m):
    return {"risk_basis": m.risk_basis, "country": m.country, "currency": m.currency,
            "reinsurance_basis": m.reinsurance_basis, "loss_definition": m.loss_definition,
            "per_occurrence_limit": _val_to_obj(m.per_occurrence_limit),
            "details": {k: _val_to_obj(v) for k, v in m.details.items()},
            "loss_details": {k: _val_to_obj(v) for k, v in m.loss_details.items()}}


def meta_from_obj(o):
    from bermuda import Metadata

    return Metadata(risk_basis=o["risk_basis"], country=o["country"], currency=o["currency"],
                    reinsurance_basis=o["reinsurance_basis"], loss_definition=o["loss_definition"],
                    per_occurrence_limit=_val_from_obj(o["per_occurrence_limit"]),
                    details={k: _val_from_obj(v) for k, v in o["details"].items()},
                    loss_details={k: _val_from_obj(v) for k, v in o["loss_details"].items()})


def cell_to_obj(c):
    prev = getattr(c, "prev_evaluation_date", None)
    return {"class": type(c).__name__, "period_start": c.period_start.isoformat(),
            "period_end": c.period_end.isoformat(), "evaluation_date": c.evaluation_date.isoformat(),
            "prev_evaluation_date": prev.isoformat() if prev else None,
            "metadata": meta_to_obj(c.metadata), "values": {k: _val_to_obj(v) for k, v in c.values.items()}}


def cell_from_obj(o):
    import bermuda

    D = datetime.date.fromisoformat
    kw = dict(period_start=D(o["period_start"]), period_end=D(o["period_end"]),
              evaluation_date=D(o["evaluation_date"]), metadata=meta_from_obj(o["metadata"]),
              values={k: _val_from_obj(v) for k, v in o["values"].items()})
    if o["class"] == "IncrementalCell":
        kw["prev_evaluation_date"] = D(o["prev_evaluation_date"])
    return getattr(bermuda, o["class"])(**kw)
