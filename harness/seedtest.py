"""Validate one seeded change and run our checks against it.

    python3 harness/seedtest.py <dir with patch.diff, demo.py, meta.json> <ID> [check ids ...] [--suite]

Builds a scratch copy of /repo's HEAD plus the patch under /tmp, confirms the demonstration
(exit 1 with the change, exit 0 without), optionally runs the repository's test suite, runs
`VERIF_REPO=<copy> ./check <ID>` for each requested check and writes what happened into
<dir>/meta.json under "verification".  The scratch copy is removed afterwards.
"""
import json
import os
import shutil
import subprocess
import sys
import tempfile
import time
from pathlib import Path

ROOT = Path(__file__).resolve().parent.parent
PY = "/venv/bin/python"


def sh(cmd, **kw):
    p = subprocess.run(cmd, shell=True, stdout=subprocess.PIPE, stderr=subprocess.STDOUT, text=True, **kw)
    return p.returncode, p.stdout


def main():
    args = [a for a in sys.argv[1:] if not a.startswith("--")]
    suite = "--suite" in sys.argv
    d = Path(args[0]).resolve()
    checks = args[1:]
    tmp = Path(tempfile.mkdtemp(prefix="seedtest-", dir="/tmp"))
    copy = tmp / "repo"
    try:
        sh(f"git -C /repo worktree add -q --detach {copy} HEAD")
        env = dict(os.environ, PYTHONPATH=str(copy), PYTHONHASHSEED="0", PYTHONDONTWRITEBYTECODE="1")
        rc0, out0 = sh(f"{PY} {d/'demo.py'}", env=env, cwd=str(tmp))
        rc, out = sh(f"git -C {copy} apply {d/'patch.diff'}")
        if rc != 0:
            print("patch does not apply:", out)
            return 2
        rc1, out1 = sh(f"{PY} {d/'demo.py'}", env=env, cwd=str(tmp))
        res = {"demo_exit_clean": rc0, "demo_exit_patched": rc1, "demo_output_patched": out1[-600:],
               "at": time.strftime("%Y-%m-%d %H:%M:%S"), "repo_head": sh("git -C /repo rev-parse --short HEAD")[1].strip()}
        if suite:
            rcs, outs = sh(f"cd {copy} && {PY} -m pytest -q -p no:cacheprovider --timeout=900 "
                           f"-k 'not plot_drip and not plot_hose' 2>&1 | tail -3", env=env)
            res["suite"] = outs.strip().splitlines()[-1] if outs.strip() else ""
        res["checks"] = {}
        for c in checks:
            t = time.time()
            rcc, outc = sh(f"./check {c} --tier quick", cwd=str(ROOT), env=dict(os.environ, VERIF_REPO=str(copy)))
            lines = [l for l in outc.splitlines() if l.startswith(("VIOLATION", "KNOWN-FINDING"))]
            replay_ok = None
            viol = [l for l in lines if l.startswith("VIOLATION")]
            concrete = [l for l in viol if "no-failing-input-found" not in l]
            res["checks"][c] = {"exit": rcc, "violation_lines": viol[:4], "concrete_input": bool(concrete),
                                "wall_s": round(time.time() - t, 1)}
            print(c, "exit", rcc, "|", "; ".join(viol[:2]))
        meta_p = d / "meta.json"
        meta = json.loads(meta_p.read_text()) if meta_p.exists() else {}
        meta["verification"] = res
        meta_p.write_text(json.dumps(meta, indent=1))
        print(json.dumps({k: v for k, v in res.items() if k != "demo_output_patched"}, indent=1))
        return 0
    finally:
        sh(f"git -C /repo worktree remove --force {copy}")
        shutil.rmtree(tmp, ignore_errors=True)
        # the scratch build directories of this copy (build/<ID>-scratch-<hash of its path>) are of no further use
        import hashlib

        tag = "-scratch-" + hashlib.blake2b(str(copy).encode(), digest_size=4).hexdigest()
        for bd in (ROOT / "build").glob("*" + tag):
            shutil.rmtree(bd, ignore_errors=True)


if __name__ == "__main__":
    sys.exit(main())
