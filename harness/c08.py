"""C08 -- aggregation sums exactly the cells it merges and loses nothing.

Every run: T-rules + obligations (GenProps/C08_rules.v, Props/C08.v); correspondence of the real
`aggregate` with Model/Aggregate.v (the fuelled window walk over Calendar.addm / day ordinals) AND with
the loop-free executable specification agg_ref (closed-form windows and evaluation grid), strictly, inside
Coq; independent Python oracles on every case (one cell per slice/window/evaluation date, sums,
conservation per slice and evaluation date, consecutive windows from period_origin, straddle refusal,
evaluation-grid filtering, incremental commutation)."""
from __future__ import annotations

import datetime
import random

import numpy as np

from harness import summ_common as S
from harness.coqterm import COQ_HEADER, NotRepresentable, canon_cell, canon_meta, canon_value, ccells, cerr
from harness.gen import add_m, month_end

D = datetime.date
HEADER = COQ_HEADER.replace("From Bermuda Require Import Model.Base.",
                            "From Bermuda Require Import Model.Base Model.Summarize Model.Aggregate.\nFrom Gen Require Import GenRules.")
PRELUDE = """
Definition A := aggregate wavg_mask rules non_loss.
Definition R := agg_ref wavg_mask rules non_loss.
Definition case (a : agg_args) (t : list cell) (impl : result (list cell)) : bool * bool :=
  (result_ueqb (A a t) impl, result_ueqb (R a t) impl).
"""
class _Units:
    """Own reading of the documented unit vocabulary: month(s) / quarter(s) / year(s) / day(s) / week(s), any
    letter case, surrounding blanks allowed."""
    TAGS = {"month": "UMonth", "quarter": "UQuarter", "year": "UYear", "day": "UDay", "week": "UWeek"}

    def __getitem__(self, u):
        w = u.strip().lower()
        w = w[:-1] if w.endswith("s") else w
        return self.TAGS[w]


UNITS = _Units()


def std(res):
    """Independent reading of the documented unit vocabulary -> (quantity, 'month'|'day')."""
    if res is None:
        return None
    q, u = res
    tag = UNITS[u]
    return {"UMonth": (q, "month"), "UQuarter": (3 * q, "month"), "UYear": (12 * q, "month"),
            "UDay": (q, "day"), "UWeek": (7 * q, "day")}[tag]


def mid(d):
    return 12 * (d.year - 1970) + d.month - 1


def mstart(i):
    return D(1970 + i // 12, i % 12 + 1, 1)


def mend(i):
    return mstart(i + 1) - datetime.timedelta(days=1)


def is_mend(d):
    return (d + datetime.timedelta(days=1)).day == 1


def window_of(res, origin, d):
    q, u = res
    if u == "day":
        k = ((d - origin).days - 1) // q
        return origin + datetime.timedelta(days=1 + k * q), origin + datetime.timedelta(days=(k + 1) * q)
    o = mid(origin)
    k = (mid(d) - (o + 1)) // q
    return mstart(o + 1 + k * q), mend(o + (k + 1) * q)


def on_grid(res, origin, e):
    q, u = res
    if u == "day":
        return (e - origin).days % q == 0
    return is_mend(e) and (mid(e) - mid(origin)) % q == 0


def cargs(args):
    def cres(r):
        if r is None:
            return "None"
        return f"(Some (standardize {r[0]} {UNITS[r[1]]}))"
    return (f"(mkArgs {cres(args['period_resolution'])} {cres(args['eval_resolution'])} "
            f"{args['period_origin'].toordinal()} {args['eval_origin'].toordinal()} {str(args['summarize_premium']).lower()})")


def args_to_data(a):
    return {k: (v.isoformat() if isinstance(v, D) else list(v) if isinstance(v, tuple) else v) for k, v in a.items()}


def args_from_data(d):
    out = {}
    for k, v in d.items():
        if k.endswith("origin"):
            out[k] = D.fromisoformat(v)
        elif k.endswith("resolution"):
            out[k] = tuple(v) if v is not None else None
        else:
            out[k] = v
    return out


def run_aggregate(cells, args, twice=False):
    from bermuda import Triangle

    t = Triangle(cells)
    if twice:
        st, r, fails = S.run_twice(t, lambda: t.aggregate(**args))
        return t, (st, r), fails
    return t, S.run_impl(lambda: t.aggregate(**args)), []


# ------------------------------------------------------------------------------------------ oracle
def in_domain(cells, args):
    """The scope of the C08 theorems: quantities >= 1; month units need a month-end origin (any year);
    the triangle itself need not be month-aligned."""
    pr, er = std(args["period_resolution"]), std(args["eval_resolution"])
    for r, o in ((pr, args["period_origin"]), (er, args["eval_origin"])):
        if r is None:
            continue
        if r[0] < 1:
            return False
        if r[1] == "month" and not is_mend(o):
            return False
    return True


def expected_cum(cells, args, notes):
    """Independent statement of C08 on a cumulative triangle.  -> ('err', class) | ('ok', list of
    (slice canon, ps, pe, ev, group cells)) | None when outside the domain."""
    pr, er = std(args["period_resolution"]), std(args["eval_resolution"])
    slices = {}
    for c in cells:
        slices.setdefault(S.meta_key(c.metadata), []).append(c)     # never Metadata.__hash__/__eq__
    out = []
    straddle = False
    for m, sl in slices.items():
        kept = [c for c in sl if er is None or on_grid(er, args["eval_origin"], c.evaluation_date)]
        if pr is None:
            out += [(m, c.period_start, c.period_end, c.evaluation_date, [c], True) for c in kept]
            continue
        if not kept:
            notes.append("emptied-slice")     # the evaluation grid removed every cell: the slice contributes nothing (F24)
            continue
        groups = {}
        for c in sorted(kept, key=lambda c: (c.period_start, c.period_end, c.evaluation_date)):
            ws, we = window_of(pr, args["period_origin"], c.period_start)
            if c.period_end > we:
                straddle = True
            groups.setdefault((ws, we, c.evaluation_date), []).append(c)
        out += [(m, ws, we, e, g, False) for (ws, we, e), g in groups.items()]
    if straddle:
        return ("err", "TriangleError")
    return ("ok", out)


def check_cum(cells, args, status, res, notes):
    fails = []
    exp = expected_cum(cells, args, notes)
    if exp is None:
        return fails
    if exp[0] == "err":
        if status == "ok":
            fails.append("a period straddling a window boundary was not refused")
        elif cerr(res) != exp[1]:
            fails.append(f"straddling period: raised {type(res).__name__}, not TriangleError")
        return fails
    if status == "err":
        fails.append(f"valid aggregation refused with {type(res).__name__}: {res}")
        return fails
    prem = args["summarize_premium"]
    if std(args["period_resolution"]) is None:
        want = sorted(repr(canon_cell(g[0])) for _, _, _, _, g, _ in exp[1])
        have = sorted(repr(canon_cell(o)) for o in res)
        if want != have:
            fails.append(f"evaluation-only aggregation must keep exactly the cells whose evaluation date is on the grid: "
                         f"{len(have)} cells returned, {len(want)} expected")
        return fails
    got = {}
    for o in res:
        key = (S.meta_key(o.metadata), o.period_start, o.period_end, o.evaluation_date)
        if key in got:
            fails.append(f"two output cells for slice/window/evaluation date {key[1:]}")
        got[key] = o
    want_keys = set()
    for m, ws, we, e, g, passthrough in exp[1]:
        key = (m, ws, we, e)
        want_keys.add(key)
        o = got.get(key)
        if o is None:
            fails.append(f"no output cell for window {ws}..{we} at {e} (sources {[(c.period_start, c.period_end) for c in g]})")
            continue
        if passthrough:
            if canon_cell(o) != canon_cell(g[0]):
                fails.append(f"evaluation-only aggregation changed the cell at {ws}..{we} {e}")
            continue
        if type(o).__name__ != "CumulativeCell":
            fails.append(f"output cell class {type(o).__name__}")
        if canon_meta(o.metadata) not in [canon_meta(c.metadata) for c in g]:
            fails.append(f"output metadata {o.metadata} is not the metadata of a source cell of window {ws}..{we} at {e}")
        gk = {k for c in g for k in c.values}
        if set(o.values) != gk:
            fails.append(f"key set {sorted(o.values)} != {sorted(gk)} for window {ws}..{we} at {e}")
            continue
        for k in gk:
            vals = [c.values.get(k) for c in g]
            if not prem and k in S.NON_LOSS:
                if canon_value(o.values[k]) not in [canon_value(v) for v in vals]:
                    fails.append(f"summarize_premium=False: {k} = {o.values[k]!r} is no source cell's value {vals!r}")
                continue
            if k in S.RATIO:
                continue
            want = S.exact_total(vals)
            if want is None or S.value_as_exact(o.values[k]) != want:
                fails.append(f"{k} of window {ws}..{we} at {e}: got {o.values[k]!r}, sum of the {len(g)} source cells is {want!r}")
    extra = set(got) - want_keys
    if extra:
        fails.append(f"unexpected output cells {sorted(x[1:] for x in extra)[:3]}")
    # conservation per slice and evaluation date
    if not fails:
        tot_in, tot_out = {}, {}
        for m, ws, we, e, g, _ in exp[1]:
            for c in g:
                for k, v in c.values.items():
                    if k in S.RATIO or (not prem and k in S.NON_LOSS):
                        continue
                    tot_in.setdefault((m, e, k), []).append(v)
        for o in res:
            for k, v in o.values.items():
                if k in S.RATIO or (not prem and k in S.NON_LOSS):
                    continue
                tot_out.setdefault((S.meta_key(o.metadata), o.evaluation_date, k), []).append(v)
        for key in set(tot_in) | set(tot_out):
            a, b = S.exact_total(tot_in.get(key, [])), S.exact_total(tot_out.get(key, []))
            if a is not None and b is not None and a[1] != b[1]:
                fails.append(f"total of {key[2]} at {key[1]} not conserved: {a} -> {b}")
    return fails


def py_to_cumulative(cells):
    """Independent cumulation of an incremental triangle (never the library's basis.py): per slice and
    period, in evaluation order, running totals in FRESH objects; `earned_premium` carries the latest
    value.  None when the chain is broken / key sets differ (that is C04's business)."""
    from bermuda import CumulativeCell

    rows = {}
    for c in cells:
        rows.setdefault((S.meta_key(c.metadata), c.period_start, c.period_end), []).append(c)
    out = []
    for (_, ps, pe), row in rows.items():
        row = sorted(row, key=lambda c: (c.evaluation_date, c.prev_evaluation_date))
        m = row[0].metadata
        if row[0].prev_evaluation_date + datetime.timedelta(days=1) != ps:
            return None
        cur, cur_ev = None, None
        for c in row:
            if cur is None:
                cur = {k: (v.copy() if isinstance(v, np.ndarray) else v) for k, v in c.values.items()}
            else:
                if c.prev_evaluation_date != cur_ev or set(c.values) != set(cur) or any(v is None for v in c.values.values()):
                    return None
                cur = {k: (c.values[k] if k == "earned_premium" else cur[k] + c.values[k]) for k in cur}
            if any(v is None for v in cur.values()):
                return None
            cur_ev = c.evaluation_date
            out.append(CumulativeCell(period_start=ps, period_end=pe, evaluation_date=c.evaluation_date, metadata=m,
                                      values={k: (v.copy() if isinstance(v, np.ndarray) else v) for k, v in cur.items()}))
    return out


def py_to_incremental(cells):
    """Independent differencing of a cumulative triangle -> canonical forms of the incremental cells."""
    from bermuda import IncrementalCell

    rows = {}
    for c in cells:
        rows.setdefault((S.meta_key(c.metadata), c.period_start, c.period_end), []).append(c)
    out = []
    for (_, ps, pe), row in rows.items():
        row = sorted(row, key=lambda c: c.evaluation_date)
        m = row[0].metadata
        prev_c = None
        for c in row:
            if prev_c is None:
                vals, prev = dict(c.values), ps - datetime.timedelta(days=1)
            else:
                if set(c.values) != set(prev_c.values):
                    return None
                vals = {k: (c.values[k] if k == "earned_premium" else c.values[k] - prev_c.values[k]) for k in c.values}
                prev = prev_c.evaluation_date
            out.append(IncrementalCell(period_start=ps, period_end=pe, prev_evaluation_date=prev,
                                       evaluation_date=c.evaluation_date, metadata=m, values=vals))
            prev_c = c
    return out


def aggregate_oracle(tcells, args, status, res, notes):
    """C08 judged on the implementation's result; only in-domain cases are judged."""
    from bermuda import Triangle

    if not tcells:                             # the empty triangle aggregates to the empty triangle (F22)
        if status == "err":
            return [f"empty triangle: raised {type(res).__name__}"]
        return [] if res == [] else [f"empty triangle aggregated to {len(res)} cells"]
    if not in_domain(tcells, args):
        return []
    if any(k.lower() not in S.ADDITIVE or k != k.lower() for c in tcells for k in c.values):
        return []
    for k in {k for c in tcells for k in c.values}:
        if not S.group_is_clean([c.values.get(k) for c in tcells]):
            return []
    inc = type(tcells[0]).__name__ == "IncrementalCell"
    if not inc:
        return check_cum(tcells, args, status, res, notes)
    # incremental: the result is the incremental form of the aggregated cumulative triangle.  The
    # cumulative form and the final differencing are computed HERE (independently of basis.py)
    cum_cells = py_to_cumulative(tcells)
    if cum_cells is None:                      # broken chain / inconsistent keys: C04's business
        return []
    cum = Triangle(cum_cells)
    st2, res2 = S.run_impl(lambda: cum.aggregate(**args))     # cumulative path: does not touch basis.py
    fails = check_cum(list(cum.cells), args, st2, res2, notes)
    if st2 == "err":
        if status != "err" or cerr(res) != cerr(res2):
            fails.append("incremental input: refusal differs from that of the cumulative form")
        return fails
    want = py_to_incremental(res2)
    if want is None:
        return fails
    if status == "err":
        fails.append(f"incremental input refused with {type(res).__name__} although its cumulative form aggregates")
    elif sorted(map(repr, map(canon_cell, res))) != sorted(map(repr, map(canon_cell, want))):
        got = {(c.period_start, c.evaluation_date): dict(c.values) for c in res}
        exp = {(c.period_start, c.evaluation_date): dict(c.values) for c in want}
        diff = [(k, got.get(k), exp.get(k)) for k in sorted(set(got) | set(exp), key=str) if repr(got.get(k)) != repr(exp.get(k))][:2]
        fails.append(f"aggregate(incremental x) != incremental form of aggregate(cumulative form of x): (coordinate, got, want) {diff}")
    return fails


# ------------------------------------------------------------------------------------------ generator
class AggGen(S.SummGen):
    def agg_case(self):
        from bermuda import CumulativeCell, IncrementalCell

        r = self.r
        u = r.random()
        if u < 0.004:                          # the empty triangle
            ch = [None, (1, "year"), (3, "months"), (7, "days")]
            args = {"period_resolution": r.choice(ch), "eval_resolution": r.choice(ch), "period_origin": D(1999, 12, 31),
                    "eval_origin": D(1999, 12, 31), "summarize_premium": True}
            return [], args, {"kind": "empty", "basis": "cum", "layout": "empty", "n_cells": 0, "slice_diff": None,
                              "period_resolution": args["period_resolution"], "eval_resolution": args["eval_resolution"]}
        kind = "monthly" if u < 0.72 else "daily" if u < 0.88 else "straddle"
        basis = r.choice(["cum", "cum", "cum", "inc"])
        n_slices = r.choice([1, 1, 2, 3])
        ms, slice_diff = self.metas(n_slices, None)
        layout = "daily" if kind == "daily" else r.choice(["regular", "regular", "ragged", "ragged", "holey", "irregular", "single_period"])
        res = r.choice([1, 3, 6, 12])
        vk = r.choice(["int", "int", "float", "arr_int", "arr_float"])
        n_lags = r.randint(3, 5) if (basis == "inc" and (vk.startswith("arr") or r.random() < 0.5)) else r.randint(1, 4)
        rows, res = self.coords(layout, res, r.randint(2, 6), n_lags)
        fields = r.sample(S.ADDITIVE, r.randint(1, 3))
        n_samples = r.choice([2, 3])
        cells = []
        respelled = 0
        mixed_kinds = basis == "cum" and r.random() < 0.05
        for m in ms:
            rows_s = rows if r.random() < 0.8 else rows[r.randint(0, len(rows) - 1):]
            sf = fields if r.random() < 0.7 else r.sample(fields, r.randint(1, len(fields)))
            flavour = r.choice(["ts", "dt"]) if r.random() < 0.08 else "date"
            # one slice, two spellings of its (equal) metadata, alternating cell by cell -- cumulative input only:
            # the incremental path goes through Model/Basis.v, which groups rows by the printed metadata
            spell = S.respell(m) if (basis == "cum" and r.random() < 0.2) else (m, m)
            respelled += spell[0] is not m
            n_in_slice = 0
            for ps, pe, evs in rows_s:
                prev = ps - datetime.timedelta(days=1)
                rf = sf if (basis == "inc" or r.random() < 0.85) else r.sample(sf, r.randint(1, len(sf)))
                for e in evs:
                    vals = {f: self.field_value(vk if not mixed_kinds else r.choice(["int", "float", "arr_int", "arr_float"]), f, n_samples)
                            for f in rf}
                    if basis == "cum" and r.random() < 0.06:
                        f0 = r.choice(rf)
                        vals[f0] = None if r.random() < 0.5 else vals[f0] * 0
                    if basis == "inc":
                        cells.append(S.mk_cell(IncrementalCell, flavour, ps, pe, e, vals, m, prev=prev))
                        prev = e
                    else:
                        cells.append(S.mk_cell(CumulativeCell, flavour, ps, pe, e, vals, spell[n_in_slice % 2]))
                        n_in_slice += 1
        prem = r.random() < 0.85
        if basis == "cum" and r.random() < 0.06 and (prem or model_sort_is_stable()):                # restated cells
            for c in r.sample(cells, min(len(cells), r.randint(1, 3))):
                v2 = {k: (v if v is None else v + v) for k, v in c.values.items()}
                cells.append(S.mk_cell(type(c), "date", c.period_start, c.period_end, c.evaluation_date, v2, c.metadata))
        lo = min(c.period_start for c in cells)
        hi = max(c.evaluation_date for c in cells)
        evs_all = sorted({c.evaluation_date for c in cells})
        one = datetime.timedelta(days=1)
        if kind == "daily":
            plen = (cells[0].period_end - cells[0].period_start).days + 1
            pres = r.choice([None, (7, "day"), (1, "week"), (10, "days"), (2, "weeks"), (1, "day"), (30, "days"), (3, "days"),
                             (plen, "days"), (2 * plen, "day"), (3 * plen, "days")])
            eres = r.choice([None, None, (7, "days"), (1, "week"), (1, "day"), (30, "day"), (10, "days")])
            pq = std(pres)[0] if pres else 1
            eq = std(eres)[0] if eres else 1
            def p_origin():
                if r.random() < 0.7:
                    return lo - one + datetime.timedelta(days=pq * r.randint(-6, 12))
                return r.choice([D(1999, 12, 31), lo - datetime.timedelta(days=r.randint(1, 40)),
                                 lo + datetime.timedelta(days=r.randint(0, 60)), hi + datetime.timedelta(days=r.randint(0, 30))])
            def e_origin():
                if r.random() < 0.8:
                    return r.choice(evs_all) + datetime.timedelta(days=eq * r.randint(-6, 12))
                return r.choice([D(1999, 12, 31), hi + datetime.timedelta(days=r.randint(0, 30)), lo - datetime.timedelta(days=r.randint(1, 40))])
        else:
            choices = [(1, "month"), (3, "months"), (1, "quarter"), (6, "month"), (2, "quarters"), (1, "year"), (12, "months"), (2, "years")]
            fit = [c for c in choices if std(c)[0] % res == 0] if layout != "irregular" else choices
            pres = r.choice([None] + (fit * 3 if r.random() < 0.8 else choices))
            eres = r.choice([None, None, None] + choices)
            if kind == "straddle":
                pres = r.choice([(2, "months"), (5, "month"), (1, "quarter"), (1, "year"), (9, "months")])
            pq = std(pres)[0] if pres else 1
            eq = std(eres)[0] if eres else 1
            def p_origin():
                w = r.random()
                if w < 0.65 and kind != "straddle":      # aligned with the first period, before/inside/after the data
                    return month_end(*add_m(lo.year, lo.month, -1 + pq * r.randint(-4, 8)))
                if w < 0.8:
                    return D(1999, 12, 31)
                return month_end(*add_m(lo.year, lo.month, r.randint(-40, 40)))
            def e_origin():
                w = r.random()
                if w < 0.75:
                    e0 = r.choice(evs_all)
                    return month_end(*add_m(e0.year, e0.month, eq * r.randint(-4, 8)))
                if w < 0.85:
                    return D(1999, 12, 31)
                return month_end(*add_m(hi.year, hi.month, r.randint(-30, 30)))
        if pres is None and eres is None:
            pres = (1, "year") if kind != "daily" else (7, "days")
        args = {"period_resolution": pres, "eval_resolution": eres, "period_origin": p_origin(), "eval_origin": e_origin(),
                "summarize_premium": prem}
        info = {"kind": kind, "basis": basis, "n_slices": len(ms), "slice_diff": slice_diff, "layout": layout, "res": res,
                "values": vk, "respelled_slices": respelled, "n_cells": len(cells), "period_resolution": pres, "eval_resolution": eres}
        return cells, args, info


def model_sort_is_stable():
    """Model/Aggregate.v's sort_coords keeps the input order of cells with equal coordinates (as Python's sorted)
    once coord_insert inserts before the first not-strictly-smaller element; until then restated cells are only
    fed in configurations whose result does not depend on the order of ties."""
    from harness.common import COQ

    return "if coord_ltb y x then y :: coord_insert x t else x :: l" in (COQ / "Model" / "Aggregate.v").read_text()


def directed_cases():
    """Probes of the repaired defects F24 (a slice emptied by the evaluation grid) and F22 (empty triangle)."""
    from bermuda import CumulativeCell, Metadata

    base = {"period_origin": D(1999, 12, 31), "eval_origin": D(1999, 12, 31), "summarize_premium": True}
    q = [CumulativeCell(D(2020, 1, 1), D(2020, 3, 31), e, {"paid_loss": v}) for e, v in ((D(2020, 3, 31), 1), (D(2020, 6, 30), 2))]
    two = q + [CumulativeCell(D(2020, 1, 1), D(2020, 3, 31), D(2020, 12, 31), {"paid_loss": 5}, Metadata(country="US"))]
    info = {"basis": "cum", "layout": "directed", "n_cells": 0, "slice_diff": None}
    out = []
    from bermuda import IncrementalCell
    evs = [D(2020, 6, 30), D(2020, 9, 30), D(2020, 12, 31), D(2021, 3, 31)]
    for arr in (True, False):
        inc = []
        for qi, (ps, pe) in enumerate(((D(2020, 1, 1), D(2020, 3, 31)), (D(2020, 4, 1), D(2020, 6, 30)))):
            prev = ps - datetime.timedelta(days=1)
            for ei, e in enumerate(evs):
                b = 100 * (qi + 1) + 10 * ei
                inc.append(IncrementalCell(period_start=ps, period_end=pe, prev_evaluation_date=prev, evaluation_date=e,
                                           values={"paid_loss": np.array([b, b + 1, b + 2]) if arr else b}))
                prev = e
        out.append((inc, {**base, "period_resolution": (6, "month"), "eval_resolution": None},
                    {**info, "basis": "inc", "kind": "directed:incremental-arrays" if arr else "directed:incremental-scalars",
                     "period_resolution": (6, "month"), "eval_resolution": None}))
    ma, mb = S.respell(Metadata(), {"coverage": "BI", "state": "NY", "limit": 7})
    from harness.gen import month_end as _me
    alt = [CumulativeCell(D(2021, mth, 1), _me(2021, mth), e, {"paid_loss": 10 * mth + i}, (ma, mb)[mth % 2])
           for mth in range(1, 10) for i, e in enumerate((D(2021, 9, 30), D(2021, 12, 31), D(2022, 3, 31)))]
    other = [CumulativeCell(D(2021, mth, 1), _me(2021, mth), D(2021, 12, 31), {"paid_loss": mth}, Metadata(country="US"))
             for mth in range(1, 7)]
    for cells, kind in ((alt, "directed:respelled-metadata"), (alt + other, "directed:respelled-metadata-two-slices")):
        out.append((cells, {**base, "period_resolution": (3, "month"), "eval_resolution": None},
                    {**info, "kind": kind, "period_resolution": (3, "month"), "eval_resolution": None}))
    for cells, pres, eres, kind in ((q, (1, "year"), (1, "year"), "directed:F24"), (two, (1, "year"), (1, "year"), "directed:F24-two-slices"),
                                    ([], (1, "year"), None, "directed:F22"), ([], None, (1, "quarter"), "directed:F22")):
        out.append((cells, {**base, "period_resolution": pres, "eval_resolution": eres},
                    {**info, "kind": kind, "period_resolution": pres, "eval_resolution": eres}))
    return out


def violation_data(tcells, args, fails, info=None):
    return {"op": "aggregate", "cells": S.cells_to_data(tcells), "args": args_to_data(args), "failures": fails[:5], "info": info}


def run(ctx):
    ctx.rule = ("month-aligned triangles of period resolution 1/3/6/12 months (regular, ragged, holey, irregular, single "
                "period), 1-3 slices differing in one attribute or several, any subset of the additive field names per slice/row, "
                "int / dyadic float / int64 / float64-array values, cumulative and incremental; target period and evaluation "
                "resolutions month/quarter/half-year/year/2 years (all unit spellings) x origins at the default, aligned with the "
                "data, at arbitrary month ends up to 40 months away and after the data; day-level triangles with day/week "
                "resolutions and arbitrary origins; resolutions that do not divide / align (straddling) for the refusal; "
                "summarize_premium True/False.  Non-trivial = distinct case with >= 2 cells or a refusal.")
    ctx.assumptions += [
        "resolution_delta on month units is Calendar.addm (integer month shift); its agreement with the float-based "
        "add_months on month-aligned dates 1970-2100 is theorem C12_add_months_agrees_with_Z_calendar of the C12 check",
        "the closed-form theorems (aggregate = agg_ref, no fuel exhaustion) hold for day/week units without bound and for "
        "month units with a month-end origin of any year >= 1 (Z-model; Proofs/CalendarP.v); the Z-model equals the source's "
        "float add_months only where the C12 bridge says so (1970-2100), elsewhere the per-run correspondence is the tie; "
        "non-month-end origins with month units are covered by the correspondence only",
        "incremental input goes through Model/Basis.v (property C04) with the documented carry field earned_premium",
        "unit spellings are mapped to unit tags by the harness's own table (the substring dispatch of standardize_resolution "
        "is checked by C12's probing)",
        "cell values are ints or dyadic floats; Python set/dict iteration order is not modelled (unordered comparison)",
    ]
    ctx.audit_tree(["Model/Aggregate.v", "Model/Summarize.v", "Proofs/Aggregate.v", "Proofs/AggregateGrid.v",
                    "Proofs/AggregateInst.v", "Proofs/AggregateRef.v", "Proofs/CalendarP.v", "Props/C08.v", "GenProps/C08_rules.v"])
    S.prove_static_local(ctx, "Props/C08.v")
    table, nl, gen_ok, props_ok = S.rules_step(ctx, "C08_rules.v")
    if table is not None:
        bad = S.rule_defects(table, nl)
        if bad:
            ctx.log(f"registry entries contradicting the documented registry: {bad}")

    rng = random.Random(ctx.seed * 1000003 + 8)
    g = AggGen(rng)
    n = 1000 if ctx.quick else 8000
    per_file = 85
    files, body, recs, notes = [], [], [], []
    n_fail = 0
    from harness import summ_hard

    directed = directed_cases()
    hargs = summ_hard.aggregate_args()
    for hi, (name, hcells) in enumerate(summ_hard.triangles()):   # notes/HARDENING.md families, every run
        if isinstance(hcells, Exception):
            S.report_family_refused(ctx, name, hcells)
            continue
        for a in [hargs[0]] + [hargs[1 + (hi + j) % (len(hargs) - 1)] for j in range(3)]:
            if name.startswith("I:") and not a["summarize_premium"] and not model_sort_is_stable():
                a = {**a, "summarize_premium": True}
            directed.append((hcells, a, {"kind": "hard:" + name, "basis": "cum", "layout": "directed", "n_cells": len(hcells),
                                         "slice_diff": None, "period_resolution": a["period_resolution"],
                                         "eval_resolution": a["eval_resolution"]}))
    n += len(directed)
    for idx in range(n):
        try:
            cells, args, info = directed[idx] if idx < len(directed) else g.agg_case()
        except Exception as ex:  # noqa: BLE001  (a constructor refused valid generated input)
            S.report_generator_refused(ctx, ex)
            continue
        try:
            t, (status, res), fails_h = run_aggregate(cells, args, twice=idx < len(directed))
        except Exception:  # noqa: BLE001
            ctx.hist("gen:invalid-triangle" + (":" + info["kind"] if info["kind"].startswith("hard:") else ""))
            continue
        tcells = list(t.cells)
        n_notes = len(notes)
        fails = fails_h + aggregate_oracle(tcells, args, status, res, notes)
        if info["kind"].startswith("hard:"):
            ctx.hist("family " + info["kind"][5:6])
        if S.dates_not_plain(tcells) or (status == "ok" and S.dates_not_plain(res)):
            fails.insert(0, "a cell stores a date that is not a plain datetime.date (Cell must normalise Timestamp/datetime inputs)")
        if info["basis"] == "inc" and info.get("values", "").startswith("arr") and len({c.evaluation_date for c in tcells}) >= 3:
            ctx.hist("incremental arrays with >= 3 evaluation dates")
        if info.get("respelled_slices"):
            ctx.hist("slice with equal Metadata spelled differently (key order, 7 vs 7.0)")
        if "emptied-slice" in notes[n_notes:]:
            ctx.hist("slice-emptied-by-eval-grid")
        ctx.hist(f"kind:{info['kind'].split(':')[0]}/{info['basis']}")
        ctx.hist(f"layout:{info['layout']}")
        ctx.hist(f"pres:{info['period_resolution']}")
        ctx.hist(f"eres:{info['eval_resolution']}")
        ctx.hist("result:" + ("ok" if status == "ok" else type(res).__name__))
        ctx.count(evaluations=1)
        if len(tcells) >= 2 or status == "err" or not tcells:
            ctx.nontriv(("agg", S.cells_to_data(tcells), args_to_data(args)))
        if fails:
            n_fail += 1
            if n_fail <= 3:
                fc = None
                if status == "err" and type(res).__name__ == "IndexError" and "emptied-slice" in notes[n_notes:]:
                    fc = {"kind": "aggregate_empty_slice_after_eval_grid"}       # F24 (fixed: suppresses nothing)
                ctx.violation("impl-violation", f"aggregate violates C08: {fails[0]}", violation_data(tcells, args, fails, info),
                              found_input=True, finding_class=fc)
        try:
            term = f"case {cargs(args)} {ccells(tcells)}\n {S.cresult(status, res)}"
        except NotRepresentable:
            ctx.hist("coq:not-representable(skipped)")
            continue
        body.append(term)
        recs.append((tcells, args, info, status, res))
        if idx == 20:
            ctx.sample({"case": violation_data(tcells, args, [], info)})
    # round-robin over the files so that the (heavier) directed cases are spread over all coqc jobs
    nfiles = max(1, min(16, -(-len(body) // 40))) if len(body) <= 16 * per_file else -(-len(body) // per_file)
    files = [(body[i::nfiles], recs[i::nfiles]) for i in range(nfiles) if body[i::nfiles]]
    large_stream(ctx)
    mism = []
    if gen_ok:
        paths = []
        for i, (body, _) in enumerate(files):
            p = ctx.build / f"cases_{i}.v"
            p.write_text(HEADER + PRELUDE + "Definition cases := [\n" + ";\n".join(body) + "].\n"
                         "Eval vm_compute in (failing (map fst cases), failing (map snd cases)).\n")
            paths.append(p)
        ctx.log(f"correspondence: {sum(len(b) for b, _ in files)} cases in {len(paths)} files ...")
        out = ctx.coqc_many(paths, jobs=16, timeout=1500)
        for pth in paths:                      # a transient failure (static tree rebuilt meanwhile, machine overloaded): once more
            if out[pth][0] != 0:
                out[pth] = ctx.coqc(pth, timeout=1500)
        ncase = 0
        for p, (body, recs) in zip(paths, files):
            rc, o = out[p]
            idxs = S.parse_failing(o) if rc == 0 else None
            if idxs is None or len(idxs) != 2:
                mism.append(("coqc-failed", p.name, o[-800:], None))
                continue
            ncase += len(body)
            for which, lst in zip(("model (window walk) != implementation", "agg_spec_b (closed-form windows) false on the implementation's output"), idxs):
                for i in lst:
                    mism.append((which, p.name, i, recs[i]))
        ctx.count(traces=ncase)
        ctx.obligation(f"correspondence aggregate: walk model = implementation = closed-form specification ({ncase} cases)",
                       not mism, repr([(m[0], m[1], m[2]) for m in mism[:5]]))
    for m in mism[:3]:
        if m[3] is None:
            ctx.violation("correspondence", f"case file did not evaluate: {m[1]}", {"file": m[1], "output": m[2]}, found_input=False)
            continue
        tcells, args, info, status, res = m[3]
        fails = aggregate_oracle(tcells, args, status, res, [])
        spec_no = m[0].startswith("agg_spec_b") and in_domain(tcells, args)
        data = violation_data(tcells, args, fails or [m[0]], info)
        data["result"] = "raised " + type(res).__name__ if status == "err" else S.cells_to_data(res)
        ctx.violation("impl-violation" if (fails or spec_no) else "correspondence", f"aggregate: {m[0]} ({info['kind']})", data,
                      found_input=bool(fails or spec_no))


def large_case(name, params, args):
    from bermuda import Triangle
    from harness import summ_large

    cells, given = summ_large.build(name, params)
    fails = summ_large.stored_as_given(given)
    t = Triangle(cells)
    status, res = S.run_impl(lambda: t.aggregate(**args))
    fails += aggregate_oracle(list(t.cells), args, status, res, [])
    return fails, len(cells), status


def early_snapshot():
    from harness.coqterm import canon_tri

    out = []
    for cells, args, _ in directed_cases():
        t, (status, res), _ = run_aggregate(cells, args)
        out.append((status, type(res).__name__ if status == "err" else canon_tri(res)))
    return out


def large_stream(ctx):
    import time

    from harness import summ_large

    t0 = time.time()
    before = early_snapshot()
    for name, params, args in summ_large.cases_c08(ctx.quick):
        try:
            fails, n_cells, status = large_case(name, params, args)
        except Exception as ex:  # noqa: BLE001
            fails, n_cells, status = [f"constructing the valid large input raised {type(ex).__name__}: {ex}"], 0, "err"
        ctx.hist(f"large:{name}")
        ctx.hist("large:cells", n_cells)
        ctx.count(evaluations=1)
        ctx.nontriv(("large", name, sorted(params.items(), key=str), args_to_data(args)))
        if fails:
            ctx.violation("impl-violation", f"aggregate violates C08 on a large input ({name} {params}, {n_cells} cells): {fails[0][:400]}",
                          {"op": "large", "name": name, "params": params, "args": args_to_data(args), "failures": [f[:600] for f in fails[:5]]},
                          found_input=True)
    if early_snapshot() != before:
        ctx.violation("impl-violation", "the earliest small cases give a different result after the large work (process-wide state)",
                      {"op": "large-recheck"}, found_input=True)
    ctx.notes.append(f"large stream: {len(summ_large.cases_c08(ctx.quick))} big cases judged by the Python-side oracles only "
                     f"(no Coq literals; the theorems are size-independent), {time.time() - t0:.1f} s")


def replay(ctx, data):
    if data.get("op") == "large":
        fails, n, status = large_case(data["name"], data["params"], args_from_data(data["args"]))
        print(f"large case {data['name']} {data['params']}: {n} cells, aggregate -> {status}")
        for f in fails:
            print("  FAIL:", f[:300])
        return 1 if fails else 0
    if data.get("op") == "large-recheck":
        large_stream(ctx)
        return 1 if ctx.violations else 0
    if data.get("op") == "build-family":
        return S.replay_family(data)
    if data.get("op") == "state-carry":
        from harness import statecarry

        return statecarry.replay(data)
    cells = S.cells_from_data(data["cells"])
    args = args_from_data(data["args"])
    t, (status, res) = run_aggregate(cells, args)
    fails = aggregate_oracle(list(t.cells), args, status, res, [])
    print(f"aggregate({args}) on {len(cells)} cells ->", "raised " + type(res).__name__ if status == "err" else f"{len(res)} cells")
    if status == "ok":
        for c in res:
            print("  ", c.period_start, c.period_end, c.evaluation_date, dict(c.values))
    for f in fails:
        print("  FAIL:", f)
    return 1 if fails else 0
