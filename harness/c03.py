"""C03 -- no operation mutates its arguments (PARTIAL by design, see coq/Props/C03.v).

  1. proofs        coq/Props/C03.v (frame + alias graph of the heap kernels, mutant examples)
  2. screen        translate/t_inplace.py: in-place statements whose target is not a fresh local are pinned
  3. heap tie      the real kernels run on generated arguments with shared arrays / shared dicts / the
                   same cell twice; argument fingerprints and the id()/shares_memory alias graph of the
                   result are compared with the model's prediction inside coqc (Model/Heap.v `agrees`);
                   the same for 13 + 5 public entry points modelled as kernel compositions (Model/HeapApi.v
                   `agrees_api`, Model/HeapApi2.v `agrees_api2`: period_merge, convert_currency,
                   fill_forward_gaps, backfill, Triangle.derive_metadata)
  4. monitor       harness/monitor.py over every public operation x argument class, and at every
                   position of random operation sequences
Any argument whose fingerprint changes is a violation with the call as replay."""
from __future__ import annotations

import datetime
import importlib
import os
import random
import shutil
import time
import warnings
from concurrent.futures import ProcessPoolExecutor

import numpy as np

from harness import monitor as M
from harness.common import COQ, REPO, ROOT, parse_coq_eval
from harness.coqterm import NotRepresentable, cerr

D = datetime.date
KEYS = {"earned_premium": 0, "paid_loss": 1, "reported_loss": 2, "incurred_loss": 3, "reported_claims": 4,
        "written_premium": 5, "implied_atu": 6, "foo_field": 9}
for _k, _v in list(KEYS.items()):
    KEYS[_k + "_r"] = _v + 100
PS, PE = D(2020, 1, 1), D(2020, 3, 31)

CASE_HEADER = """From Coq Require Import ZArith List Bool.
From Bermuda Require Import Model.Base Model.Heap Model.HeapApi Model.HeapApi2.
Import ListNotations.
Open Scope Z_scope.
(* tag of a cell in the entry-point cases: slice * 10^8 + period * 10^4 + evaluation * 100 + prev code *)
Definition tf_api : tagfns :=
  mkTagfns (fun t => t / 10000) (fun t => t mod 100000000) (fun t => t) (fun t => t / 100)
           (fun t => t / 100000000) (fun t => (t / 10000) mod 10000) (fun t => (t / 100) mod 100)
           (fun t => (t / 100000000) * 100000000 + (((t / 10000) mod 10000) / 4 * 4) * 10000 + ((t / 100) mod 100) * 100)
           (fun k => k) (fun k => k).
Definition cfg_api : cfg :=
  mkCfg Z.mul Z.div None (fun k => negb (k =? 9)) (fun k => (k =? 0) || (k =? 5) || (k =? 6))
        (fun k => if k =? 6 then Some 2 else None)
        (fun a b => b mod 100 =? (a / 100) mod 100 + 2) (fun t => t mod 100 =? (t / 10000) mod 10000 + 1) (fun ks => ks).
Definition cfg_sum : cfg :=
  mkCfg Z.mul Z.div None (fun k => negb (k =? 9)) (fun k => (k =? 0) || (k =? 5) || (k =? 6))
        (fun k => if k =? 6 then Some 2 else None)
        (fun a b => b mod 1000 =? a / 1000 + 1) (fun t => t mod 1000 =? 0) (fun ks => ks).
Definition cfg_log : cfg :=
  mkCfg Z.mul Z.div (Some (fun z => z)) (fun _ => true) (fun _ => false) (fun _ => None)
        (fun _ _ => true) (fun _ => true) (fun ks => ks).
"""


def z(n):
    return f"({n})" if n < 0 else str(n)


def scaled(x, exact):
    if isinstance(x, (bool, np.bool_)):
        raise NotRepresentable("bool")
    if isinstance(x, (int, np.integer)):
        return int(x) * 1024
    y = float(x) * 1024
    if y != y or abs(y) == float("inf") or y != int(y) or abs(y) > 2**62:
        if exact:
            raise NotRepresentable(repr(x))
        return 0
    return int(y)


class Heap:
    """Lays the objects reachable from the arguments out as a Model/Heap.v store."""

    def __init__(self, tag_of):
        self.loc, self.objs, self.terms, self.tag_of = {}, [], [], tag_of

    def val(self, v):
        if v is None:
            return "PNone"
        if isinstance(v, (int, float, np.integer, np.floating)) and not isinstance(v, (bool, np.bool_)):
            return f"(PNum {z(scaled(v, True))})"
        return f"(PRef {self.add(v)}%nat)"

    def add(self, o):
        if id(o) in self.loc:
            return self.loc[id(o)]
        l = len(self.objs)
        self.loc[id(o)] = l
        self.objs.append(o)
        self.terms.append(None)
        if isinstance(o, np.ndarray):
            if o.ndim != 1 or o.dtype.kind not in "fi":
                raise NotRepresentable("array")
            self.terms[l] = "OArr [" + ";".join(z(scaled(x, True)) for x in o.tolist()) + "]"
        elif isinstance(o, dict):
            ents = [f"({KEYS[k]}, {self.val(v)})" for k, v in o.items()]
            self.terms[l] = "ODict [" + ";".join(ents) + "]"
        elif type(o).__name__ in ("Cell", "CumulativeCell", "IncrementalCell"):
            v = self.val(o.values)
            self.terms[l] = f"OCell {z(self.tag_of(o))} {v}"
        else:
            raise NotRepresentable(type(o).__name__)
        return l

    def term(self):
        return "[" + ";\n   ".join(self.terms) + "]"

    def arrays(self):
        return [(l, o) for l, o in enumerate(self.objs) if isinstance(o, np.ndarray)]


def tag_plain(c):
    return (c.evaluation_date - c.period_start).days


def tag_chain(c):
    e = (c.evaluation_date - c.period_start).days
    p = getattr(c, "prev_evaluation_date", None)
    return e * 1000 + ((p - c.period_start).days + 1 if p is not None else 0)


def sig(o, H: Heap, exact, tag_fn):
    """Observed shape of a result down to the first pre-existing object (by id, arrays also by memory)."""
    if o is None:
        return "SNone"
    if isinstance(o, (int, float, np.integer, np.floating)) and not isinstance(o, (bool, np.bool_)):
        return f"(SNum {z(scaled(o, exact))})"
    if id(o) in H.loc:
        return f"(SOld {H.loc[id(o)]}%nat)"
    if isinstance(o, np.ndarray):
        for l, a in H.arrays():
            if np.shares_memory(o, a):
                return f"(SOld {l}%nat)"          # a view of / the same buffer as an argument array
        if o.ndim != 1:
            return "SBad"
        xs = [scaled(x, exact) if exact else 0 for x in o.tolist()]
        return "(SArr [" + ";".join(z(x) for x in xs) + "])"
    if isinstance(o, dict):
        return "(SDict " + sig_items(o, H, exact, tag_fn) + ")"
    if type(o).__name__ in ("Cell", "CumulativeCell", "IncrementalCell"):
        return f"(SCell {z(tag_fn(o))} {sig(o.values, H, exact, tag_fn)})"
    return "SBad"


def sig_items(d, H, exact, tag_fn):
    return "[" + ";".join(f"({KEYS.get(k, 77)}, {sig(v, H, exact, tag_fn)})" for k, v in d.items()) + "]"


# ------------------------------------------------------------------------------------------ generation
class KGen:
    def __init__(self, rng: random.Random):
        self.r = rng
        r = rng
        self.n = r.choice([2, 3, 4])
        # a pool with deliberate sharing: the same array object is used several times
        self.arrs = [np.array([r.randint(1, 40) / 4 for _ in range(self.n)]) for _ in range(3)]
        if r.random() < 0.25:
            self.arrs.append(np.array([r.randint(1, 9) / 2 for _ in range(r.choice([1, self.n + 1]))]))

    def num(self):
        return self.r.choice([self.r.randint(0, 50), self.r.randint(0, 200) / 8])

    def value(self, p_arr=0.6, p_none=0.1):
        x = self.r.random()
        if x < p_none:
            return None
        if x < p_none + p_arr:
            return self.r.choice(self.arrs)
        return self.num()

    def values_dict(self, fields=None, **kw):
        fields = fields or self.r.sample(["earned_premium", "paid_loss", "reported_loss", "incurred_loss"],
                                         self.r.randint(1, 3))
        return {f: self.value(**kw) for f in fields}

    def cell(self, values, e=None, cls=None, prev=None):
        from bermuda import Cell, CumulativeCell, IncrementalCell

        e = e or PE + datetime.timedelta(days=self.r.choice([0, 30, 61]))
        cls = cls or self.r.choice([Cell, CumulativeCell])
        if cls is IncrementalCell:
            return IncrementalCell(period_start=PS, period_end=PE, evaluation_date=e, prev_evaluation_date=prev,
                                   values=values)
        return cls(period_start=PS, period_end=PE, evaluation_date=e, values=values)

    def cells(self, k, share_dict=0.3, same_cell=0.25, **kw):
        out = []
        fields = self.r.sample(["earned_premium", "paid_loss", "reported_loss", "incurred_loss"], self.r.randint(1, 3))
        for _ in range(k):
            x = self.r.random()
            if out and x < same_cell:
                out.append(self.r.choice(out))                       # the very same cell again
            elif out and x < same_cell + share_dict:
                out.append(self.cell(self.r.choice(out).values))     # another cell sharing the values dict
            else:
                fs = fields if self.r.random() < 0.8 else self.r.sample(fields, self.r.randint(1, len(fields)))
                out.append(self.cell(self.values_dict(fs, **kw)))
        return out


def mods():
    S = importlib.import_module("bermuda.utils.summarize")
    B = importlib.import_module("bermuda.utils.basis")
    Mg = importlib.import_module("bermuda.utils.merge")
    T = importlib.import_module("bermuda.utils.thin")
    Dg = importlib.import_module("bermuda.utils.disaggregate")
    A = importlib.import_module("bermuda.utils.aggregate")
    return S, B, Mg, T, Dg, A


KERNELS = ["conforming_sum", "weighted_average", "summarize_cell_values", "base_replace", "replace", "select",
           "derive_fields", "add_statics", "merge_cell_pair", "overwrite_values", "thin_cell", "values_add",
           "values_diff", "to_cumulative", "to_incremental", "aggregate_group", "weight_cell_values", "blend_cells",
           "blend_cells_linear"]


def lst(xs):
    return "[" + "; ".join(xs) + "]"


def set_order_cfg(base, cell):
    """`for field in set(cells[0].values.keys())`: the iteration order of that set is hash order -- an oracle of
    the model; it is observed here by building the set exactly as the code does."""
    order = [KEYS[k] for k in set(cell.values.keys())]
    return f"(with_set_order {base} {lst([str(k) for k in order])})"


def build_case(kernel: str, seed: int):
    """Returns dict(args=[python objects to fingerprint], thunk, coq=callable(H)->call term, cfg, exact,
    tag=tag function, roots=[objects to lay out], post=callable(result)->(kind, python result))."""
    import bermuda
    from bermuda import Cell, CumulativeCell, IncrementalCell, Triangle

    S, B, Mg, T, Dg, A = mods()
    r = random.Random(seed)
    g = KGen(r)
    c = {"cfg": "cfg_sum", "exact": True, "tag": tag_plain, "kind": "GVal"}
    if kernel == "conforming_sum":
        vs = [g.value(p_none=0.15) for _ in range(r.randint(0, 5))]
        if r.random() < 0.1:
            vs.append({"paid_loss": 1})                              # not a value: TypeError path
        c.update(roots=vs, thunk=lambda: S._conforming_sum(vs), coq=lambda H: f"KConformingSum {lst([H.val(v) for v in vs])}")
    elif kernel == "weighted_average":
        k = r.randint(0, 4)
        vs = [g.value(p_none=0.15) for _ in range(k)]
        ws = [r.choice([r.randint(1, 8) / 2, r.choice(g.arrs)]) for _ in range(k)]
        log = r.random() < 0.3
        c.update(roots=vs + ws, exact=False, cfg="cfg_log" if log else "cfg_sum",
                 thunk=(lambda: S._conforming_weighted_average(vs, ws, np.log)) if log else
                 (lambda: S._conforming_weighted_average(vs, ws)),
                 coq=lambda H: f"KWeightedAverage {lst([H.val(v) for v in vs])} {lst([H.val(v) for v in ws])}")
        if k == 0 or all(v is None for v in vs) and False:
            pass
    elif kernel == "summarize_cell_values":
        cells = g.cells(r.randint(1, 4), p_none=0.05)
        if r.random() < 0.15:
            cells.append(g.cell({"foo_field": 1, "paid_loss": 2}))
        prem = r.random() < 0.5
        c.update(roots=cells, kind="GItems", thunk=lambda: S.summarize_cell_values(cells, summarize_premium=prem),
                 coq=lambda H: f"KSummarizeCellValues {lst([H.val(x) for x in cells])} {str(prem).lower()}")
    elif kernel in ("base_replace", "replace"):
        cell = g.cell(g.values_dict())
        defs, coqd = {}, []
        order = r.sample(["values", "evaluation_date"], r.randint(0, 2))
        newvals = r.choice([g.values_dict(), cell.values, 3, {"paid_loss": {"earned_premium": 1}}])
        newdate = PS + datetime.timedelta(days=r.choice([-5, 0, 100, 200]))
        for name in order:
            defs[name] = newvals if name == "values" else newdate
        validate = r.random() < 0.5
        roots = [cell] + ([newvals] if "values" in defs and isinstance(newvals, dict) else [])

        def coq(H):
            ds = []
            for name in order:
                ds.append(f"DValues {H.val(newvals)}" if name == "values" else f"DTag {z((newdate - PS).days)}")
            if kernel == "replace":
                return f"KReplace {H.val(cell)} {lst(ds)}"
            return f"KBaseReplace {str(validate).lower()} {H.val(cell)} {lst(ds)}"

        if kernel == "replace":
            c.update(roots=roots, thunk=lambda: cell.replace(**defs), coq=coq)
        else:
            c.update(roots=roots, thunk=lambda: cell._base_replace(**defs, _skip_validation=not validate), coq=coq)
    elif kernel == "select":
        cell = g.cell(g.values_dict())
        ks = r.sample(list(KEYS)[:5], r.randint(0, 3))
        c.update(roots=[cell], thunk=lambda: cell.select(ks), coq=lambda H: f"KSelect {H.val(cell)} {lst([str(KEYS[k]) for k in ks])}")
    elif kernel == "derive_fields":
        cell = g.cell(g.values_dict())
        defs = {f: g.value() for f in r.sample(list(KEYS)[:5], r.randint(0, 3))}
        c.update(roots=[cell] + [v for v in defs.values() if isinstance(v, np.ndarray)],
                 thunk=lambda: cell.derive_fields(**defs),
                 coq=lambda H: f"KDeriveFields {H.val(cell)} {lst([f'({KEYS[k]}, {H.val(v)})' for k, v in defs.items()])}")
    elif kernel == "add_statics":
        cs = g.cells(2)
        fs = r.sample(list(KEYS)[:5], r.randint(0, 3))
        c.update(roots=cs, thunk=lambda: cs[0].add_statics(cs[1], fs),
                 coq=lambda H: f"KAddStatics {H.val(cs[0])} {H.val(cs[1])} {lst([str(KEYS[k]) for k in fs])}")
    elif kernel == "merge_cell_pair":
        cs = g.cells(2)
        a, b = (None if r.random() < 0.15 else cs[0]), (None if r.random() < 0.15 else cs[1])
        if a is None and b is None:
            b = cs[1]
        c.update(roots=[x for x in (a, b) if x is not None], thunk=lambda: Mg._merge_cell_pair(a, b),
                 coq=lambda H: f"KMergeCellPair {H.val(a)} {H.val(b)}")
    elif kernel == "overwrite_values":
        cs = g.cells(2)
        suffix = r.choice([None, "_r"])
        c.update(roots=cs, thunk=lambda: Mg._overwrite_values(cs[0], cs[1], suffix=suffix),
                 coq=lambda H: f"KOverwriteValues {H.val(cs[0])} {H.val(cs[1])} {'None' if suffix is None else '(Some 100)'}")
    elif kernel == "thin_cell":
        cell = g.cell(g.values_dict(p_arr=0.8))
        ndxs = [r.randrange(0, g.n + (1 if r.random() < 0.15 else 0)) for _ in range(r.randint(1, 3))]
        c.update(roots=[cell], thunk=lambda: T._thin_cell(cell, np.array(ndxs)),
                 coq=lambda H: f"KThinCell {H.val(cell)} {lst([f'{i}%nat' for i in ndxs])}")
    elif kernel in ("values_add", "values_diff"):
        fs = r.sample(["earned_premium", "paid_loss", "reported_loss"], r.randint(1, 3))
        a = g.values_dict(fs, p_none=0.05)
        b = a if r.random() < 0.15 else g.values_dict(fs if r.random() < 0.85 else fs[:-1] + ["incurred_loss"], p_none=0.05)
        fn = B._values_add if kernel == "values_add" else B._values_diff
        nm = "KValuesAdd" if kernel == "values_add" else "KValuesDiff"
        ordered = "[" + "; ".join(str(KEYS[k_]) for k_ in set(a.keys())) + "]"     # `for k in curr_keys` (a set)
        c.update(roots=[a, b], thunk=lambda: fn(a, b), coq=lambda H: f"{nm} {H.val(a)} {H.val(b)}",
                 cfg=f"(with_set_order cfg_sum {ordered})")
    elif kernel in ("to_cumulative", "to_incremental"):
        k = r.randint(1, 4)
        fs = r.sample(["earned_premium", "paid_loss", "reported_loss"], r.randint(1, 3))
        evs = [PE + datetime.timedelta(days=30 * i) for i in range(k)]
        broken = r.random() < 0.2
        cells = []
        if kernel == "to_cumulative":
            prev = PS - datetime.timedelta(days=1)
            for i, e in enumerate(evs):
                vals = cells[-1].values if cells and r.random() < 0.15 else g.values_dict(
                    fs if r.random() < 0.9 else fs + ["incurred_loss"], p_none=0.0)
                pv = prev if not (broken and i == k - 1) else prev - datetime.timedelta(days=3)
                cells.append(g.cell(vals, e, IncrementalCell, pv))
                prev = e
            fn = B.to_cumulative
        else:
            for e in evs:
                vals = cells[-1].values if cells and r.random() < 0.15 else g.values_dict(
                    fs if r.random() < 0.9 else fs + ["incurred_loss"], p_none=0.0)
                cells.append(g.cell(vals, e, CumulativeCell))
            fn = B.to_incremental
        tri = Triangle(cells)
        ordered = list(tri.cells)
        by_eval = {}
        for x in ordered:
            by_eval.setdefault(x.evaluation_date, tag_chain(x))
        nm = "KToCumulativeRow" if kernel == "to_cumulative" else "KToIncrementalRow"
        c.update(roots=ordered, args=[tri], kind="GVals", tag=tag_chain, thunk=lambda: fn(tri).cells,
                 coq=lambda H: f"{nm} {lst([H.val(x) for x in ordered])}",
                 restag=lambda cell: by_eval.get(cell.evaluation_date, -1))
    elif kernel == "aggregate_group":
        k = r.randint(1, 3)
        cells = []
        for i in range(k):
            vals = cells[-1].values if cells and r.random() < 0.2 else g.values_dict(p_none=0.05)
            cells.append(CumulativeCell(period_start=D(2020, 1 + i, 1), period_end=D(2020, 1 + i, 28),
                                        evaluation_date=D(2020, 6, 30), values=vals))
        tri = Triangle(cells)
        ordered = sorted(tri.cells, key=lambda x: x.coordinates)
        prem = r.random() < 0.6
        c.update(roots=ordered, args=[tri], tag=lambda x: 7, restag=lambda x: 7,
                 thunk=lambda: A._aggregate_period(tri, (3, "month"), D(1999, 12, 31), prem).cells[0],
                 coq=lambda H: f"KAggregateGroup 7 {lst([H.val(x) for x in ordered])} {str(prem).lower()}")
    elif kernel == "weight_cell_values":
        cell = g.cell(g.values_dict(p_none=0.05))
        ws = [r.choice([0.25, 0.5, 1.0]) for _ in range(r.randint(1, 3))]
        subs = [(D(2020, 1 + i, 1), D(2020, 1 + i, 28)) for i in range(len(ws))]
        c.update(roots=[cell], kind="GNested", exact=False,
                 thunk=lambda: [w for _, w in sorted(Dg._weight_cell_values(cell, ws, subs).items())],
                 coq=lambda H: f"KWeightCellValues {H.val(cell)} {lst([z(int(w * 1024)) for w in ws])}")
    elif kernel == "blend_cells":
        k = r.randint(1, 3)
        fs = r.sample(["earned_premium", "paid_loss", "reported_loss"], r.randint(1, 2))
        shared_scalar = r.randint(1, 9)
        cells = []
        for i in range(k):
            if cells and r.random() < 0.2:
                cells.append(r.choice(cells))
                continue
            vals = {f: (shared_scalar if f == "earned_premium" and r.random() < 0.9 else
                        (r.randint(1, 9) if f == "earned_premium" else r.choice(g.arrs))) for f in fs}
            if r.random() < 0.08:
                vals["incurred_loss"] = 1
            cells.append(g.cell(vals))
        w = [1.0 / k] * k
        seedv = r.randrange(1000)
        picks = []
        real_choice = np.random.choice

        def rec_choice(*a, **kw):
            out = real_choice(*a, **kw)
            new = [int(x) for x in np.asarray(out).tolist()]
            if len(new) > len(picks):           # same seed every time: shorter draws are prefixes
                picks[:] = new
            return out

        def thunk():
            np.random.choice = rec_choice                 # record the real draw (harness process only)
            try:
                return S.blend_cells(cells, w, "mixture", seedv)
            finally:
                np.random.choice = real_choice

        def coq(H):
            pk = picks
            if not pk:                                    # no draw happened (scalars only / raised before)
                np.random.seed(seedv)
                pk = [int(x) for x in real_choice(range(k), g.n + 1, p=w)]
            return f"KBlendCells {lst([H.val(x) for x in cells])} {lst([f'{i}%nat' for i in pk])}"

        c.update(roots=cells, thunk=thunk, coq=coq, cfg=set_order_cfg("cfg_sum", cells[0]))
    elif kernel == "blend_cells_linear":
        k = r.randint(1, 3)
        fs = r.sample(["earned_premium", "paid_loss", "reported_loss"], r.randint(1, 2))
        cells = []
        for i in range(k):
            if cells and r.random() < 0.2:
                cells.append(r.choice(cells))
                continue
            vals = {f: r.choice([r.randint(1, 9), r.randint(1, 40) / 4, r.choice(g.arrs), r.choice(g.arrs)]) for f in fs}
            if r.random() < 0.06:
                vals[fs[0]] = None
            if r.random() < 0.06:
                vals["incurred_loss"] = 1
            cells.append(g.cell(vals))
        w = [r.choice([0.25, 0.5, 0.75]) for _ in range(k if r.random() < 0.92 else k + 1)]
        c.update(roots=cells, exact=False, cfg=set_order_cfg("cfg_sum", cells[0]),
                 thunk=lambda: S.blend_cells(cells, w, "linear", None),
                 coq=lambda H: f"KBlendCellsLinear {lst([H.val(x) for x in cells])} {lst([z(int(x * 1024)) for x in w])}")
    else:
        raise KeyError(kernel)
    c.setdefault("args", c["roots"])
    c.setdefault("restag", c["tag"])
    return c


def run_kernel_case(kernel, seed):
    """-> dict(coq=str|None, changed=[...], outcome=str, skipped=reason|None)"""
    with warnings.catch_warnings():
        warnings.simplefilter("ignore")
        try:
            c = build_case(kernel, seed)
        except Exception as ex:  # noqa: BLE001
            return {"skipped": f"build:{type(ex).__name__}", "changed": []}
        H = Heap(c["tag"])
        try:
            for o in c["roots"]:
                if o is not None and not isinstance(o, (int, float)):
                    H.add(o)
            heap_term = H.term()
        except (NotRepresentable, KeyError) as ex:
            return {"skipped": f"encode:{type(ex).__name__}", "changed": []}
        res, exc, changes = M.monitored(c["thunk"], (), {}, extra_watch=c["args"])
        try:
            call = c["coq"](H)
            if exc is not None:
                obs = f"(ObsRaise {cerr(exc)})"
            else:
                kind, ex_, tg = c["kind"], c["exact"], c["restag"]
                if kind == "GVal":
                    body = sig(res, H, ex_, tg)
                elif kind == "GVals":
                    body = lst([sig(x, H, ex_, tg) for x in res])
                elif kind == "GItems":
                    body = sig_items(res, H, ex_, tg)
                else:
                    body = lst([sig_items(d, H, ex_, tg) for d in res])
                obs = f"(ObsRet ({kind} {body}))"
        except NotRepresentable:
            return {"skipped": "encode-result", "changed": changes}
    term = f"agrees {c['cfg']} {str(c['exact']).lower()}\n  {heap_term}\n  ({call})\n  {obs}"
    mut = f"mutant_writes {c['cfg']}\n  {heap_term}\n  ({call})"
    shared = len(H.objs) < sum(1 for _ in _walk_refs(c["roots"]))
    return {"skipped": None, "coq": term, "mut": mut, "changed": changes, "shared": shared,
            "outcome": "raised:" + type(exc).__name__ if exc is not None else "returned",
            "n_objs": len(H.objs)}


def _walk_refs(roots):
    for o in roots:
        if isinstance(o, np.ndarray):
            yield o
        elif isinstance(o, dict):
            yield o
            yield from _walk_refs(list(o.values()))
        elif hasattr(o, "values") and hasattr(o, "period_start"):
            yield o
            yield from _walk_refs([o.values])


def policy_year_cases(seed):
    """The vals_dict accumulation of _accident_quarter_to_policy_year_slice, one model case per produced
    cell: the contributing accident-quarter cells are re-derived with the module's own helpers (which
    policy year receives a share of which quarter), the accumulated result is compared with
    Model/Heap.v policy_year_cell (structure, freshness; share values are irrelevant to both)."""
    from bermuda import CumulativeCell, Triangle

    B = importlib.import_module("bermuda.utils.basis")
    r = random.Random(seed)
    g = KGen(r)
    cells = []
    nq = r.randint(1, 5)
    evs = [D(2021, 12, 31), D(2022, 12, 31)][: r.randint(1, 2)]
    fields = r.sample(["earned_premium", "paid_loss", "reported_loss"], r.randint(1, 3))
    for q in range(nq):
        ps = D(2020 + q // 4, 1 + 3 * (q % 4), 1)
        pe = D(2020 + q // 4, 3 + 3 * (q % 4), [31, 30, 30, 31][q % 4])
        for e in evs:
            vals = cells[-1].values if cells and r.random() < 0.2 else {f: g.value(p_none=0) for f in fields}
            cells.append(CumulativeCell(period_start=ps, period_end=pe, evaluation_date=e, values=vals))
    tri = Triangle(cells)
    cont = r.random() < 0.5
    res, exc, changes = M.monitored(B._accident_quarter_to_policy_year_slice, (tri,), {"continuous_issuance": cont})
    out = {"changed": changes, "outcome": "raised:" + type(exc).__name__ if exc is not None else "returned", "cases": []}
    if exc is not None:
        return out
    # which policy year gets a share of which accident quarter (same helper calls as the function)
    pys = B.policy_years_covered(tri, D(2020, 1, 1))
    share = {}
    for py in pys:
        aq = B.monthly_ep_to_quarterly_ep(
            B._policy_earned_premium_share_by_month(risk_start_date=py[0], risk_end_date=py[1], policy_length_months=12,
                                                    continuous_issuance=cont), tri)
        for period in aq:
            share.setdefault(period, set()).add(py)
    for oc in res.cells:
        py = (oc.period_start, oc.period_end)
        aq_cells = list(tri[:, oc.evaluation_date, :].cells)
        shares = [py in share.get(c.period, ()) for c in aq_cells]
        H = Heap(lambda c: 7)
        try:
            for c in aq_cells:
                H.add(c)
            heap_term = H.term()
            obs = f"(ObsRet (GVal {sig(oc, H, False, lambda c: 7)}))"
        except (NotRepresentable, KeyError):
            continue
        call = (f"KPolicyYearCell 7 {lst([H.val(c) for c in aq_cells])} "
                f"{lst(['(Some 1)' if s_ else 'None' for s_ in shares])}")
        out["cases"].append({"coq": f"agrees cfg_sum false\n  {heap_term}\n  ({call})\n  {obs}",
                             "mut": f"mutant_writes cfg_sum\n  {heap_term}\n  ({call})", "n_objs": len(H.objs),
                             "outcome": "returned"})
    return out


def policy_year_alias_check(seed):
    """accident_quarter_to_policy_year (vals_dict accumulation) at function level: arguments unchanged and
    no result array shares memory with an argument array (model: every entry fresh)."""
    from bermuda import CumulativeCell, Triangle
    import bermuda.utils as U

    r = random.Random(seed)
    g = KGen(r)
    cells = []
    for q in range(r.randint(1, 4)):
        ps = D(2020 + q // 4, 1 + 3 * (q % 4), 1)
        pe = D(2020 + q // 4, 3 + 3 * (q % 4), [31, 30, 30, 31][q % 4])
        vals = cells[-1].values if cells and r.random() < 0.2 else {"earned_premium": g.value(p_none=0), "paid_loss": g.value(p_none=0)}
        cells.append(CumulativeCell(period_start=ps, period_end=pe, evaluation_date=D(2021, 12, 31), values=vals))
    tri = Triangle(cells)
    res, exc, changes = M.monitored(U.accident_quarter_to_policy_year, (tri,), {})
    bad = []
    if res is not None:
        olds = [v for c in tri for v in c.values.values() if isinstance(v, np.ndarray)]
        for c in res:
            for k, v in c.values.items():
                if isinstance(v, np.ndarray) and any(np.shares_memory(v, o) for o in olds):
                    bad.append(k)
    return changes, bad, "raised:" + type(exc).__name__ if exc is not None else "returned"


# ------------------------------------------------------------------------------------------ entry points
ENTRIES = ["to_incremental", "to_cumulative", "summarize", "blend", "select", "derive_fields", "replace", "merge",
           "coalesce", "add_statics", "thin", "aggregate_period", "aggregate"]


def qidx(d):
    return (d.year - 2020) * 4 + (d.month - 1) // 3


def qend(i):
    y, q = 2020 + i // 4, i % 4
    return D(y, 3 * q + 3, [31, 30, 30, 31][q])


def qstart(i):
    y, q = 2020 + i // 4, i % 4
    return D(y, 3 * q + 1, 1)


def make_tag_api(smap):
    def tag(c):
        s_ = smap.get(c.metadata, 0)
        p_ = qidx(c.period_start)
        e_ = qidx(c.evaluation_date)
        pv = getattr(c, "prev_evaluation_date", None)
        q_ = 0 if pv is None else qidx(pv) + 2
        return s_ * 10**8 + p_ * 10**4 + e_ * 100 + q_
    return tag


def api_triangle(g, r, metas_, periods, nlags, inc, fields, p_arr=0.5, p_none=0.0, lag0=0):
    from bermuda import CumulativeCell, IncrementalCell, Triangle

    cells = []
    for m in metas_:
        for p_ in periods:
            prev = qstart(p_) - datetime.timedelta(days=1)
            for lag in range(lag0, lag0 + nlags):
                e = qend(p_ + lag)
                vals = cells[-1].values if cells and r.random() < 0.12 else {f: g.value(p_arr=p_arr, p_none=p_none) for f in fields}
                if inc:
                    cells.append(IncrementalCell(period_start=qstart(p_), period_end=qend(p_), evaluation_date=e,
                                                 prev_evaluation_date=prev, values=vals, metadata=m))
                    prev = e
                else:
                    cells.append(CumulativeCell(period_start=qstart(p_), period_end=qend(p_), evaluation_date=e,
                                                values=vals, metadata=m))
    r.shuffle(cells)
    return Triangle(cells)


def build_api_case(entry, seed):
    from bermuda import Metadata, Triangle
    import bermuda.utils as U

    S, B, Mg, T, Dg, A = mods()
    r = random.Random(seed)
    g = KGen(r)
    fd = r.choice([{}, {}, {"note": None}, {"note": None, "zero": 0, "empty": ""}, {"off": False, "memo": None}])
    fl = r.choice([{}, {}, {"cov": None}, {"cov": None, "n": 0}])
    metas_ = [Metadata(country="US", details=dict(fd), loss_details=dict(fl)),
              Metadata(country="DE", details=dict(fd), loss_details=dict(fl)),
              Metadata(country="US", currency="EUR", details=dict(fd), loss_details=dict(fl))]
    ms = metas_[: r.choice([1, 1, 2])]
    if entry == "summarize" and r.random() < 0.15:
        ms = [metas_[0], metas_[2]]                       # inconsistent currency: TriangleError
    smap = {m: i for i, m in enumerate(metas_)}
    tag = make_tag_api(smap)
    fields = r.sample(["earned_premium", "paid_loss", "reported_loss"], r.randint(1, 3))
    periods = sorted(r.sample(range(0, 6), r.randint(1, 3)))
    nl = r.randint(1, 3)
    c = {"exact": True, "tag": tag, "restag": tag, "cfg": "cfg_api"}
    zero_q = lambda cell: tag(cell) // 100 * 100          # noqa: E731
    b = lambda x: str(bool(x)).lower()                    # noqa: E731

    def cl(H, tri):
        return lst([H.val(x) for x in tri.cells])

    if entry in ("to_incremental", "to_cumulative"):
        inc = r.random() < (0.25 if entry == "to_incremental" else 0.75)
        t = api_triangle(g, r, ms, periods, nl, inc, fields, p_none=0.0)
        if inc and entry == "to_cumulative" and r.random() < 0.2 and len(t) > 1:
            t = Triangle(t.cells[:-2] + t.cells[-1:]) if r.random() < 0.5 else Triangle(t.cells[1:])   # broken chain
        lookup = {tag(x) // 100: tag(x) for x in t.cells}
        fn = U.to_incremental if entry == "to_incremental" else U.to_cumulative
        nm = "AToIncremental" if entry == "to_incremental" else "AToCumulative"
        c.update(tris=[t], thunk=lambda: fn(t), coq=lambda H: f"{nm} {b(t.is_incremental)} {cl(H, t)}",
                 restag=(zero_q if entry == "to_incremental" else (lambda cell: lookup.get(tag(cell) // 100, -1))))
    elif entry == "summarize":
        inc = r.random() < 0.3
        fs = fields + (["foo_field"] if r.random() < 0.1 else [])
        t = api_triangle(g, r, ms, periods, nl, inc, fs, p_none=0.05)
        prem = True if inc else r.random() < 0.6
        ok = t.has_consistent_risk_basis and t.has_consistent_currency
        c.update(tris=[t], thunk=lambda: U.summarize(t, summarize_premium=prem),
                 coq=lambda H: f"ASummarize {b(ok)} {b(prem)} {cl(H, t)}", restag=lambda cell: tag(cell) % 10**8)
    elif entry == "blend":
        k = r.randint(2, 3)
        base = api_triangle(g, r, ms, periods, nl, False, fields, p_arr=1.0)
        base = base.derive_fields(earned_premium=5) if "earned_premium" in fields else base
        tris = [base]
        for _ in range(k - 1):
            x = r.random()
            if x < 0.3:
                tris.append(base)                                        # the same triangle twice
            elif x < 0.85:
                tris.append(base.replace(values=lambda cell: dict(cell.values)))   # new cells, shared arrays
            else:
                tris.append(Triangle(base.cells[1:] + base.cells[:1]) if len(base) > 1 and r.random() < 0.5
                            else api_triangle(g, r, ms, periods[:1], nl + 1, False, fields, p_arr=1.0))
        w = [1.0 / k] * k
        seedv = r.randrange(1000)
        picks = []
        real_choice = np.random.choice

        def rec_choice(*a, **kw):
            out = real_choice(*a, **kw)
            new = [int(x) for x in np.asarray(out).tolist()]
            if len(new) > len(picks):           # same seed every time: shorter draws are prefixes
                picks[:] = new
            return out

        def thunk():
            np.random.choice = rec_choice
            try:
                return U.blend(tris, weights=w, method="mixture", seed=seedv)
            finally:
                np.random.choice = real_choice

        def coq(H):
            pk = picks
            if not pk:
                np.random.seed(seedv)
                pk = [int(x) for x in real_choice(range(k), g.n + 1, p=w)]
            tl = "[" + "; ".join(cl(H, t_) for t_ in tris) + "]"
            return f"ABlend {tl} {lst([f'{i}%nat' for i in pk])}"

        c.update(tris=tris, thunk=thunk, coq=coq, cfg=set_order_cfg("cfg_api", tris[0].cells[0]))
    elif entry in ("select", "derive_fields", "replace"):
        t = api_triangle(g, r, ms, periods, nl, r.random() < 0.3, fields, p_none=0.05)
        if entry == "select":
            ks = r.sample(list(KEYS)[:5], r.randint(0, 3))
            c.update(tris=[t], thunk=lambda: t.select(ks), coq=lambda H: f"ASelect {cl(H, t)} {lst([str(KEYS[k_]) for k_ in ks])}")
        elif entry == "derive_fields":
            defs = {f: g.value() for f in r.sample(list(KEYS)[:5], r.randint(0, 3))}
            c.update(tris=[t], extra=[v for v in defs.values() if isinstance(v, np.ndarray)],
                     thunk=lambda: t.derive_fields(**defs),
                     coq=lambda H: f"ADeriveFields {cl(H, t)} {lst([f'({KEYS[k_]}, {H.val(v)})' for k_, v in defs.items()])}")
        else:
            nv = r.choice([g.values_dict(), t.cells[0].values, 3])
            c.update(tris=[t], extra=[nv] if isinstance(nv, dict) else [], thunk=lambda: t.replace(values=nv),
                     coq=lambda H: f"AReplace {cl(H, t)} [DValues {H.val(nv)}]")
    elif entry in ("merge", "coalesce", "add_statics"):
        inc = r.random() < 0.25 and entry != "add_statics"
        t1 = api_triangle(g, r, ms, periods, nl, inc, fields, p_none=0.05)
        x = r.random()
        f2 = r.sample(["earned_premium", "paid_loss", "incurred_loss"], r.randint(1, 2))
        if x < 0.15:
            t2 = t1
        elif x < 0.35 and len(t1) > 1:
            t2 = t1[: max(1, len(t1) // 2)]                              # shares cell objects with t1
        else:
            t2 = api_triangle(g, r, metas_[: r.choice([1, 2])], sorted(r.sample(range(0, 6), r.randint(1, 3))),
                              r.randint(1, 3), inc, f2, p_none=0.05)
        if entry == "merge":
            jt = r.choice(["full", "inner", "left", "right", "left_anti", "right_anti"])
            kl, kr, km = {"full": (1, 1, 1), "left": (1, 0, 1), "right": (0, 1, 1), "inner": (0, 0, 1),
                          "left_anti": (1, 0, 0), "right_anti": (0, 1, 0)}[jt]
            c.update(tris=[t1, t2], thunk=lambda: U.merge(t1, t2, join_type=jt),
                     coq=lambda H: f"AMerge {b(kl)} {b(kr)} {b(km)} {cl(H, t1)} {cl(H, t2)}")
        elif entry == "coalesce":
            tl = [t1, t2] + ([t1] if r.random() < 0.2 else [])
            c.update(tris=tl, thunk=lambda: U.coalesce(tl),
                     coq=lambda H: "ACoalesce [" + "; ".join(cl(H, t_) for t_ in tl) + "]")
        else:
            fs = r.sample(list(KEYS)[:5], r.randint(0, 3))
            c.update(tris=[t1, t2], thunk=lambda: U.add_statics(t1, t2, statics=fs),
                     coq=lambda H: f"AAddStatics {cl(H, t1)} {cl(H, t2)} {lst([str(KEYS[k_]) for k_ in fs])}")
    elif entry == "thin":
        t = api_triangle(g, r, ms, periods, nl, r.random() < 0.3, fields, p_arr=0.8, p_none=0.05)
        try:
            n = t.num_samples
        except ValueError:
            raise NotRepresentable("inconsistent sample counts")
        k = r.choice([1, max(1, n - 1), n, n + 1])
        sd = r.randrange(1000)
        draw = []
        orig = np.random.default_rng

        class _R:
            def __init__(self, real):
                self.real = real

            def choice(self, *a, **kw):
                out = self.real.choice(*a, **kw)
                draw[:] = [int(x) for x in out.tolist()]
                return out

        def thunk():
            np.random.default_rng = lambda sd_=None: _R(orig(sd_))
            try:
                return U.thin(t, k, seed=sd)
            finally:
                np.random.default_rng = orig

        c.update(tris=[t], thunk=thunk,
                 coq=lambda H: f"AThin {n}%nat {k}%nat {cl(H, t)} {lst([f'{i}%nat' for i in draw])}")
    elif entry in ("aggregate_period", "aggregate"):
        inc = entry == "aggregate" and r.random() < 0.4
        ms_ = ms if entry == "aggregate" else ms[:1]
        t = api_triangle(g, r, ms_, periods, nl, inc, fields, p_none=0.0, lag0=r.choice([0, 0, 3]))
        prem = r.random() < 0.6
        if entry == "aggregate_period":
            ordered = sorted(t.cells, key=lambda x: x.coordinates)
            c.update(tris=[t], thunk=lambda: A._aggregate_period(t, (1, "year"), D(1999, 12, 31), prem),
                     coq=lambda H: f"AAggregatePeriod {b(prem)} {lst([H.val(x) for x in ordered])}")
        else:
            c.update(tris=[t], thunk=lambda: U.aggregate(t, period_resolution=(1, "year"), summarize_premium=prem),
                     coq=lambda H: f"AAggregate {b(inc)} {b(prem)} (fun _ => true) {cl(H, t)}", restag=zero_q)
    else:
        raise KeyError(entry)
    return c


def run_api_case(entry, seed):
    import bermuda

    with warnings.catch_warnings():
        warnings.simplefilter("ignore")
        try:
            c = build_api_case(entry, seed)
        except Exception as ex:  # noqa: BLE001
            return {"skipped": f"build:{type(ex).__name__}", "changed": []}
        H = Heap(c["tag"])
        try:
            for t in c["tris"]:
                for x in t.cells:
                    H.add(x)
            for o in c.get("extra", []):
                H.add(o)
            heap_term = H.term()
        except (NotRepresentable, KeyError) as ex:
            return {"skipped": f"encode:{type(ex).__name__}", "changed": []}
        res, exc, changes = M.monitored(c["thunk"], (), {}, extra_watch=c["tris"] + c.get("extra", []))
        try:
            call = c["coq"](H)
            if exc is not None:
                obs = f"(ObsRaise {cerr(exc)})"
            else:
                cells = res.cells if isinstance(res, bermuda.Triangle) else list(res)
                obs = f"(ObsRet (GBag {lst([sig(x, H, c['exact'], c['restag']) for x in cells])}))"
        except NotRepresentable:
            return {"skipped": "encode-result", "changed": changes}
    term = f"agrees_api tf_api {c['cfg']} {b_(c['exact'])}\n  {heap_term}\n  ({call})\n  {obs}"
    return {"skipped": None, "coq": term, "mut": "false", "changed": changes, "shared": True,
            "outcome": "raised:" + type(exc).__name__ if exc is not None else "returned", "n_objs": len(H.objs)}


def b_(x):
    return str(bool(x)).lower()


# ------------------------------------------------------------------------------------------ more entry points
# (Model/HeapApi2.v, Props/C03b.v): period_merge, convert_currency, fill_forward_gaps, backfill, derive_metadata
ENTRIES2 = ["period_merge", "convert_currency", "fill_forward_gaps", "backfill", "derive_metadata"]
SHIFT = 5 * 10**8          # a derived / converted metadata gets slice index + 5


def fun_of(table, render, default):
    """Coq function Z -> _ given by a finite table (an oracle on dates / metadata, computed from the ARGUMENTS)."""
    body = default
    for k, v in reversed(list(table.items())):
        body = f"if k =? {z(k)} then {render(v)} else {body}"
    return f"(fun k => {body})"


def tf2_term(cur_dec="(fun _ => CurSame)", cur_fields=()):
    cur = lst([str(k) for k in cur_fields])
    return ("(mkTagfns2 (fun t => t / 10000) " + cur_dec + f" (fun t => t + {SHIFT}) (fun k => memk k {cur}) "
            "(fun t => 3 * ((t / 100) mod 100 - (t / 10000) mod 10000)) "
            "(fun t => (t / 100000000) * 100 + (t / 100) mod 100))")


def build_api2_case(entry, seed):
    import dataclasses

    from bermuda import Metadata, Triangle
    import bermuda.utils as U

    C = importlib.import_module("bermuda.utils.currency")
    r = random.Random(seed)
    g = KGen(r)
    if entry == "convert_currency":
        pool = [Metadata(country="US", currency="USD"), Metadata(country="DE", currency="EUR"),
                Metadata(country="GB", currency="GBP"), Metadata(country="XX")]
        ms = r.sample(pool[:3], r.randint(1, 3)) + ([pool[3]] if r.random() < 0.1 else [])
    else:
        fd = r.choice([{}, {}, {"note": None}, {"off": False, "memo": None}])
        pool = [Metadata(country="US", details=dict(fd)), Metadata(country="DE", details=dict(fd)),
                Metadata(country="US", currency="EUR", details=dict(fd))]
        ms = r.sample(pool, r.choice([1, 1, 2]))
    smap = {m: i for i, m in enumerate(sorted(pool))}      # slice index = rank in Metadata order (bf_order)
    tag = make_tag_api(smap)
    fields = r.sample(["earned_premium", "paid_loss", "reported_loss", "reported_claims"], r.randint(1, 3))
    periods = sorted(r.sample(range(0, 6), r.randint(1, 3)))
    nl = r.randint(1, 3)
    c = {"exact": True, "tag": tag, "restag": tag, "cfg": "cfg_api", "tf2": tf2_term()}

    def cl(H, tri):
        return lst([H.val(x) for x in tri.cells])

    if entry == "period_merge":
        inc = r.random() < 0.25
        t1 = api_triangle(g, r, ms, periods, nl, inc, fields, p_none=0.05)
        f2 = r.sample(["earned_premium", "paid_loss", "incurred_loss", "reported_claims"], r.randint(1, 2))
        x = r.random()
        if x < 0.15 and len(t1) > 0:
            firsts = {}
            for cell in t1.cells:                                       # one of t1's OWN cells per index
                firsts.setdefault((cell.period, cell.metadata), cell)
            t2 = Triangle(r.sample(list(firsts.values()), r.randint(1, len(firsts))))
        elif x < 0.25:
            t2 = t1                                                      # several cells per index unless 1 lag
        else:
            p2 = periods if r.random() < 0.6 else sorted(r.sample(range(0, 6), r.randint(1, 3)))
            t2 = api_triangle(g, r, ms if r.random() < 0.7 else pool[:1], p2, 1 if r.random() < 0.85 else 2,
                              inc if r.random() < 0.9 else not inc, f2, p_none=0.05, lag0=r.choice([0, 2]))
        suffix = r.choice([None, None, "_r", "_r", ""])
        same = not (min(len(t1), len(t2)) > 0 and type(t1.cells[0]) != type(t2.cells[0]))   # noqa: E721
        c.update(tris=[t1, t2], thunk=lambda: U.period_merge(t1, t2, suffix=suffix),
                 coq=lambda H: f"APeriodMerge {b_(same)} {'(Some 100)' if suffix else 'None'} {cl(H, t1)} {cl(H, t2)}")
    elif entry == "convert_currency":
        t = api_triangle(g, r, ms, periods, nl, r.random() < 0.25, fields, p_none=0.04)
        target = r.choice(["USD", "USD", "EUR"])
        rates = {k: v for k, v in {"USD": 0.5, "EUR": 1.25, "GBP": 1.5}.items() if k != target and r.random() < 0.85}
        dec = {}
        for m, i in smap.items():
            dec[i] = ("CurNone" if m.currency is None else "CurSame" if m.currency == target else
                      "CurNoRate" if m.currency not in rates else "(CurConvert 2)")
        smap2 = {dataclasses.replace(m, currency=target): i + 5 for m, i in smap.items()
                 if m.currency not in (None, target)}
        tag2 = make_tag_api({**smap2, **smap})
        cur = [KEYS[k] for k in C.CURRENCY_FIELDS if k in KEYS]
        c.update(tris=[t], exact=False, restag=tag2, tf2=tf2_term(fun_of(dec, str, "CurNone"), cur),
                 thunk=lambda: U.convert_currency(t, target, rates), coq=lambda H: f"AConvertCurrency {cl(H, t)}")
    elif entry == "fill_forward_gaps":
        full = api_triangle(g, r, ms, periods, r.randint(2, 5), r.random() < 0.3, fields, p_none=0.05,
                            lag0=r.choice([0, 0, 1]))
        rows = {}
        for cell in full.cells:
            rows.setdefault(tag(cell) // 10000, []).append(cell)
        keep = []
        for k_, row in rows.items():                                   # holes after the first cell of a row
            row = sorted(row, key=lambda x: x.evaluation_date)
            keep += [row[0]] + [x for x in row[1:] if r.random() < 0.6]
        r.shuffle(keep)
        t = Triangle(keep)
        res = r.choice([3, 3, 3, 6])
        fill_none = r.random() < 0.4
        plan = {}
        for k_ in {tag(x) // 10000 for x in t.cells}:                   # dates only: lag -> prev code of the cell there
            row = sorted([x for x in t.cells if tag(x) // 10000 == k_], key=lambda x: x.evaluation_date)
            pc = {int(x.dev_lag()): tag(x) % 100 for x in row}
            first, last = int(row[0].dev_lag()), int(row[-1].dev_lag())
            new = sorted(set(range(first, last + res, res)) - set(pc))
            out = []
            for lag in new:
                pc[lag] = pc[lag - res]
                p_ = k_ % 10000
                out.append((lag, k_ * 10000 + (p_ + lag // 3) * 100 + pc[lag]))
            if out:
                plan[k_] = out
        render = lambda v: lst([f"({z(a)}, {z(b)})" for a, b in v])     # noqa: E731
        c.update(tris=[t], thunk=lambda: U.fill_forward_gaps(t, eval_resolution=res, fill_with_none=fill_none),
                 coq=lambda H: f"AFillForwardGaps {b_(fill_none)} {res} {fun_of(plan, render, '[]')} {cl(H, t)}")
    elif entry == "backfill":
        if "earned_premium" not in fields and r.random() < 0.6:
            fields = fields + ["earned_premium"]
        t = api_triangle(g, r, ms, periods, nl, False, fields, p_none=0.05, lag0=r.choice([0, 1, 2, 3]))
        statics = r.choice([None, None, ["paid_loss"], ["earned_premium", "reported_claims"], []])
        res = r.choice([3, 3, 6])
        eff = ["earned_premium"] if statics is None else statics
        plan = {}
        for p_ in {qidx(x.period_start) for x in t.cells}:
            row = sorted([x for x in t.cells if qidx(x.period_start) == p_], key=lambda x: (x.metadata, x.evaluation_date))
            first = row[0]
            lag, out = int(first.dev_lag()), []
            while lag - res >= 0:
                lag -= res
                out.append(tag(first) // 10000 * 10000 + (p_ + lag // 3) * 100 + tag(first) % 100)
            plan[tag(first)] = out
        render = lambda v: lst([z(a) for a in v])                        # noqa: E731
        kw = {} if statics is None else {"static_fields": statics}
        c.update(tris=[t], thunk=lambda: U.backfill(t, eval_resolution=res, **kw),
                 coq=lambda H: f"ABackfill {lst([str(KEYS[k_]) for k_ in eff])} {fun_of(plan, render, '[]')} {cl(H, t)}")
    elif entry == "derive_metadata":
        t = api_triangle(g, r, ms, periods, nl, r.random() < 0.3, fields, p_none=0.05)
        defs = r.choice([{}, {"risk_basis": "Policy"}, {"risk_basis": "Policy", "memo2": 1}, {"memo2": 1},
                         {"memo2": 1, "memo3": "x", "per_occurrence_limit": 5.0}])
        smap2 = {}
        for m, i in smap.items():
            m2 = m
            for name, v in defs.items():
                m2 = (dataclasses.replace(m2, **{name: v}) if name in ("risk_basis", "per_occurrence_limit") else
                      dataclasses.replace(m2, details={**m2.details, name: v}))
            if defs:
                smap2[m2] = i + 5 * len(defs)
        tag2 = make_tag_api({**smap2, **smap})
        gs = lst([f"(fun t => t + {SHIFT})"] * len(defs))
        c.update(tris=[t], restag=tag2, thunk=lambda: t.derive_metadata(**defs),
                 coq=lambda H: f"ADeriveMetadata {gs} {cl(H, t)}")
    else:
        raise KeyError(entry)
    return c


def run_api2_case(entry, seed):
    import bermuda

    with warnings.catch_warnings():
        warnings.simplefilter("ignore")
        try:
            c = build_api2_case(entry, seed)
        except Exception as ex:  # noqa: BLE001
            return {"skipped": f"build:{type(ex).__name__}", "changed": []}
        H = Heap(c["tag"])
        try:
            for t in c["tris"]:
                for x in t.cells:
                    H.add(x)
            heap_term = H.term()
        except (NotRepresentable, KeyError) as ex:
            return {"skipped": f"encode:{type(ex).__name__}", "changed": []}
        res, exc, changes = M.monitored(c["thunk"], (), {}, extra_watch=c["tris"])
        try:
            call = c["coq"](H)
            if exc is not None:
                obs = f"(ObsRaise {cerr(exc)})"
            else:
                cells = res.cells if isinstance(res, bermuda.Triangle) else list(res)
                obs = f"(ObsRet (GBag {lst([sig(x, H, c['exact'], c['restag']) for x in cells])}))"
        except (NotRepresentable, KeyError):
            return {"skipped": "encode-result", "changed": changes}
    term = f"agrees_api2 tf_api {c['tf2']} {c['cfg']} {b_(c['exact'])}\n  {heap_term}\n  ({call})\n  {obs}"
    mut = f"mutant_writes2 tf_api {c['tf2']} {c['cfg']}\n  {heap_term}\n  ({call})"
    return {"skipped": None, "coq": term, "mut": mut, "changed": changes, "shared": True,
            "outcome": "raised:" + type(exc).__name__ if exc is not None else "returned", "n_objs": len(H.objs)}


F21 = {"kind": "defaultdict_values_insert_on_read"}


def classify(change: str):
    """Machine-checkable class of a changed-argument report: the changed object is a live
    collections.defaultdict held as a cell's values (created by accident_quarter_to_policy_year) that
    GREW by a key (a read of a missing field inserted the default)."""
    import re

    m = re.search(r"/defaultdict\[\d+\]: length (\d+) -> (\d+)", change)
    if m and int(m.group(2)) > int(m.group(1)):
        return F21
    return None


def probe_defaultdict(ctx):
    """Directed input for the known-finding class: policy-year cells keep a defaultdict as values."""
    from bermuda import CumulativeCell, Triangle
    import bermuda.utils as U

    with warnings.catch_warnings():
        warnings.simplefilter("ignore")
        t = Triangle([CumulativeCell(period_start=D(2020, 1, 1), period_end=D(2020, 3, 31), evaluation_date=e,
                                     values={"paid_loss": 10.0}) for e in (D(2020, 9, 30), D(2020, 12, 31))])
        py = U.accident_quarter_to_policy_year(t)
        res, exc, changes = M.monitored(U.backfill, (py,), {})
    for label, path in changes:
        ctx.violation("impl-violation",
                      "backfill(accident_quarter_to_policy_year(t)) inserts 'earned_premium' into its argument "
                      f"(cell values are a live defaultdict): {path[:200]}",
                      {"mode": "probe_defaultdict", "change": path}, found_input=True, finding_class=classify(path))
        return True
    return False


# ------------------------------------------------------------------------------------------ monitor driver
def _monitor_chunk(args):
    cases, tmp = args
    from pathlib import Path

    import resource
    import signal

    class _Timeout(BaseException):
        pass

    def _alarm(*a):
        raise _Timeout()

    # an operation that runs away on an odd input (time or memory) is skipped, it must not take the worker down
    try:
        resource.setrlimit(resource.RLIMIT_AS, (5 * 2**30, 5 * 2**30))
    except (ValueError, OSError):
        pass
    signal.signal(signal.SIGALRM, _alarm)
    out = []
    for case in cases:
        signal.alarm(60 if case.get("large") else 6)
        try:
            rec, viol = M.run_case(case, Path(tmp))
        except _Timeout:
            out.append((case, {"info": {}, "trace": [("<case>", "skipped:timeout")]}, []))
            continue
        except MemoryError:
            out.append((case, {"info": {}, "trace": [("<case>", "skipped:memory")]}, []))
            continue
        except Exception as ex:  # noqa: BLE001  (generator trouble: not a finding)
            out.append((case, {"info": {}, "trace": [("<case>", "error:" + type(ex).__name__)]}, []))
            continue
        finally:
            signal.alarm(0)
        out.append((case, rec, viol))
    return out


def monitor_cases(ctx):
    rng = random.Random(ctx.seed * 7927 + 3)
    names = sorted(M.ops())
    cases = []
    reps = 2 if ctx.quick else 8
    for name in names:                       # every operation x every argument class
        chart = name.startswith("plot.plot_")          # altair chart construction: ~0.5 s per call
        for shape in (M.SHAPES[::2] if chart and ctx.quick else M.SHAPES):
            for _ in range(1 if chart and ctx.quick else reps):
                cases.append({"seed": rng.randrange(2**31), "shape": list(shape), "ops": [name]})
    for dname in M.directed_triangles():      # notes/HARDENING.md families A-L: every operation once on each
        for name in names:
            if name.startswith("plot.plot_") and (ctx.quick or dname.startswith("F:empty")):
                continue
            cases.append({"seed": rng.randrange(2**31), "directed": dname, "ops": [name]})
    for lname in M.large_triangles(not ctx.quick):      # HARDENING Q: a selected set of operations on LARGE triangles
        for name in M.LARGE_OPS + ([] if ctx.quick and "5000" not in lname else M.LARGE_CHART_OPS):
            if ctx.quick and (lname, name) in {("Q:50x66-rows", "utils.bootstrap"), ("Q:50x66-rows", "plot.build_plot_data")}:
                continue                                  # 15-30 s each: thorough tier only
            if name in names:
                cases.append({"seed": rng.randrange(2**31), "large": lname, "thorough": not ctx.quick, "ops": [name]})
    nseq = 700 if ctx.quick else 6000
    maxlen = 6 if ctx.quick else 12
    for _ in range(nseq):                    # random operation sequences, every position watched
        cases.append({"seed": rng.randrange(2**31), "shape": list(rng.choice(M.SHAPES)),
                      "length": rng.randint(1, maxlen), "no_charts": ctx.quick})
    return cases


def _monitor_worker(cases, tmp, q):
    """Runs its cases one by one, announcing each before it starts: if the interpreter itself dies inside an
    operation (a C extension aborting under the memory cap, a segfault) the parent knows which case it was."""
    for i, case in cases:
        q.put(("start", i, None))
        q.put(("done", i, _monitor_chunk(([case], tmp))[0]))
    q.put(("end", -1, None))


def run_monitor(ctx, cases):
    import multiprocessing as mp
    import queue as _queue

    tmp = ctx.build / f"tmp-{os.getpid()}"         # concurrent runs of this check must not share it
    shutil.rmtree(tmp, ignore_errors=True)
    tmp.mkdir(parents=True, exist_ok=True)
    mpc = mp.get_context("fork")
    q = mpc.Queue()
    indexed = list(enumerate(cases))
    pending = {w: indexed[w::16] for w in range(16)}
    procs, current, results, crashed = {}, {}, {}, []

    def launch(w):
        if pending[w]:
            procs[w] = mpc.Process(target=_monitor_worker, args=(pending[w], str(tmp), q), daemon=True)
            procs[w].start()

    owner = {i: w for w, lst in pending.items() for i, _ in lst}
    for w in range(16):
        launch(w)
    deadline = time.time() + (1500 if ctx.quick else 6000)
    while procs and time.time() < deadline:
        try:
            kind, i, payload = q.get(timeout=1.0)
        except _queue.Empty:
            kind = None
        if kind == "start":
            current[owner[i]] = i
        elif kind == "done":
            results[i] = payload
            w = owner[i]
            pending[w] = [(j, c) for j, c in pending[w] if j != i]
            current.pop(w, None)
        for w, pr in list(procs.items()):
            if not pr.is_alive() and q.empty():
                pr.join()
                del procs[w]
                if w in current:                     # the interpreter died inside this case: skip it, go on
                    i = current.pop(w)
                    crashed.append(cases[i])
                    results[i] = (cases[i], {"info": {}, "trace": [("<case>", "skipped:interpreter-died")]}, [])
                    pending[w] = [(j, c) for j, c in pending[w] if j != i]
                if pending[w] and pr.exitcode != 0:
                    launch(w)
                elif pending[w]:                     # exited cleanly but results still in flight
                    procs[w] = pr
    for pr in procs.values():
        if pr.is_alive():
            pr.terminate()
    for i, case in indexed:
        results.setdefault(i, (case, {"info": {}, "trace": [("<case>", "skipped:not-run")]}, []))
    shutil.rmtree(tmp, ignore_errors=True)
    if crashed:
        ctx.notes.append(f"{len(crashed)} monitor case(s) killed the worker interpreter and were skipped: " + repr(crashed[:3]))
        ctx.log(f"monitor: {len(crashed)} case(s) killed the worker interpreter (skipped): {crashed[:2]}")
    return [results[i] for i, _ in indexed]


# ------------------------------------------------------------------------------------------ the check
def run(ctx):
    from translate import t_inplace

    ctx.rule = (
        "heap tie: for each of 18 kernels, arguments drawn from a pool of 3-4 float arrays (the same array object "
        "reused across values/dicts/cells), dicts shared between cells, the same cell passed twice, None/number/"
        "array/ill-typed entries, broken chains and key mismatches (error branches); result alias graph by id() and "
        "np.shares_memory; 13 + 5 public entry points on 1-3 slice quarterly triangles with shared dicts/arrays/cells "
        "(period_merge: tri2 with one/several/no cell per index, own cells of tri1, other cell type, suffix None/''/'_r'; "
        "convert_currency: 1-4 slices in USD/EUR/GBP/None, missing rates, None values; fill_forward_gaps: rows with holes, "
        "resolution 3/6, fill_with_none; backfill: first lag 0-3, several static_fields incl. missing ones; "
        "derive_metadata: 0-3 definitions). monitor: 135+ public operations x {scalar,array} x {cumulative,incremental} x "
        "{single,multi slice} triangles from harness/gen.py, plus random operation sequences (length 1-6 quick, "
        "1-12 thorough) where every earlier triangle stays watched. Non-trivial = distinct case with >= 2 heap objects "
        "(kernels) / >= 2 cells (monitor) or an error branch.")
    ctx.assumptions += [
        "PARTIAL: proved = frame property + alias graph of the listed kernels in the heap model (Model/Heap.v)",
        "proved in the heap model as kernel compositions: 13 entry points (Props/C03.v) + period_merge, convert_currency, "
        "fill_forward_gaps, backfill, Triangle.derive_metadata (Props/C03b.v); tied by the heap-level correspondence stream",
        "NOT proved: that the remaining public entry points are compositions of these kernels with no other write "
        "(monitored by harness/monitor.py and screened by translate/t_inplace.py only)",
        "NumPy view semantics (slices, .T, frombuffer), dtype casting and user callables are not modelled; the "
        "harness detects view aliasing of results with np.shares_memory",
        "LARGE monitor triangles (140-257 slices merging into one group, 140 periods into one year, 5000-sample arrays, 3300 cells; "
        "thorough: 2200 slices, 1100 periods, 100000 samples) are judged by the fingerprint monitor only: the heap theorems are "
        "size-independent, the kernel/entry-point correspondence samples small sizes",
        "the policy-year vals_dict accumulation is tied per produced cell (contributing quarters re-derived with the "
        "module's own share helpers) and at function level (fingerprint + shares_memory)",
    ]
    # 1. proofs
    ctx.audit_tree(["Model/Heap.v", "Model/HeapApi.v", "Proofs/HeapFrame.v", "Proofs/HeapKernels.v", "Proofs/HeapApi.v",
                    "Props/C03.v", "Model/HeapApi2.v", "Proofs/HeapApi2.v", "Props/C03b.v"])
    ctx.prove_static("Props/C03.v", timeout=600)
    ctx.prove_static("Props/C03b.v", timeout=600)
    if not ctx.quick:
        coqchk(ctx)
    # 2. syntactic screen
    new_sites = []
    try:
        sites = t_inplace.scan(REPO)
        new_sites, vanished = t_inplace.compare(sites)
        ctx.obligation("T-inplace: every in-place statement targets a fresh local or a pinned, reviewed site",
                       not new_sites, "\n".join(f"{s['file']}:{s['line']} {s['function']}: {s['source']} [{s['origin']}]"
                                                for s in new_sites))
        ctx.extra["inplace_sites_pinned"] = len(sites) - len(new_sites)
        if vanished:
            ctx.notes.append(f"{len(vanished)} pinned in-place site(s) no longer present (harmless): " + "; ".join(vanished[:3]))
        for s in new_sites[:5]:
            ctx.log(f"NEW in-place site {s['file']}:{s['line']} {s['function']}: {s['source']}")
    except t_inplace.Unsupported as ex:
        ctx.obligation("T-inplace: every in-place statement targets a fresh local or a pinned, reviewed site", False, str(ex))
    # 3. heap-level correspondence
    rng = random.Random(ctx.seed * 104723 + 11)
    per = 40 if ctx.quick else 400
    cases = []
    for kernel in KERNELS:
        for _ in range(per):
            cases.append((kernel, rng.randrange(2**31)))
    done = []
    found_input = False
    flagged = set()
    for kernel, seed in cases:
        out = run_kernel_case(kernel, seed)
        ctx.hist(f"kernel:{kernel}:" + (out["skipped"] and "skipped" or out["outcome"].split(":")[0]))
        if out["changed"] and kernel not in flagged:
            found_input = True
            flagged.add(kernel)
            ctx.violation("impl-violation", f"kernel {kernel} changed an argument: {out['changed'][0][1]}",
                          {"mode": "kernel", "kernel": kernel, "seed": seed, "change": out["changed"][0][1]},
                          found_input=True)
        if out["skipped"]:
            continue
        done.append((kernel, seed, out))
        if out["n_objs"] >= 2 or out["outcome"] != "returned":
            ctx.nontriv(("kernel", kernel, seed))
        if out.get("shared"):
            ctx.hist("kernel-cases-with-shared-objects")
    for s in range(60 if ctx.quick else 600):
        pseed = rng.randrange(2**31)
        changes, bad, outcome = policy_year_alias_check(pseed)
        ctx.hist("kernel:policy_year(function-level):" + outcome.split(":")[0])
        if changes or bad:
            found_input = True
            ctx.violation("impl-violation", f"accident_quarter_to_policy_year: {changes or bad}",
                          {"mode": "policy_year", "seed": pseed, "changes": repr(changes), "aliased_fields": bad}, found_input=True)
    for _ in range(40 if ctx.quick else 400):
        pseed = rng.randrange(2**31)
        with warnings.catch_warnings():
            warnings.simplefilter("ignore")
            py = policy_year_cases(pseed)
        ctx.hist("kernel:policy_year_cell:" + py["outcome"].split(":")[0])
        if py["changed"] and "policy_year_cell" not in flagged:
            found_input = True
            flagged.add("policy_year_cell")
            ctx.violation("impl-violation", f"_accident_quarter_to_policy_year_slice changed its argument: {py['changed'][0][1]}",
                          {"mode": "policy_year_cell", "seed": pseed, "change": py["changed"][0][1]}, found_input=True)
        for k_, case in enumerate(py["cases"]):
            done.append(("policy_year_cell", pseed, case))
            ctx.nontriv(("kernel", "policy_year_cell", pseed, k_))
    per_api = 30 if ctx.quick else 300
    for entry in ENTRIES:
        for _ in range(per_api):
            aseed = rng.randrange(2**31)
            out = run_api_case(entry, aseed)
            ctx.hist(f"entry:{entry}:" + (out["skipped"] and "skipped" or out["outcome"].split(":")[0]))
            if out["changed"] and ("entry:" + entry) not in flagged:
                found_input = True
                flagged.add("entry:" + entry)
                ctx.violation("impl-violation", f"entry point {entry} changed an argument: {out['changed'][0][1]}",
                              {"mode": "entry", "entry": entry, "seed": aseed, "change": out["changed"][0][1]},
                              found_input=True)
            if out["skipped"]:
                continue
            done.append(("entry:" + entry, aseed, out))
            ctx.nontriv(("entry", entry, aseed))
    for entry in ENTRIES2:
        for _ in range(per_api):
            aseed = rng.randrange(2**31)
            out = run_api2_case(entry, aseed)
            ctx.hist(f"entry:{entry}:" + (out["skipped"] and "skipped" or out["outcome"].split(":")[0]))
            if out["changed"] and ("entry:" + entry) not in flagged:
                found_input = True
                flagged.add("entry:" + entry)
                ctx.violation("impl-violation", f"entry point {entry} changed an argument: {out['changed'][0][1]}",
                              {"mode": "entry2", "entry": entry, "seed": aseed, "change": out["changed"][0][1]},
                              found_input=True)
            if out["skipped"]:
                continue
            done.append(("entry:" + entry, aseed, out))
            ctx.nontriv(("entry", entry, aseed))
    ctx.count(evaluations=len(done) + (60 if ctx.quick else 600), traces=len(done))
    for f in ctx.build.glob(f"cases_{os.getpid()}_*"):
        f.unlink()
    files = []
    chunk = 120
    for i in range(0, len(done), chunk):
        part = done[i:i + chunk]
        txt = (CASE_HEADER + "Definition cases : list bool := [\n" + ";\n".join(o["coq"] for _, _, o in part) + "].\n"
               "Eval vm_compute in failing cases.\n"
               "Definition muts : list bool := [\n" + ";\n".join(o["mut"] for _, _, o in part) + "].\n"
               "Eval vm_compute in length (filter (fun b => b) muts).\n")
        f = ctx.build / f"cases_{os.getpid()}_{i // chunk}.v"
        f.write_text(txt)
        files.append((f, part))
    res = ctx.coqc_many([f for f, _ in files], jobs=16, timeout=900)
    for f, _ in files:          # a coqc killed under memory pressure (no output) is retried alone
        if res[f][0] != 0 and not res[f][1].strip():
            res[f] = ctx.coqc(f, timeout=900)
    mism, exposed = [], 0
    for f, part in files:
        rc, out = res[f]
        vals = parse_coq_eval(out)
        if rc != 0 or len(vals) < 2:
            mism.append(("coqc-failed", f.name, out[-800:]))
            continue
        idx = [int(x) for x in vals[0].strip("[]").replace("%nat", "").split(";") if x.strip()]
        exposed += int(vals[1].replace("%nat", ""))
        for i in idx:
            mism.append((part[i][0], part[i][1], part[i][2]["outcome"]))
    for f in ctx.build.glob(f"cases_{os.getpid()}_*"):
        f.unlink()
    ctx.extra["kernel_cases_on_which_the_buggy_variant_would_write_an_argument"] = exposed
    ctx.obligation("heap-level correspondence: model outcome, frame and alias graph = implementation", not mism,
                   repr(mism[:6]))
    ctx.log(f"heap tie: {len(done)} cases, {len(mism)} mismatches, buggy variants would write in {exposed} cases")
    for k, s, o in done[:2]:
        ctx.sample({"kernel_case": k, "seed": s, "coq": o["coq"][:600]})
    if mism and not found_input:
        ctx.violation("correspondence", "heap model and implementation disagree (outcome / alias graph)",
                      {"mode": "kernel-mismatch", "mismatches": [list(map(str, m)) for m in mism[:10]]}, found_input=False)
    # 4. API-wide monitor (always)
    mcases = monitor_cases(ctx)
    if new_sites or mism:
        # directed extra search: more single-operation cases
        extra = random.Random(ctx.seed + 99)
        for name in sorted(M.ops()):
            for shape in M.SHAPES:
                for _ in range(4):
                    mcases.append({"seed": extra.randrange(2**31), "shape": list(shape), "ops": [name]})
    results = run_monitor(ctx, mcases)
    ncalls, nviol, nknown = 0, 0, 0
    seen_ops = set()
    probe_defaultdict(ctx)
    for case, rec, viol in results:
        for name, outcome in rec["trace"]:
            ncalls += 1
            ctx.hist("monitor:" + outcome.split(":")[0])
            seen_ops.add(name)
        if rec["info"]:
            ctx.hist("monitor-triangle:" + rec["info"].get("shape", "?"))
            if rec["info"].get("large"):
                ctx.hist("monitor-triangle:LARGE " + rec["info"]["large"])
            if rec["info"].get("narrow_dtype"):
                ctx.hist("monitor-triangle:arrays of dtype " + rec["info"]["narrow_dtype"])
            if rec["info"].get("falsy_details"):
                ctx.hist("monitor-triangle:details/loss_details with None or falsy values")
            if rec["info"].get("n_cells", 0) >= 2 or any(o.startswith("raised") for _, o in rec["trace"]):
                ctx.nontriv(("monitor", case["seed"], tuple(case.get("ops") or []), case.get("length")))
        for v in viol:
            cls = classify(v["change"])
            if cls is not None:
                nknown += 1
                if nknown <= 2:
                    ctx.violation("impl-violation",
                                  f"{v['op']} ({v['outcome']}) changed its argument {v['argument']}: {v['change'][:300]}",
                                  {"mode": "monitor", **v}, found_input=True, finding_class=cls)
                continue
            nviol += 1
            if nviol <= 5:
                ctx.violation("impl-violation",
                              f"{v['op']} ({v['outcome']}) changed its argument {v['argument']}: {v['change'][:300]}",
                              {"mode": "monitor", **v}, found_input=True)
    ctx.count(evaluations=ncalls)
    ctx.extra["monitor_operations_covered"] = len(seen_ops)
    ctx.extra["monitor_calls"] = ncalls
    ctx.extra["monitor_changed_arguments_in_known_finding_class"] = nknown
    ctx.obligation("API-wide monitor: no argument fingerprint changed", nviol == 0, f"{nviol} changed arguments")
    ctx.log(f"monitor: {len(mcases)} cases, {ncalls} calls over {len(seen_ops)} operations, {nviol} changed arguments")
    if results:
        ctx.sample({"monitor_case": results[-1][0], "trace": results[-1][1]["trace"]})



def coqchk(ctx):
    """thorough tier: re-check the compiled property file and everything it depends on with coqchk"""
    from harness.common import COQ, sh

    cmd = ["coqchk", "-silent", "-o", "-Q", str(COQ), "Bermuda", "Bermuda.Props.C03"]
    ctx.checker_cmds.append(" ".join(cmd))
    rc, out = sh(cmd, timeout=1800, cwd=COQ)
    ok = rc == 0 and "Axioms: <none>" in " ".join(out.split())
    ctx.obligation("coqchk Bermuda.Props.C03 (no axioms, no assumed positivity/guardedness)", ok, out[-800:])


def replay(ctx, data):
    from pathlib import Path

    mode = data.get("mode")
    if mode == "monitor":
        tmp = ctx.build / "tmp"
        tmp.mkdir(parents=True, exist_ok=True)
        case = {"seed": data["seed"], "shape": data.get("shape"), "ops": data["ops"], "directed": data.get("directed"),
                "large": data.get("large"), "thorough": data.get("thorough", False)}
        rec, viol = M.run_case(case, Path(tmp))
        print("trace:", rec["trace"])
        for v in viol:
            print("CHANGED:", v["op"], v["argument"], v["change"])
        return 1 if viol else 0
    if mode == "kernel":
        out = run_kernel_case(data["kernel"], data["seed"])
        print(data["kernel"], out.get("outcome"), "changed:", out["changed"])
        return 1 if out["changed"] else 0
    if mode == "entry":
        out = run_api_case(data["entry"], data["seed"])
        print(data["entry"], out.get("outcome"), "changed:", out["changed"])
        return 1 if out["changed"] else 0
    if mode == "entry2":
        out = run_api2_case(data["entry"], data["seed"])
        print(data["entry"], out.get("outcome"), "changed:", out["changed"])
        return 1 if out["changed"] else 0
    if mode == "policy_year_cell":
        py = policy_year_cases(data["seed"])
        print(py["outcome"], py["changed"])
        return 1 if py["changed"] else 0
    if mode == "probe_defaultdict":
        class _C:
            def violation(self, *a, **k):
                print("CHANGED:", a[1])
        return 1 if probe_defaultdict(_C()) else 0
    if mode == "policy_year":
        changes, bad, outcome = policy_year_alias_check(data["seed"])
        print(outcome, changes, bad)
        return 1 if changes or bad else 0
    print("replay data:", data)
    return 1
