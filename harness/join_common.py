"""Helpers shared by harness/c11.py and harness/c10.py: JSON (replay) form of cells, Coq printers for
the argument types of Model/Select.v / Model/Join.v, the cases-file builder and runner, generator
wrappers (duplicate coordinates, equal-but-differently-written metadata)."""
from __future__ import annotations

import datetime
import warnings

import numpy as np

from harness import coqterm as ct
from harness.common import parse_coq_eval

D = datetime.date
ONE = datetime.timedelta(days=1)


def bermuda():
    import bermuda as b

    return b


# ------------------------------------------------------------------ JSON form (replays)
def val_to_json(v):
    if v is None:
        return None
    if isinstance(v, np.ndarray):
        return {"arr": v.dtype.str, "v": v.tolist()}
    if isinstance(v, (bool, np.bool_)):
        return {"bool": bool(v)}
    if isinstance(v, (int, np.integer)):
        return int(v)
    if isinstance(v, (float, np.floating)):
        return {"f": float(v).hex()}
    raise TypeError(type(v))


def val_from_json(j):
    if j is None or isinstance(j, int):
        return j
    if "arr" in j:
        return np.array(j["v"], dtype=np.dtype(j["arr"]))
    if "bool" in j:
        return j["bool"]
    return float.fromhex(j["f"])


def mval_to_json(v):
    if isinstance(v, datetime.date):
        return {"date": v.isoformat()}
    if isinstance(v, str):
        return {"s": v}
    return val_to_json(v)


def mval_from_json(j):
    if isinstance(j, dict) and "date" in j:
        return D.fromisoformat(j["date"])
    if isinstance(j, dict) and "s" in j:
        return j["s"]
    return val_from_json(j)


def meta_to_json(m):
    return {"risk_basis": m.risk_basis, "country": m.country, "currency": m.currency,
            "reinsurance_basis": m.reinsurance_basis, "loss_definition": m.loss_definition,
            "per_occurrence_limit": val_to_json(m.per_occurrence_limit),
            "details": [[k, mval_to_json(v)] for k, v in m.details.items()],
            "loss_details": [[k, mval_to_json(v)] for k, v in m.loss_details.items()]}


def meta_from_json(j):
    b = bermuda()
    return b.Metadata(risk_basis=j["risk_basis"], country=j["country"], currency=j["currency"],
                      reinsurance_basis=j["reinsurance_basis"], loss_definition=j["loss_definition"],
                      per_occurrence_limit=val_from_json(j["per_occurrence_limit"]),
                      details={k: mval_from_json(v) for k, v in j["details"]},
                      loss_details={k: mval_from_json(v) for k, v in j["loss_details"]})


def cell_to_json(c):
    j = {"cls": type(c).__name__, "ps": c.period_start.isoformat(), "pe": c.period_end.isoformat(),
         "ev": c.evaluation_date.isoformat(), "meta": meta_to_json(c.metadata),
         "values": [[k, val_to_json(v)] for k, v in c.values.items()]}
    if type(c).__name__ == "IncrementalCell":
        j["prev"] = c.prev_evaluation_date.isoformat()
    return j


def cell_from_json(j):
    b = bermuda()
    kw = dict(period_start=D.fromisoformat(j["ps"]), period_end=D.fromisoformat(j["pe"]),
              evaluation_date=D.fromisoformat(j["ev"]), metadata=meta_from_json(j["meta"]),
              values={k: val_from_json(v) for k, v in j["values"]})
    if j["cls"] == "IncrementalCell":
        return b.IncrementalCell(prev_evaluation_date=D.fromisoformat(j["prev"]), **kw)
    return {"Cell": b.Cell, "CumulativeCell": b.CumulativeCell}[j["cls"]](**kw)


def tri_to_json(t):
    return [cell_to_json(c) for c in (t.cells if hasattr(t, "cells") else t)]


def tri_from_json(js):
    with warnings.catch_warnings():
        warnings.simplefilter("ignore")
        return bermuda().Triangle([cell_from_json(j) for j in js])


# ------------------------------------------------------------------ Coq printers
def cz(n: int) -> str:
    return f"({n})" if n < 0 else str(n)


def copt(x, f=str) -> str:
    return "None" if x is None else f"(Some {f(x)})"


def cdate_opt(d) -> str:
    return copt(d, lambda x: str(x.toordinal()))


def cstrs(ks) -> str:
    return "[" + ";".join(ct.cstr(k) for k in ks) + "]"


def cnat_list(xs) -> str:
    return "[" + ";".join(f"{x}%nat" for x in xs) + "]"


def clip_args(kw: dict) -> str:
    unit = kw.get("dev_lag_unit", "month")
    u = "UDay" if "day" in unit.lower() else "UMonth"
    return ("(mkClip " + " ".join(cdate_opt(kw.get(k)) for k in ("min_eval", "max_eval", "min_period", "max_period"))
            + " " + copt(kw.get("min_dev"), ct.cnum) + " " + copt(kw.get("max_dev"), ct.cnum) + f" {u})")


def canon_seq(cells):
    return [ct.canon_cell(c, ordered=True) for c in cells]


def out_cells_term(out_cells, in_cells, tname):
    """Coq term for a list of output cells: positions of the input triangle when every output cell
    IS an input cell (identity) -- strict equality of such a cell with the input is then trivial --
    otherwise the literal."""
    pos = {}
    for i, c in enumerate(in_cells):
        pos.setdefault(id(c), i)
    idx = [pos.get(id(c)) for c in out_cells]
    if all(i is not None for i in idx):
        return f"(pick {cnat_list(idx)} {tname})"
    return ct.ccells(out_cells)


def cresult(thunk, ok_printer) -> tuple[str, object]:
    """(Coq term `Ok ..`/`Err ..`, python result or exception)"""
    try:
        with warnings.catch_warnings():
            warnings.simplefilter("ignore")
            r = thunk()
    except ct.NotRepresentable:
        raise
    except Exception as ex:  # noqa: BLE001
        return f"(Err {ct.cerr(ex)})", ex
    return f"(Ok {ok_printer(r)})", r


# ------------------------------------------------------------------ cases files
class Cases:
    """Collects definitions and boolean case expressions and evaluates them inside coqc.
    add(expr, payload): one case; run() returns the payloads of the cases evaluating to false.
    shared: definitions repeated in every file (e.g. a cell universe).
    lit(cell): a term denoting the cell through a per-file table of distinct literals (coqc parses
    ~6 ms per cell literal, so repeated output cells are written once)."""

    DUMMY = "(mkCell KCell 0 0 0 None default_meta [])"

    def __init__(self, ctx, prefix, imports, per_file_cells=260, per_file_cases=1500, shared=()):
        self.ctx, self.prefix, self.imports = ctx, prefix, imports
        self.per_file_cells, self.per_file_cases = per_file_cells, per_file_cases
        self.shared = list(shared)      # (text, ncells)
        self.hold = False               # True: begin_case() never starts a new file (per-case definitions in use)
        self.codes = False              # True: cases are `nat` codes, 0 = fine; failing payloads get ["code"]
        self.files = []
        self._new()

    def _new(self):
        self.cur = {"defs": [t for t, _ in self.shared], "cases": [], "cells": sum(n for _, n in self.shared),
                    "lits": {}, "lit_terms": []}
        self.files.append(self.cur)

    def full(self):
        return self.cur["cells"] > self.per_file_cells or len(self.cur["cases"]) >= self.per_file_cases

    def begin_case(self):
        """call before building a case that uses lit(): may start a new file"""
        if not self.hold and self.full() and self.cur["cases"]:
            self._new()

    def add_def(self, name, term, ncells, ty="list cell"):
        if not self.hold and (self.cur["cells"] + ncells > self.per_file_cells
                              or len(self.cur["cases"]) > self.per_file_cases) and self.cur["cases"]:
            self._new()
        self.cur["defs"].append(f"Definition {name} : {ty} :=\n  {term}.")
        self.cur["cells"] += ncells

    def lit(self, cell):
        key = ct.canon_cell(cell, ordered=True)
        i = self.cur["lits"].get(key)
        if i is None:
            i = len(self.cur["lit_terms"])
            self.cur["lits"][key] = i
            self.cur["lit_terms"].append(ct.ccell(cell))
            self.cur["cells"] += 1
        return f"(L {i})"

    def lits(self, cells):
        return "[" + ";".join(self.lit(c) for c in cells) + "]"

    def add(self, expr, payload):
        self.cur["cases"].append((expr, payload))

    def total(self):
        return sum(len(f["cases"]) for f in self.files)

    def run(self, timeout=900):
        """returns (list of failing payloads, list of machinery errors)"""
        paths = []
        for i, f in enumerate(self.files):
            if not f["cases"]:
                continue
            body = ";\n  ".join(e for e, _ in f["cases"])
            table = ("Definition lit_table : list cell :=\n  [" + ";\n   ".join(f["lit_terms"]) + "].\n"
                     f"Definition L (i : nat) : cell := nth i lit_table {self.DUMMY}.\n")
            if self.codes:
                tail = ("Definition cases : list nat := [\n  " + body + "].\n"
                        "Fixpoint nz (i : nat) (l : list nat) : list (nat * nat) :=\n"
                        "  match l with [] => [] | O :: r => nz (S i) r | c :: r => (i, c) :: nz (S i) r end.\n"
                        "Eval vm_compute in nz O cases.\n")
            else:
                tail = ("Definition cases : list bool := [\n  " + body + "].\n"
                        "Eval vm_compute in failing cases.\n")
            txt = ct.COQ_HEADER + self.imports + "\n" + table + "\n".join(f["defs"]) + "\n" + tail
            p = self.ctx.build / f"{self.prefix}_{i}.v"
            p.write_text(txt)
            paths.append((p, f))
        res = self.ctx.coqc_many([p for p, _ in paths], jobs=16, timeout=timeout)
        bad, errs = [], []
        for p, f in paths:
            rc, out = res[p]
            if rc != 0:
                errs.append((p.name, out[-1500:]))
                continue
            vals = parse_coq_eval(out)
            if not vals:
                errs.append((p.name, "no Eval output: " + out[-300:]))
                continue
            if self.codes:
                import re

                for i, c in re.findall(r"\((\d+)(?:%nat)?\s*,\s*(\d+)(?:%nat)?\)", vals[-1]):
                    pl = dict(f["cases"][int(i)][1])
                    pl["code"] = int(c)
                    bad.append(pl)
                continue
            idx = [int(x) for x in vals[-1].strip("[]").replace("%nat", "").split(";") if x.strip()]
            for i in idx:
                bad.append(f["cases"][i][1])
        return bad, errs


# ------------------------------------------------------------------ generator wrappers
def _rerepresent(v, rng):
    """a Python-equal value of another type: 7 -> 7.0, 7.0 -> 7, True -> 1"""
    if isinstance(v, bool):
        return int(v) if rng.random() < 0.5 else v
    if isinstance(v, int) and rng.random() < 0.5:
        return float(v)
    if isinstance(v, float) and v.is_integer() and rng.random() < 0.5:
        return int(v)
    return v


def alias_meta(m, rng):
    """A Python-equal Metadata written differently: detail dicts filled in the reverse key order,
    numbers re-typed (7 vs 7.0, True vs 1), int limit as float.  No assertion on ==/hash here: the
    library's own == / hash are under test, the oracles use an independent canonical key."""
    b = bermuda()
    det = {k: _rerepresent(v, rng) for k, v in reversed(list(m.details.items()))}
    ld = {k: _rerepresent(v, rng) for k, v in reversed(list(m.loss_details.items()))}
    lim = m.per_occurrence_limit
    if isinstance(lim, int) and not isinstance(lim, bool) and rng.random() < 0.7:
        lim = float(lim)
    return b.Metadata(risk_basis=m.risk_basis, country=m.country, currency=m.currency,
                      reinsurance_basis=m.reinsurance_basis, loss_definition=m.loss_definition,
                      per_occurrence_limit=lim, details=det, loss_details=ld)


def at_least_two_details(m):
    """the metadata with >= 2 detail keys (so that a different insertion order exists)"""
    if len(m.details) >= 2:
        return m
    b = bermuda()
    det = dict(m.details)
    for k, v in (("coverage", "BI"), ("state", "NY")):
        det.setdefault(k, v)
    return b.Metadata(risk_basis=m.risk_basis, country=m.country, currency=m.currency,
                      reinsurance_basis=m.reinsurance_basis, loss_definition=m.loss_definition,
                      per_occurrence_limit=m.per_occurrence_limit, details=det, loss_details=dict(m.loss_details))


def moved_meta(m):
    """A DIFFERENT Metadata with the same flattened content: one key moved from details to
    loss_details, or a top-level attribute re-stated as a detail key of the same name"""
    b = bermuda()
    kw = dict(risk_basis=m.risk_basis, country=m.country, currency=m.currency,
              reinsurance_basis=m.reinsurance_basis, loss_definition=m.loss_definition,
              per_occurrence_limit=m.per_occurrence_limit, details=dict(m.details), loss_details=dict(m.loss_details))
    movable = [k for k in m.details if k not in m.loss_details]
    if movable:
        k = movable[0]
        kw["loss_details"] = {**kw["loss_details"], k: kw["details"].pop(k)}
    elif m.currency is not None and "currency" not in m.details:
        kw["details"]["currency"] = m.currency
        kw["currency"] = None
    elif m.country is not None and "country" not in m.details:
        kw["details"]["country"] = m.country
        kw["country"] = None
    else:
        kw["loss_details"] = {**kw["loss_details"], "coverage": "BI"}
        return b.Metadata(**kw), b.Metadata(**{**kw, "loss_details": dict(m.loss_details),
                                               "details": {**kw["details"], "coverage": "BI"}})
    return b.Metadata(**kw), m


def with_meta(c, m):
    b = bermuda()
    kw = dict(period_start=c.period_start, period_end=c.period_end, evaluation_date=c.evaluation_date,
              values=dict(c.values), metadata=m)
    if type(c).__name__ == "IncrementalCell":
        return b.IncrementalCell(prev_evaluation_date=c.prev_evaluation_date, **kw)
    return type(c)(**kw)


def with_values(c, vals):
    b = bermuda()
    kw = dict(period_start=c.period_start, period_end=c.period_end, evaluation_date=c.evaluation_date,
              values=vals, metadata=c.metadata)
    if type(c).__name__ == "IncrementalCell":
        return b.IncrementalCell(prev_evaluation_date=c.prev_evaluation_date, **kw)
    return type(c)(**kw)


def mk_triangle(cells):
    with warnings.catch_warnings():
        warnings.simplefilter("ignore")
        return bermuda().Triangle(cells)


def month_id(d):
    return d.year * 12 + d.month - 1


def is_month_end(d):
    return (d + ONE).day == 1


def month_aligned(t):
    return all(is_month_end(c.period_end) and is_month_end(c.evaluation_date) for c in t.cells)


def add_months_end(d, k):
    """month end k months after the month of d"""
    i = month_id(d) + k + 1
    return D(i // 12, i % 12 + 1, 1) - ONE


# ------------------------------------------------------------------ family O: objects that crossed a process boundary
PRODUCER = r"""
import pickle, sys, warnings
warnings.simplefilter("ignore")
from harness import c10, join_common as jc
import bermuda
ul, ur, u3 = c10.universes(sys.argv[2])
t = jc.mk_triangle(ul)
# touch everything that hashes the metadata, as an application would before storing the triangle
t.slices; t.right_edge; bermuda.utils.join(t, jc.mk_triangle(ur), "inner"); hash(t.cells[0].metadata); set(c.metadata for c in t.cells)
pickle.dump(t, open(sys.argv[1], "wb"))
"""
CONSUMER = r"""
import json, pickle, sys, warnings
warnings.simplefilter("ignore")
from harness import c10, c11, join_common as jc, coqterm as ct
import bermuda
basis = sys.argv[2]
ul, ur, u3 = c10.universes(basis)
stored = pickle.load(open(sys.argv[1], "rb"))            # hashed and pickled by ANOTHER interpreter
local = jc.mk_triangle(ul)                               # the same triangle built here
right = jc.mk_triangle(ur)
out = {"equal_to_local": jc.canon_seq(stored.cells) == jc.canon_seq(local.cells), "problems": []}
P = out["problems"]
def canon(r):
    return repr(c10.canon_result(r))
for left_name, left in (("stored", stored), ("stored+local", jc.mk_triangle(stored.cells[:3] + local.cells[3:]))):
    for jt in c10.JOIN_TYPES:
        for on in (None, ["country"], ["lob", "per_occurrence_limit"]):
            for a, b in ((left, right), (right, left), (left, local)):
                r = c10.call(lambda: bermuda.utils.join(a, b, jt, on))
                P += [f"{left_name}: " + x for x in c10.oracle_join(a, b, jt, on, r)]
                r = c10.call(lambda: a.merge(b, join_type=jt, on=on))
                P += [f"{left_name}: " + x for x in c10.oracle_join(a, b, jt, on, r, merged=True)]
    for ts in ([left, right], [right, left, local], [local, left]):
        P += [f"{left_name}: " + x for x in c10.oracle_coalesce(ts, c10.call(lambda: ts[0].coalesce(ts[1:])))]
    for a, b in ((left, right), (right, left), (local, left)):
        P += [f"{left_name}: " + x for x in c10.oracle_statics(a, b, ["prem", "paid"], c10.call(lambda: a.add_statics(b, statics=["prem", "paid"])))]
        P += [f"{left_name}: " + x for x in c10.oracle_pm(a, b, "_s", c10.call(lambda: a.period_merge(b, suffix="_s")))]
# C11: one triangle holding stored and locally built cells of the same slices
mixed = jc.mk_triangle(stored.cells + [jc.with_values(c, {"other": 1}) for c in local.cells])
for op in ({"kind": "slices"}, {"kind": "right_edge"}, {"kind": "split", "keys": ["lob"]},
           {"kind": "getitem", "index": ["triple", ["slice", None, None], ["slice", None, None], ["meta", jc.meta_to_json(local.cells[0].metadata)]]}):
    P += ["mixed triangle: " + x for x in c11.oracle(mixed, op, c11.call_op(mixed, op))]
out["problems"] = P[:12]
out["n_problems"] = len(P)
print("RESULT " + json.dumps(out))
"""


def cross_process_probe(ctx, basis="cum"):
    """(problems, machinery error): a triangle hashed and pickled under PYTHONHASHSEED=101 is unpickled under
    PYTHONHASHSEED=202 and joined / merged / coalesced / enriched / grouped with locally built equal cells; the
    python oracles of C10 / C11 judge the results inside the consumer."""
    import json
    import os
    import subprocess

    from harness.common import PY, REPO, ROOT

    path = ctx.build / f"crossproc_{basis}.pkl"
    env = dict(os.environ, PYTHONPATH=f"{REPO}:{ROOT}", PYTHONDONTWRITEBYTECODE="1")
    p1 = subprocess.run([PY, "-c", PRODUCER, str(path), basis], env=dict(env, PYTHONHASHSEED="101"),
                        capture_output=True, text=True, timeout=300, cwd=str(ROOT))
    if p1.returncode != 0:
        return [], "producer failed: " + p1.stderr[-600:]
    p2 = subprocess.run([PY, "-c", CONSUMER, str(path), basis], env=dict(env, PYTHONHASHSEED="202"),
                        capture_output=True, text=True, timeout=300, cwd=str(ROOT))
    line = [ln for ln in p2.stdout.splitlines() if ln.startswith("RESULT ")]
    if p2.returncode != 0 or not line:
        return [], "consumer failed: " + (p2.stderr or p2.stdout)[-600:]
    res = json.loads(line[-1][7:])
    probs = list(res["problems"])
    if not res["equal_to_local"]:
        probs.insert(0, "the unpickled triangle is not cell-for-cell equal to the locally built one")
    return probs, None


# ------------------------------------------------------------------ family Q: large inputs (python oracles only)
def big_triangle(slice_sizes=(256, 1), n_evals=4, start=(2000, 1), fields=("paid", "prem"), value_shift=0,
                 alias_every=0, inc=False, limit=None):
    """One slice per entry of slice_sizes (cells per slice, monthly periods x n_evals evaluation dates, the last
    period partial), metadata differing in details['lob'] (and per_occurrence_limit when `limit`)."""
    b = bermuda()
    cells = []
    for si, size in enumerate(slice_sizes):
        kw = dict(country="US", details={"lob": f"L{si:05d}", "grp": si % 7})
        if limit:
            kw["per_occurrence_limit"] = limit + si
        m = b.Metadata(**kw)
        m_alias = b.Metadata(**{**kw, "details": {"grp": float(si % 7), "lob": f"L{si:05d}"}}) if alias_every else None
        n = 0
        p = 0
        while n < size:
            ps = D(start[0] + (start[1] - 1 + p) // 12, (start[1] - 1 + p) % 12 + 1, 1)
            pe = add_months_end(ps, 0)
            prev = ps - ONE
            for e in range(n_evals):
                if n >= size:
                    break
                ev = add_months_end(pe, 3 * e)
                vals = {f: (1000 * si + 10 * p + e + value_shift if fi == 0 else 7 * p + si + value_shift)
                        for fi, f in enumerate(fields)}
                mm = m_alias if alias_every and n % alias_every == 1 else m
                if inc:
                    cells.append(b.IncrementalCell(period_start=ps, period_end=pe, prev_evaluation_date=prev,
                                                   evaluation_date=ev, values=vals, metadata=mm))
                    prev = ev
                else:
                    cells.append(b.CumulativeCell(period_start=ps, period_end=pe, evaluation_date=ev, values=vals, metadata=mm))
                n += 1
            p += 1
    return mk_triangle(cells)


def same_cells_fast(out, want):
    """the same cells in the same order: identity, or strict canonical equality where a copy was made"""
    if len(out) != len(want):
        return False
    return all(o is w or ct.canon_cell(o, ordered=True) == ct.canon_cell(w, ordered=True) for o, w in zip(out, want))
