#!/bin/bash
# usage: seed_multi.sh <seeded dir name> <ID> <check seed>   -- run one stored seeded change under another RNG seed; meta.json untouched
cd /verif
n=$1; c=$2; s=$3
d=$(mktemp -d /tmp/sm.XXXX)
git -C /repo worktree add -q --detach $d/repo HEAD
if ! git -C $d/repo apply --3way /verif/seeded/$n/patch.diff >/dev/null 2>&1; then echo "$n | patch does not apply"; else
out=$(VERIF_REPO=$d/repo VERIF_SEED=$s ./check $c --tier quick 2>&1); rc=$?
v=$(echo "$out" | grep "^VIOLATION" | head -1)
echo "$n | seed $s | $c exit $rc | $v"; fi
git -C /repo worktree remove --force $d/repo; rm -rf $d
rm -rf /verif/build/*-scratch-$(python3 -c "import hashlib,sys;print(hashlib.blake2b(sys.argv[1].encode(),digest_size=4).hexdigest())" $d/repo)
