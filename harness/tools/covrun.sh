#!/bin/bash
# usage: harness/tools/covrun.sh <dir> [ids...]   -- run quick checks under branch coverage of /repo/bermuda (diagnostic; evidence is
# rewritten by these runs like by any other run against /repo).  Then: /venv/bin/python harness/tools/covreport.py <dir> > notes/COVERAGE_raw.md
dir=${1:-/tmp/cov}; shift
mkdir -p $dir
ids=${@:-$(python3 -c "import json;print(' '.join(c['property_id'] for c in json.load(open('/verif/MANIFEST.json'))['checks']))")}
cd /verif
export PYTHONPATH=/repo:/verif PYTHONHASHSEED=0 PYTHONDONTWRITEBYTECODE=1 MPLBACKEND=Agg
for id in $ids; do
  /venv/bin/python -m coverage run --branch --source=/repo/bermuda --data-file=$dir/$id.cov -m harness.common $id --tier quick > $dir/$id.log 2>&1
  echo "$id exit=$? $(tail -1 $dir/$id.log)"
done
