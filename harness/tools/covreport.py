"""Branch-coverage study of the correspondence streams (a diagnostic, not a check).

    /venv/bin/python harness/tools/covreport.py /tmp/cov            # after harness/tools/covrun.sh

For every claimed property: which lines / branch arcs of the files the property is anchored in were never
executed by that property's quick check, and (combined) which lines of bermuda/ no check executes at all.
Unexecuted code inside an anchored file is where a changed line cannot be noticed by the correspondence or
the oracles (only by a translator obligation), so each such region is either given a directed stream or
listed in notes/COVERAGE.md with the reason it is out of the property's scope.
"""
import json, sys, os, glob
from pathlib import Path
import coverage

ROOT = Path(__file__).resolve().parents[2]
covdir = Path(sys.argv[1] if len(sys.argv) > 1 else "/tmp/cov")
props = {json.loads(l)["id"]: json.loads(l) for l in open(ROOT / "properties.jsonl")}


def ranges(nums):
    nums = sorted(nums); out = []; i = 0
    while i < len(nums):
        j = i
        while j + 1 < len(nums) and nums[j + 1] == nums[j] + 1: j += 1
        out.append(f"{nums[i]}" if i == j else f"{nums[i]}-{nums[j]}"); i = j + 1
    return ",".join(out)


def analyse(datafile):
    cov = coverage.Coverage(data_file=str(datafile), branch=True, source=["/repo/bermuda"])
    cov.load()
    res = {}
    for f in sorted(glob.glob("/repo/bermuda/**/*.py", recursive=True)):
        try:
            a = cov._analyze(f)
        except Exception:
            continue
        miss = sorted(a.missing)
        arcs = sorted(a.arcs_missing()) if a.has_arcs else []
        res[f[len("/repo/"):]] = {"statements": len(a.statements), "missing": miss,
                                  "missing_arcs": [(x, y) for x, y in arcs if x > 0 and y > 0 and x not in a.missing]}
    return res


out = []
per = {}
for pid, p in sorted(props.items()):
    df = covdir / f"{pid}.cov"
    if not df.exists(): continue
    per[pid] = analyse(df)
    out.append(f"## {pid}")
    for f in p["anchors"]["files"]:
        if not f.endswith(".py") or f not in per[pid]: continue
        r = per[pid][f]
        pct = 100 * (1 - len(r["missing"]) / max(1, r["statements"]))
        out.append(f"* `{f}`: {pct:.0f}% of {r['statements']} statements; not executed: {ranges(r['missing']) or '-'}"
                   f"; branches never taken: {' '.join(f'{x}->{y}' for x, y in r['missing_arcs']) or '-'}")
# combined
files = set().union(*[set(v) for v in per.values()]) if per else set()
out.append("## all checks combined (lines no check executes)")
for f in sorted(files):
    m = None
    for pid in per:
        s = set(per[pid][f]["missing"]); m = s if m is None else m & s
    n = per[next(iter(per))][f]["statements"]
    out.append(f"* `{f}`: {100*(1-len(m)/max(1,n)):.0f}% of {n}; never executed: {ranges(m) or '-'}")
print("\n".join(out))
