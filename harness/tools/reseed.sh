#!/bin/bash
# usage: reseed.sh <glob under seeded/>   -- re-runs seedtest for matching dirs, 4 in parallel
cd /verif
pat=${1:-*}
ls -d seeded/$pat/ | while read d; do d=${d%/}; n=$(basename $d); id=${n%%-*}; echo "$d $id"; done | \
  xargs -P 4 -L 1 bash -c 'out=$(python3 harness/seedtest.py $0 $1 2>&1 | head -1); echo "$(basename $0) | $out"'
