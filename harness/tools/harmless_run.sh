#!/bin/bash
# usage: hr.sh hNN "C01 C02"
cd /verif
n=$1; checks=$2
d=$(mktemp -d /tmp/hr.XXXX)
git -C /repo worktree add -q --detach $d/repo HEAD
if ! git -C $d/repo apply --3way /verif/notes/${HDIR:-harmless}/$n/patch.diff >/dev/null 2>&1; then echo "$n | patch does not apply on new HEAD"; git -C /repo worktree remove --force $d/repo; rm -rf $d; rm -rf /verif/build/*-scratch-$(python3 -c "import hashlib,sys;print(hashlib.blake2b(sys.argv[1].encode(),digest_size=4).hexdigest())" $d/repo); exit 0; fi
for c in $checks; do
  out=$(VERIF_REPO=$d/repo ./check $c --tier quick 2>&1)
  rc=$?
  v=$(echo "$out" | grep "^VIOLATION" | head -2 | tr '\n' ';')
  echo "$n | $c exit $rc | $v"
  if [ $rc -ne 0 ]; then echo "$out" | grep -i "obligation\|unsupported\|FAILED" | head -5 | cut -c1-300 | sed "s/^/    $n $c: /"; fi
done
git -C /repo worktree remove --force $d/repo; rm -rf $d; rm -rf /verif/build/*-scratch-$(python3 -c "import hashlib,sys;print(hashlib.blake2b(sys.argv[1].encode(),digest_size=4).hexdigest())" $d/repo)
