"""C09 -- summarize conserves totals and keeps exactly the shared metadata.

Every run: (1) T-rules: the registry of REPO is probed and emitted as GenRules.v; the obligation
table_ok + the instantiated theorems (GenProps/C09_rules.v) and the static generic theorems
(Props/C09.v) are compiled; (2) correspondence: real `summarize` vs Model/Summarize.v on generated
multi-slice triangles, compared strictly inside Coq as coordinate-keyed multisets, plus the executable
specification summ_spec_b evaluated on the implementation's output; (3) independent Python oracles on
every case (one cell per coordinate, sums, conservation, shared-metadata rule, refusals, premium rule,
ratio fields against exact rationals within 1e-9)."""
from __future__ import annotations

import random

import numpy as np

from harness import summ_common as S
from harness.common import REPO
from harness.coqterm import COQ_HEADER, NotRepresentable, ccells

HEADER = COQ_HEADER.replace("From Bermuda Require Import Model.Base.",
                            "From Bermuda Require Import Model.Base Model.Summarize.\nFrom Gen Require Import GenRules.")
PRELUDE = """
Definition M := summarize wavg_mask rules non_loss.
Definition SP := summ_spec_b wavg_mask rules non_loss.
(* dom = false: the case lies outside the property's domain (mixed-case field names); only the
   model-vs-implementation comparison applies *)
(* metas / cm: Triangle.metadata (sorted distinct metadata) and Triangle.common_metadata of the
   implementation, compared with the model of metadata.common_metadata folded over the list *)
Definition case (dom prem : bool) (t : list cell) (impl : result (list cell)) (metas : list meta) (cm : meta)
  : bool * bool * bool :=
  let m := M prem t in
  (result_ueqb m impl
   && match tri_common_metadata metas with Some x => meta_ueqb x cm | None => false end,
   negb dom || match impl with Ok out => SP prem t out | Err _ => true end,
   negb dom || match m with Ok out => SP prem t out | Err _ => true end).
"""


def summarize_impl(cells, prem, twice=False):
    from bermuda import Triangle

    t = Triangle(cells)
    if twice:
        st, r, fails = S.run_twice(t, lambda: t.summarize(summarize_premium=prem))
        return t, (st, r), fails
    return t, S.run_impl(lambda: t.summarize(summarize_premium=prem)), []


def mask_fn(tcells, prem):
    inc = bool(tcells) and type(tcells[0]).__name__ == "IncrementalCell"
    prem_eff = True if inc else prem
    return lambda k: k.lower() in S.RATIO and not (not prem_eff and k in S.NON_LOSS)


def violation_data(tcells, prem, fails, info=None):
    return {"op": "summarize", "cells": S.cells_to_data(tcells), "summarize_premium": prem, "failures": fails[:5],
            "info": info}


S1_CLASS = {"kind": "premium_none_from_first_cell"}


def directed_cases():
    """Small hand-made inputs: every additive field summed over two slices (10 + 20), F5 probe."""
    from bermuda import CumulativeCell, Metadata

    out = []
    D = S.D
    for f in S.ADDITIVE:
        cells = [CumulativeCell(D(2020, 1, 1), D(2020, 3, 31), D(2020, 3, 31), {f: v}, Metadata(details={"lob": lob}))
                 for lob, v in (("a", 10), ("b", 20))]
        out.append((cells, True, {"kind": f"directed:{f}", "field": f}))
    # probe of known finding S1: the (sorted-)first slice lacks the premium field
    a = CumulativeCell(D(2020, 1, 1), D(2020, 12, 31), D(2020, 12, 31), {"paid_loss": 10}, Metadata(loss_details={"cov": "a"}))
    b = CumulativeCell(D(2020, 1, 1), D(2020, 12, 31), D(2020, 12, 31), {"paid_loss": 20, "earned_premium": 100},
                       Metadata(loss_details={"cov": "b"}))
    out.append(([a, b], False, {"kind": "directed:S1", "slice_diff": "loss_details"}))
    # incremental slices on different evaluation cadences: the increments ending 2020-12-31 start at
    # 2019-12-31 (NY, FL) and at 2020-06-30 (TX): three output cells, one per (period, eval, prev)
    from bermuda import IncrementalCell

    def inc(state, prev, ev, v):
        return IncrementalCell(period_start=D(2020, 1, 1), period_end=D(2020, 12, 31), prev_evaluation_date=prev,
                               evaluation_date=ev, values={"paid_loss": v}, metadata=Metadata(details={"state": state}))
    cad = [inc("NY", D(2019, 12, 31), D(2020, 12, 31), 100), inc("FL", D(2019, 12, 31), D(2020, 12, 31), 40),
           inc("TX", D(2019, 12, 31), D(2020, 6, 30), 7), inc("TX", D(2020, 6, 30), D(2020, 12, 31), 5)]
    out.append((cad, True, {"kind": "directed:cadence", "slice_diff": "details", "basis": "inc"}))
    # one slice built from plain dates, one from pandas.Timestamp, one from datetime.datetime: same coordinates
    mixed = [S.mk_cell(CumulativeCell, fl, D(2019 + p, 1, 1), D(2019 + p, 12, 31), D(2020 + e, 12, 31),
                       {"paid_loss": 100.0 * (i + 1), "earned_premium": 1000.0}, Metadata(details={"src": fl}))
             for i, fl in enumerate(("date", "ts", "dt")) for p in (0, 1) for e in (0, 1)]
    out.append((mixed, True, {"kind": "directed:date-flavours", "slice_diff": "details", "date_flavours": ["date", "dt", "ts"]}))
    falsy = [CumulativeCell(D(2020, 1, 1), D(2020, 3, 31), D(2020, 3, 31), {"paid_loss": v},
                            Metadata(details={"lob": lob, "zero": z, "flag": False, "empty": "", "f": 0.0}))
             for lob, v, z in (("a", 10, 0), ("b", 20, 0), ("c", 30, False))]
    out.append((falsy, True, {"kind": "directed:falsy-details", "slice_diff": "details"}))
    return out


def search_rule_violation(ctx, bad):
    """A registry entry contradicts the documented registry: show it on the real summarize."""
    from bermuda import CumulativeCell, Metadata, Triangle

    D = S.D
    for name, rule in bad:
        if name == "NON_LOSS_METRICS":
            continue
        reads = [x for x in (rule or ())[1:] if isinstance(x, str) and not x.startswith("T")]
        for extra in ([], reads):
            vals = lambda a, b: {name: a, **{k: b for k in extra if k != name}}   # noqa: E731
            cells = [CumulativeCell(D(2020, 1, 1), D(2020, 3, 31), D(2020, 3, 31), vals(10, 100), Metadata(details={"lob": "a"})),
                     CumulativeCell(D(2020, 1, 1), D(2020, 3, 31), D(2020, 3, 31), vals(20, 200), Metadata(details={"lob": "b"}))]
            t = Triangle(cells)
            status, res = S.run_impl(lambda: t.summarize())
            fails = S.summarize_oracle(t.cells, True, status, res)
            if fails:
                ctx.violation("impl-violation", f"summarize of field {name}: {fails[0]}",
                              violation_data(t.cells, True, fails, {"rule_probed": repr(rule)}), found_input=True,
                              finding_class={"kind": "rule_bound_to_other_key", "field": name})
                return True
    return False


def run(ctx):
    ctx.rule = ("multi-slice triangles (1-4 slices differing in one metadata attribute -- each of the eight incl. only "
                "loss_details -- or several; shared/partly shared None-valued details; 1000 vs 1000.0 limits), any subset of the "
                "26 registered field names per slice (ratio fields with/without their weight key), int / dyadic float / int64 / "
                "float64-array values (uniform or mixed per slice), cumulative and incremental (incl. slices on different evaluation cadences, so that cells share period and evaluation date but differ in prev), falsy detail values 0/0.0/False/\"\", summarize_premium True/False, "
                "regular/ragged/holey/irregular/single layouts with partially overlapping slices; slices whose cells are built from pandas.Timestamp / datetime.datetime dates (same coordinates as plain-date slices); malformed: mixed currency, "
                "mixed risk basis, unregistered field, upper-case field, explicit None values.  Non-trivial = distinct case with "
                ">= 2 cells or a refusal.")
    ctx.assumptions += [
        "translate/t_rules.py classifies each closure of SUMMARIZE_DEFAULTS by probing (two prime bases, unit vectors, "
        "None-padding, arrays): a rule that is the plain sum / weighted average on all probes is taken to be that function",
        "ratio fields are symbolic in the model (oracle wavg); their numerical value is checked in Python against exact "
        "rationals within 1e-9 relative; exp/log of log_industry_lr in binary64",
        "cell values are ints or dyadic floats (n/1024), on which binary64 addition is exact",
        "str.lower() is modelled on ASCII letters only; Python set iteration order is not modelled (dicts compared unordered)",
    ]
    ctx.audit_tree(["Model/Summarize.v", "Proofs/SummarizeLib.v", "Proofs/Summarize.v", "Proofs/Summarize2.v",
                    "Proofs/SummarizeTable.v", "Props/C09.v", "GenProps/C09_rules.v"])
    S.prove_static_local(ctx, "Props/C09.v")
    table, nl, gen_ok, props_ok = S.rules_step(ctx, "C09_rules.v")
    found = False
    if table is not None:
        bad = S.rule_defects(table, nl)
        ctx.extra["rule_table"] = {name: list(rule) for name, rule, _ in table}
        if bad:
            ctx.log(f"registry entries contradicting the documented registry: {bad}")
            found = search_rule_violation(ctx, bad)

    # ------------------------------------------------------------------ cases
    rng = random.Random(ctx.seed * 1000003 + 9)
    g = S.SummGen(rng)
    n = 1400 if ctx.quick else 9000
    from harness import summ_hard

    cases = list(directed_cases())
    for name, hcells in summ_hard.triangles():            # notes/HARDENING.md families, every run
        if isinstance(hcells, Exception):
            S.report_family_refused(ctx, name, hcells)
            continue
        for prem in (True, False):
            cases.append((hcells, prem, {"kind": "hard:" + name, "slice_diff": None}))
    n += len(cases)
    while len(cases) < n:
        try:
            cases.append(g.summ_case())
        except Exception as ex:  # noqa: BLE001  (a constructor refused valid generated input)
            n -= 1
            S.report_generator_refused(ctx, ex)
    per_file = 110
    files, recs, notes = [], [], []
    body = []
    n_oracle_fail = 0
    for idx, (cells, prem, info) in enumerate(cases):
        try:
            t, (status, res), fails_h = summarize_impl(cells, prem, twice=info["kind"].startswith(("hard:", "directed:")))
        except Exception as ex:  # noqa: BLE001  (generator produced an invalid triangle)
            ctx.hist("gen:invalid-triangle" + (":" + info["kind"] if info["kind"].startswith("hard:") else ""))
            continue
        tcells = list(t.cells)
        known = []
        fails = fails_h + S.summarize_oracle(tcells, prem, status, res, notes, known)
        # family A: the distinct metadata of the triangle, one per ==-class (slices / Triangle.metadata feed
        # common_metadata, which the Coq correspondence compares)
        n_cls = len({S.meta_key(c.metadata) for c in tcells})
        if len(t.metadata) != n_cls or len(t.slices) != n_cls:
            fails.append(f"Triangle.metadata / .slices have {len(t.metadata)} / {len(t.slices)} entries for {n_cls} distinct metadata")
        if S.dates_not_plain(tcells):
            fails.insert(0, "Cell did not normalise the dates it was given (pandas.Timestamp / datetime) to datetime.date")
        if info.get("respelled_slices"):
            ctx.hist("slice with equal Metadata spelled differently (key order, 7 vs 7.0)")
        for fl in info.get("date_flavours", []):
            ctx.hist(f"dates-given-as:{fl}")
        if known:                              # known finding S1 (suppressed only while listed as `known`)
            ctx.hist("known:S1-premium-none-from-first-cell")
            ctx.violation("impl-violation", f"summarize violates C09: {known[0]}", violation_data(tcells, prem, known, info),
                          found_input=True, finding_class=S1_CLASS)
        ctx.hist(f"kind:{info['kind'].split(':')[0]}")
        if info["kind"].startswith("hard:"):
            ctx.hist("family " + info["kind"][5:6])
        ctx.hist(f"slice_diff:{info.get('slice_diff')}")
        ctx.hist(f"basis:{info.get('basis', 'cum')}/prem={prem}")
        if info.get("mixed_prev") or info["kind"] == "directed:cadence":
            ctx.hist("incremental:same (period, eval) with different prev")
        ctx.hist("result:" + ("ok" if status == "ok" else type(res).__name__))
        ctx.count(evaluations=1)
        if len(tcells) >= 2 or status == "err":
            ctx.nontriv(("summ", S.cells_to_data(tcells), prem))
        if fails:
            n_oracle_fail += 1
            if n_oracle_fail <= 3:
                fc = None
                ctx.violation("impl-violation", f"summarize violates C09: {fails[0]}",
                              violation_data(tcells, prem, fails, info), found_input=True, finding_class=fc)
        try:
            dom = all(k == k.lower() for c in tcells for k in c.values)
            from harness.coqterm import cmeta as cmeta_term
            metas_term = "[" + ";\n  ".join(cmeta_term(m) for m in t.metadata) + "]"
            term = (f"case {str(dom).lower()} {str(prem).lower()} {ccells(tcells)}\n {S.cresult(status, res, mask_fn(tcells, prem))}"
                    f"\n {metas_term} {cmeta_term(t.common_metadata)}")
        except NotRepresentable:
            ctx.hist("coq:not-representable(skipped)")
            continue
        body.append(term)
        recs.append((tcells, prem, info, status, res))
    # round-robin over the files so that the (heavier) directed cases are spread over all coqc jobs
    nfiles = max(1, min(16, -(-len(body) // 40))) if len(body) <= 16 * per_file else -(-len(body) // per_file)
    files = [(body[i::nfiles], recs[i::nfiles]) for i in range(nfiles) if body[i::nfiles]]
    ctx.sample({"case": violation_data(cases[30][0], cases[30][1], [], cases[30][2])})
    large_stream(ctx)
    # ------------------------------------------------------------------ correspondence inside coqc
    mism = []
    if gen_ok:
        paths = []
        for i, (body, _) in enumerate(files):
            p = ctx.build / f"cases_{i}.v"
            p.write_text(HEADER + PRELUDE + "Definition cases := [\n" + ";\n".join(body) + "].\n"
                         "Eval vm_compute in (failing (map (fun x => fst (fst x)) cases), "
                         "failing (map (fun x => snd (fst x)) cases), failing (map snd cases)).\n")
            paths.append(p)
        ctx.log(f"correspondence: {sum(len(b) for b, _ in files)} cases in {len(paths)} files ...")
        res = ctx.coqc_many(paths, jobs=16, timeout=1500)
        for pth in paths:                      # a transient failure (static tree rebuilt meanwhile, machine overloaded): once more
            if res[pth][0] != 0:
                res[pth] = ctx.coqc(pth, timeout=1500)
        ncase = 0
        for p, (body, recs) in zip(paths, files):
            rc, out = res[p]
            idxs = S.parse_failing(out) if rc == 0 else None
            if idxs is None or len(idxs) != 3:
                mism.append(("coqc-failed", p.name, out[-800:], None))
                continue
            ncase += len(body)
            for which, lst in zip(("model != implementation (summarize or common_metadata)", "summ_spec_b false on the implementation's output",
                                   "summ_spec_b false on the model's output"), idxs):
                for i in lst:
                    mism.append((which, p.name, i, recs[i]))
        ctx.count(traces=ncase)
        ctx.obligation("correspondence summarize: model = implementation, spec holds on implementation output "
                       f"({ncase} cases)", not mism, repr([(m[0], m[1], m[2]) for m in mism[:5]]))
    for m in mism[:3]:
        if m[3] is None:
            ctx.violation("correspondence", f"case file did not evaluate: {m[1]}", {"file": m[1], "output": m[2]}, found_input=False)
            continue
        tcells, prem, info, status, res = m[3]
        fails = S.summarize_oracle(tcells, prem, status, res, None, [])
        data = violation_data(tcells, prem, fails or [m[0]], info)
        data["result"] = "raised " + type(res).__name__ if status == "err" else S.cells_to_data(res)
        spec_says_no = m[0].startswith("summ_spec_b false on the implementation")
        ctx.violation("impl-violation" if (fails or spec_says_no) else "correspondence", f"summarize: {m[0]} ({info['kind']})",
                      data, found_input=bool(fails or spec_says_no))
    if not props_ok and gen_ok and not found and not ctx.violations:
        ctx.violation("obligation", "C09_rules.v (table_ok on the generated rule table) no longer checks",
                      {"rule_table": ctx.extra.get("rule_table")}, found_input=False)


def large_case(name, params, prem):
    """Build one large case, run summarize, judge it with the Python-side oracle.  -> (fails, n_cells, status)"""
    from bermuda import Triangle
    from harness import summ_large

    cells, given = summ_large.build(name, params)
    fails = summ_large.stored_as_given(given)
    t = Triangle(cells)
    status, res = S.run_impl(lambda: t.summarize(summarize_premium=prem))
    known = []
    fails += S.summarize_oracle(list(t.cells), prem, status, res, None, known)
    return fails, len(cells), status


def early_snapshot():
    """Result of a small fixed case; taken before and after the large work (process-wide state)."""
    from harness.coqterm import canon_tri

    out = []
    for cells, prem, _ in directed_cases()[:3] + directed_cases()[-3:]:
        t, (status, res), _ = summarize_impl(cells, prem)
        out.append((status, type(res).__name__ if status == "err" else canon_tri(res)))
    return out


def large_stream(ctx):
    import time

    from harness import summ_large

    t0 = time.time()
    before = early_snapshot()
    for name, params, prem in summ_large.cases_c09(ctx.quick):
        try:
            fails, n_cells, status = large_case(name, params, prem)
        except Exception as ex:  # noqa: BLE001  (valid large input refused while being constructed)
            fails, n_cells, status = [f"constructing the valid large input raised {type(ex).__name__}: {ex}"], 0, "err"
        ctx.hist(f"large:{name}")
        ctx.hist("large:cells", n_cells)
        ctx.count(evaluations=1)
        ctx.nontriv(("large", name, sorted(params.items(), key=str), prem))
        if fails:
            ctx.violation("impl-violation", f"summarize violates C09 on a large input ({name} {params}, {n_cells} cells): {fails[0]}",
                          {"op": "large", "name": name, "params": params, "summarize_premium": prem, "failures": fails[:5]},
                          found_input=True)
    if early_snapshot() != before:
        ctx.violation("impl-violation", "the earliest small cases give a different result after the large work (process-wide state)",
                      {"op": "large-recheck"}, found_input=True)
    ctx.notes.append(f"large stream: {len(summ_large.cases_c09(ctx.quick))} big cases judged by the Python-side oracles only "
                     f"(no Coq literals; the theorems are size-independent), {time.time() - t0:.1f} s")


def replay(ctx, data):
    from bermuda import Triangle

    if data.get("op") == "large":
        fails, n, status = large_case(data["name"], data["params"], data["summarize_premium"])
        print(f"large case {data['name']} {data['params']}: {n} cells, summarize -> {status}")
        for f in fails:
            print("  FAIL:", f)
        return 1 if fails else 0
    if data.get("op") == "large-recheck":
        large_stream(ctx)
        return 1 if ctx.violations else 0

    if data.get("op") == "build-family":
        return S.replay_family(data)
    if data.get("op") == "state-carry":
        from harness import statecarry

        return statecarry.replay(data)

    cells = S.cells_from_data(data["cells"])
    prem = data.get("summarize_premium", True)
    t = Triangle(cells)
    status, res = S.run_impl(lambda: t.summarize(summarize_premium=prem))
    known = []
    fails = S.summarize_oracle(list(t.cells), prem, status, res, None, known) + known
    if S.dates_not_plain(list(t.cells)):
        fails.insert(0, "Cell did not normalise the dates it was given to datetime.date")
    print(f"summarize(summarize_premium={prem}) on {len(cells)} cells ->",
          "raised " + type(res).__name__ if status == "err" else f"{len(res)} cells")
    if status == "ok":
        for c in res:
            print("  ", c.period_start, c.period_end, c.evaluation_date, dict(c.values), c.metadata)
    for f in fails:
        print("  FAIL:", f)
    return 1 if fails else 0
