import json
props=[json.loads(l) for l in open('/verif/properties.jsonl')]
claimed = json.load(open('/verif/harness/claims.json'))
checks=[]; na=[]
for p in props:
    pid=p['id']
    if pid in claimed:
        c=claimed[pid]
        checks.append({
          "property_id": pid,
          "quick_cmd": f"./check {pid} --tier quick",
          "thorough_cmd": f"./check {pid} --tier thorough",
          "evidence_file": f"/verif/evidence/{pid}.json",
          "replay_cmd_template": f"./check {pid} --replay {{path}}",
          "engine": "coq-model+tie",
          "level_claimed": {"category":"proof","text":c["text"],"design_ref":c.get("design_ref","DESIGN.md §5 "+pid)},
          "level_note": c["note"],
          "technique": c["technique"],
        })
    else:
        na.append({"property_id":pid,"reason":"not claimed yet: model/proofs/tie under construction (see DESIGN.md §8 build order); no other technique is substituted"})
m={
 "version":1,
 "setup_cmd":"./setup.sh",
 "hooks":{"guard":"BERMUDA_LEDGER_VERIF","enable":"no source hooks are needed: the harness observes the library from outside (PYTHONPATH=/repo)","baseline_off_cmd":"cd /repo && /venv/bin/python -m pytest -q -p no:cacheprovider --timeout=900","source_commits":[],"add_only":True},
 "engines":[{"name":"coq-model+tie","path":"/verif/check","serves_properties":sorted(claimed),"kind_free_text":"Coq 8.16 theorems about an executable Gallina model; model regenerated from /repo by Python-ast translators and/or compared with the implementation on generated inputs (coqc vm_compute) on every run; every check also runs the shared layers of harness/common.main: method-form wiring theorem + battery, the T-stateless screen (operations are functions of their arguments), call-sequence oracles and the derived-input (==-equal variants) metamorphic oracle"}],
 "checks":checks,
 "not_applicable":na,
 "notes":"See DESIGN.md. known_findings.json lists genuine defects (status known|fixed)."
}
json.dump(m,open('/verif/MANIFEST.json','w'),indent=1)
import jsonschema
jsonschema.validate(m,json.load(open('/root/.vp/MANIFEST.schema.json')))
print("manifest ok:",len(checks),"checks")
