"""C07 -- JSON / dict export and import are exact inverses.

1. T-json regenerates the layout (key names, presence conditions, hook dispatch, defaults, class
   choice) from /repo; GenProps/C07_json.v proves GenJson.layout = std_layout and re-states the
   theorems for the generated layout; Props/C07.v is re-checked.
2. Correspondence inside coqc on generated triangles: model encode vs to_dict (tree level, key order
   included); model decode vs the real reader on the exported tree and on a tree with every object's
   members shuffled; the theorem's claim evaluated on the implementation's result.
3. Direct oracle on every case: strict round trip through to_json/to_dict x from_json (path, handle) /
   json_string_to_triangle / from_dict, shuffled trees through all four readers, plain-parser view of
   the text (one object per slice, ISO dates, prev iff incremental).
4. Directed probes: F11 (fixed) and the known findings N1-N3.
"""
from __future__ import annotations

import datetime
import io
import json
import math
import os
import random
import shutil
import tempfile
import time
import warnings

import numpy as np

from harness.common import COQ, REPO, parse_coq_eval
from harness.coqterm import NotRepresentable, _n1024, canon_tri, cstr, zlit

D = datetime.date
KIND = {"Cell": "KCell", "CumulativeCell": "KCum", "IncrementalCell": "KInc"}


# ------------------------------------------------------------------------------ Coq printers
def cflt(x) -> str:
    return zlit(_n1024(float(x)))


def cymd(d) -> str:
    return f"({d.year}, {d.month}, {d.day})"


def copt(x, f):
    return "None" if x is None else f"(Some {f(x)})"


def ccval(v) -> str:
    if v is None:
        return "CNone"
    if isinstance(v, np.ndarray):
        if v.ndim != 1 or v.dtype not in (np.dtype("int64"), np.dtype("float64")):
            raise NotRepresentable(f"array {v.dtype} {v.shape}")
        if v.dtype == np.dtype("int64"):
            return "(CArrI [" + ";".join(zlit(int(x)) for x in v.tolist()) + "])"
        return "(CArrF [" + ";".join(cflt(x) for x in v.tolist()) + "])"
    if isinstance(v, (bool, np.bool_)):
        return f"(CBool {'true' if v else 'false'})"
    if type(v) is int:
        return f"(CInt {zlit(v)})"
    if type(v) is float:
        return f"(CFloat {cflt(v)})"
    raise NotRepresentable(f"cell value {type(v)}")


def cdval(v) -> str:
    if v is None:
        return "DNone"
    if isinstance(v, bool):
        return f"(DBool {'true' if v else 'false'})"
    if type(v) is str:
        return f"(DStr {cstr(v)})"
    if type(v) is int:
        return f"(DInt {zlit(v)})"
    if type(v) is float:
        return f"(DFloat {cflt(v)})"
    raise NotRepresentable(f"detail value {type(v)}")


def clim(v) -> str:
    if type(v) is int:
        return f"(LInt {zlit(v)})"
    if type(v) is float:
        return f"(LFloat {cflt(v)})"
    raise NotRepresentable(f"limit {type(v)}")


def cdict(d, f) -> str:
    return "[" + ";".join(f"({cstr(k)},{f(v)})" for k, v in d.items()) + "]"


def cwmeta(m) -> str:
    return (f"(mkWMeta {copt(m.risk_basis, cstr)} {copt(m.country, cstr)} {copt(m.currency, cstr)} "
            f"{copt(m.reinsurance_basis, cstr)} {copt(m.loss_definition, cstr)} "
            f"{copt(m.per_occurrence_limit, clim)} {cdict(m.details, cdval)} {cdict(m.loss_details, cdval)})")


def cwcell(c) -> str:
    prev = c.prev_evaluation_date if type(c).__name__ == "IncrementalCell" else None
    return (f"(mkWCell {KIND[type(c).__name__]} {cymd(c.period_start)} {cymd(c.period_end)} "
            f"{cymd(c.evaluation_date)} {copt(prev, cymd)} {cwmeta(c.metadata)} {cdict(c.values, ccval)})")


def cwcells(cells) -> str:
    return "[" + ";\n   ".join(cwcell(c) for c in cells) + "]"


def cjson(x) -> str:
    if x is None:
        return "JNull"
    if isinstance(x, bool):
        return f"(JBool {'true' if x else 'false'})"
    if type(x) is int:
        return f"(JInt {zlit(x)})"
    if type(x) is float:
        return f"(JFloat {cflt(x)})"
    if type(x) is str:
        return f"(JStr {cstr(x)})"
    if isinstance(x, list):
        return "(JArr [" + ";".join(cjson(y) for y in x) + "])"
    if isinstance(x, dict):
        return "(JObj [" + ";".join(f"({cstr(k)},{cjson(v)})" for k, v in x.items()) + "])"
    raise NotRepresentable(f"json {type(x)}")


# ------------------------------------------------------------------------------ replay format
def val_spec(v):
    if v is None:
        return {"k": "none"}
    if isinstance(v, np.ndarray):
        return {"k": "arr", "dtype": str(v.dtype), "v": [x.hex() if isinstance(x, float) else x for x in v.tolist()]}
    if isinstance(v, (bool, np.bool_)):
        return {"k": "bool", "v": bool(v)}
    if isinstance(v, float):
        return {"k": "float", "v": float(v).hex()}
    if isinstance(v, int):
        return {"k": "int", "v": int(v)}
    if isinstance(v, str):
        return {"k": "str", "v": v}
    return {"k": "repr", "v": repr(v)}


def spec_val(s):
    k = s["k"]
    if k == "none":
        return None
    if k == "arr":
        xs = [float.fromhex(x) if isinstance(x, str) else x for x in s["v"]]
        return np.array(xs, dtype=s["dtype"])
    if k == "float":
        return float.fromhex(s["v"])
    return s["v"]


def tri_spec(t):
    out = []
    for c in (t.cells if hasattr(t, "cells") else t):
        m = c.metadata
        out.append({
            "cls": type(c).__name__, "ps": str(c.period_start), "pe": str(c.period_end),
            "ev": str(c.evaluation_date),
            "prev": str(c.prev_evaluation_date) if type(c).__name__ == "IncrementalCell" else None,
            "meta": {"risk_basis": m.risk_basis, "country": m.country, "currency": m.currency,
                     "reinsurance_basis": m.reinsurance_basis, "loss_definition": m.loss_definition,
                     "per_occurrence_limit": val_spec(m.per_occurrence_limit),
                     "details": {k: val_spec(v) for k, v in m.details.items()},
                     "loss_details": {k: val_spec(v) for k, v in m.loss_details.items()}},
            "values": {k: val_spec(v) for k, v in c.values.items()}})
    return out


def spec_tri(spec):
    import bermuda

    cells = []
    for s in spec:
        mm = s["meta"]
        m = bermuda.Metadata(
            risk_basis=mm["risk_basis"], country=mm["country"], currency=mm["currency"],
            reinsurance_basis=mm["reinsurance_basis"], loss_definition=mm["loss_definition"],
            per_occurrence_limit=spec_val(mm["per_occurrence_limit"]),
            details={k: spec_val(v) for k, v in mm["details"].items()},
            loss_details={k: spec_val(v) for k, v in mm["loss_details"].items()})
        kw = dict(period_start=D.fromisoformat(s["ps"]), period_end=D.fromisoformat(s["pe"]),
                  evaluation_date=D.fromisoformat(s["ev"]),
                  values={k: spec_val(v) for k, v in s["values"].items()}, metadata=m)
        if s["cls"] == "IncrementalCell":
            kw["prev_evaluation_date"] = D.fromisoformat(s["prev"])
        cells.append(getattr(bermuda, s["cls"])(**kw))
    return bermuda.Triangle(cells)


# ------------------------------------------------------------------------------ strict comparison
def meta_key(m):
    """Python's == on Metadata as a hashable key built from builtin values only (7 == 7.0 == hash-equal, dict order
    irrelevant) -- independent of Metadata.__hash__ / __eq__ and of object identity"""
    return (m.risk_basis, m.country, m.currency, m.reinsurance_basis, m.loss_definition, m.per_occurrence_limit,
            frozenset(m.details.items()), frozenset(m.loss_details.items()))


def slice_groups(t):
    """Independent of Metadata.__hash__ / Triangle.slices: the ==-distinct metadata of the cells in first-occurrence
    order (representative = the first cell's Metadata object) with their cells in triangle order."""
    groups = {}
    for c in (t.cells if hasattr(t, "cells") else t):
        k = meta_key(c.metadata)
        if k not in groups:
            groups[k] = (c.metadata, [])
        groups[k][1].append(c)
    return list(groups.values())


def canon_retag(t, ordered=True):
    """canonical form of the triangle the reader must return: Cell comes back as CumulativeCell, and every cell
    carries the representation of its slice's FIRST metadata (model: regroup; identical to the cell's own
    metadata whenever Python-equal metadata are identical, i.e. in every regular case)."""
    from harness.coqterm import canon_meta

    reps = {meta_key(m): m for m, _ in reversed(slice_groups(t))}
    out = []
    for c, cc in zip((t.cells if hasattr(t, "cells") else t), canon_tri(t, ordered=ordered)):
        cc = list(cc)
        if cc[0] == "Cell":
            cc[0] = "CumulativeCell"
        cc[5] = canon_meta(reps[meta_key(c.metadata)], ordered)
        out.append(tuple(cc))
    return tuple(out)


def shuffle_tree(x, rng):
    if isinstance(x, dict):
        ks = list(x.keys())
        rng.shuffle(ks)
        return {k: shuffle_tree(x[k], rng) for k in ks}
    if isinstance(x, list):
        return [shuffle_tree(y, rng) for y in x]
    return x


def readers(tmpdir):
    """the four entry points, each taking a JSON string"""
    from bermuda import Triangle
    from bermuda.io.json import json_string_to_triangle

    def via_path(s):
        p = os.path.join(tmpdir, "in.json")
        with open(p, "w") as f:
            f.write(s)
        return Triangle.from_json(p)

    return {
        "json_string_to_triangle": json_string_to_triangle,
        "from_dict": lambda s: Triangle.from_dict(json.loads(s)),
        "from_json(handle)": lambda s: Triangle.from_json(io.StringIO(s)),
        "from_json(path)": via_path,
    }


def writers(tmpdir):
    """every way of producing the text"""

    def to_path(t):
        p = os.path.join(tmpdir, "out.json")
        r = t.to_json(p)
        assert r is None
        return open(p).read()

    def to_handle(t):
        b = io.StringIO()
        t.to_json(b)
        return b.getvalue()

    return {
        "to_json()": lambda t: t.to_json(),
        "to_json(path)": to_path,
        "to_json(handle)": to_handle,
        "json.dumps(to_dict())": lambda t: json.dumps(t.to_dict()),
    }


def plain_view_ok(t, text):
    """what a plain JSON parser sees: one object per slice with its metadata once, cells with ISO
    dates and values, prev_evaluation_date iff incremental"""
    d = json.loads(text)
    groups = slice_groups(t)
    if set(d.keys()) != {"slices"}:
        return "top-level object"
    if len(d["slices"]) != len(groups):
        return (f"each slice's metadata must be listed once: {len(d['slices'])} slice objects for {len(groups)} "
                "==-distinct metadata")
    keys = [json.dumps({k: v for k, v in so.items() if k != "cells"}, sort_keys=True) for so in d["slices"]]
    if len(set(keys)) != len(keys):
        return "the same slice metadata is listed more than once"
    if len(t.slices) != len(groups):
        return f"Triangle.slices has {len(t.slices)} entries for {len(groups)} ==-distinct metadata"
    n = 0
    meta_keys = {"risk_basis", "country", "currency", "reinsurance_basis", "loss_definition",
                 "per_occurrence_limit", "details", "loss_details"}
    for (m, sl_cells), so in zip(groups, d["slices"]):
        if not set(so.keys()) <= meta_keys | {"cells"}:
            return "slice object keys"
        md = m.as_dict()
        for k in meta_keys:
            v = md[k]
            if k in so:
                if so[k] != v or type(so[k]) is not type(v):
                    return f"slice metadata {k}"
            elif not (v is None or v == {}):
                return f"slice metadata {k} missing"
        if len(so["cells"]) != len(sl_cells):
            return "number of cells in a slice"
        for c, co in zip(sl_cells, so["cells"]):
            n += 1
            inc = type(c).__name__ == "IncrementalCell"
            want = {"period_start", "period_end", "evaluation_date", "values"} | ({"prev_evaluation_date"} if inc else set())
            if set(co.keys()) != want:
                return "cell object keys (prev_evaluation_date iff incremental; no metadata in cells)"
            if (co["period_start"], co["period_end"], co["evaluation_date"]) != (
                    c.period_start.isoformat(), c.period_end.isoformat(), c.evaluation_date.isoformat()):
                return "ISO dates"
            if inc and co["prev_evaluation_date"] != c.prev_evaluation_date.isoformat():
                return "ISO prev date"
            if list(co["values"].keys()) != list(c.values.keys()):
                return "field names"
            for k, v in c.values.items():
                w = co["values"][k]
                if isinstance(v, np.ndarray):
                    if w != v.tolist() or any(type(a) is not type(b) for a, b in zip(w, v.tolist())):
                        return f"array field {k}"
                elif not (w == v or (isinstance(v, float) and v != v and w != w)) or type(w) is not type(v):
                    return f"scalar field {k}"
    return None if n == len(t) else "cell count"


def oracle(t, tmpdir, rng=None, full=True):
    """Strict round trip of one triangle through every writer x reader (+ shuffled trees).
    Returns None or a dict describing the first failure."""
    want_o = canon_retag(t, ordered=True)
    want_u = canon_retag(t, ordered=False)
    rd = readers(tmpdir)
    texts = {}
    with warnings.catch_warnings():
        warnings.simplefilter("ignore")
        for wn, w in writers(tmpdir).items():
            try:
                texts[wn] = w(t)
            except Exception as ex:  # noqa: BLE001
                return {"stage": f"export {wn}", "raised": f"{type(ex).__name__}: {ex}"[:300]}
        if len(set(texts.values())) != 1:
            return {"stage": "export", "detail": "writers disagree on the text"}
        text = texts["to_json()"]
        pv = plain_view_ok(t, text)
        if pv:
            return {"stage": "plain-parser view of the text", "detail": pv}
        variants = [("exported", text, want_o)]
        if rng is not None:
            variants.append(("members shuffled", json.dumps(shuffle_tree(json.loads(text), rng)), want_u))
        for vn, s, want in variants:
            for rn, r in (rd.items() if full else list(rd.items())[:1]):
                try:
                    got = r(s)
                except Exception as ex:  # noqa: BLE001
                    return {"stage": f"import {rn} ({vn} tree)", "raised": f"{type(ex).__name__}: {ex}"[:300]}
                g = canon_tri(got, ordered=(vn == "exported"))
                if g != want:
                    diff = next((i for i, (a, b) in enumerate(zip(g, want)) if a != b), None)
                    return {"stage": f"import {rn} ({vn} tree)", "detail": "cells differ",
                            "first_diff_index": diff,
                            "got": repr(g[diff]) if diff is not None and diff < len(g) else f"{len(g)} cells",
                            "want": repr(want[diff]) if diff is not None and diff < len(want) else f"{len(want)} cells"}
                if vn == "exported" and rn == "json_string_to_triangle":
                    # re-export of what was read: the same tree again (each slice's metadata once)
                    again = json.loads(got.to_json())
                    if again != json.loads(text):
                        return {"stage": "re-export of the imported triangle differs from the first export",
                                "slice_objects": len(again.get("slices", [])), "distinct_metadata": len(slice_groups(t))}
        # a plain serialiser may list the cells one slice entry per cell, each with that cell's own spelling of
        # the metadata (detail keys in its own order): every cell must come back as it is, and the re-export must
        # list each ==-distinct metadata once
        ptext = json.dumps(per_cell_tree(t))
        try:
            got = rd["json_string_to_triangle"](ptext)
        except Exception as ex:  # noqa: BLE001
            return {"stage": "import of a plain tree with one slice entry per cell", "raised": f"{type(ex).__name__}: {ex}"[:300]}
        own = tuple(tuple(["CumulativeCell" if c[0] == "Cell" else c[0]] + list(c[1:])) for c in canon_tri(t, ordered=True))
        g = canon_tri(got, ordered=True)
        if g != own:
            diff = next((i for i, (a, b) in enumerate(zip(g, own)) if a != b), None)
            return {"stage": "import of a plain tree with one slice entry per cell", "detail": "cells differ",
                    "first_diff_index": diff, "got": repr(g[diff]) if diff is not None else f"{len(g)} cells",
                    "want": repr(own[diff]) if diff is not None else f"{len(own)} cells"}
        again = json.loads(got.to_json())
        keys = [json.dumps({k: v for k, v in so.items() if k != "cells"}, sort_keys=True) for so in again["slices"]]
        if len(again["slices"]) != len(slice_groups(t)) or len(set(keys)) != len(keys):
            return {"stage": "re-export after loading plain JSON: each slice's metadata must be listed once",
                    "slice_objects": len(again["slices"]), "distinct_metadata": len(slice_groups(t))}
        if sum(len(so["cells"]) for so in again["slices"]) != len(t):
            return {"stage": "re-export after loading plain JSON: cell count"}
    return None


def per_cell_tree(t):
    """what a plain serialiser could write: one slice entry per cell, metadata in the cell's own spelling"""
    out = []
    for c in t.cells:
        m = c.metadata
        so = {}
        for k in ("risk_basis", "country", "currency", "reinsurance_basis", "loss_definition", "per_occurrence_limit"):
            v = getattr(m, k)
            if v is not None or k == "risk_basis":
                so[k] = v
        if m.details:
            so["details"] = dict(m.details)
        if m.loss_details:
            so["loss_details"] = dict(m.loss_details)
        co = {"period_start": c.period_start.isoformat(), "period_end": c.period_end.isoformat(),
              "evaluation_date": c.evaluation_date.isoformat()}
        if type(c).__name__ == "IncrementalCell":
            co["prev_evaluation_date"] = c.prev_evaluation_date.isoformat()
        co["values"] = {k: (v.tolist() if isinstance(v, np.ndarray) else v) for k, v in c.values.items()}
        so["cells"] = [co]
        out.append(so)
    return {"slices": out}


# ------------------------------------------------------------------------------ generation
def jsonable_meta(m, rng, risk_none):
    from bermuda import Metadata

    return Metadata(risk_basis=None if risk_none else m.risk_basis, country=m.country, currency=m.currency,
                    reinsurance_basis=m.reinsurance_basis, loss_definition=m.loss_definition,
                    per_occurrence_limit=m.per_occurrence_limit, details=dict(m.details),
                    loss_details=dict(m.loss_details))


def gen_cases(ctx, n):
    """n generated triangles (JSON-representable: int / dyadic float / None / bool-free scalars,
    int64 / float64 sample arrays, str/int/bool detail values), 1-4 slices, cumulative (Cell and
    CumulativeCell) and incremental, all layouts."""
    from bermuda import Cell, Triangle
    from harness.gen import Gen, describe

    rng = random.Random(ctx.seed * 7907 + 7)
    g = Gen(rng)
    out = []
    while len(out) < n:
        kw = {}
        if rng.random() < 0.25:
            kw["cls"] = Cell
            kw["basis"] = "cum"
        if rng.random() < 0.5:
            kw["n_periods"], kw["n_lags"] = rng.randint(1, 3), rng.randint(1, 3)
        kw["same_fields"] = rng.random() < 0.7
        cells, info = g.cells(**kw)
        risk_none = info["slice_diff"] != "risk_basis" and rng.random() < 0.3
        metas = {}
        new = []
        for c in cells:
            m = metas.setdefault(id(c.metadata), jsonable_meta(c.metadata, rng, risk_none))
            vals = dict(c.values)
            for k in list(vals):
                r = rng.random()
                if r < 0.06:
                    vals[k] = None
                elif r < 0.09 and isinstance(vals[k], np.ndarray) and vals[k].dtype == np.float64:
                    vals[k] = np.array([], dtype=np.float64)
            if rng.random() < 0.1:
                vals = dict(reversed(list(vals.items())))
            new.append(c.replace(metadata=m, values=vals))
        rng.shuffle(new)
        with warnings.catch_warnings():
            warnings.simplefilter("ignore")
            t = Triangle(new)
        info = dict(info, risk_none=risk_none, cls=type(t.cells[0]).__name__)
        out.append((t, info, describe(info)))
    return out


def mixed_rep_cases(rng, n):
    """cells of ONE slice carrying equal Metadata objects spelt differently: detail / loss_detail keys inserted in
    another order, 7 vs 7.0, 1 vs True (N4: one slice, exported once, everything comes back in the first
    cell's spelling); 1-2 further slices that differ genuinely"""
    from bermuda import CumulativeCell, IncrementalCell, Metadata, Triangle

    out = []
    i = 0
    while len(out) < n and i < 40 * n:
        i += 1
        d1 = {"lob": rng.choice(["auto", "home"]), "n": 7, "state": "NY", "flag": True}
        keys = rng.sample(list(d1), rng.randint(2, 4))
        a = {k: d1[k] for k in keys}
        b = {k: (7.0 if (k == "n" and rng.random() < 0.5) else 1 if (k == "flag" and rng.random() < 0.5) else a[k])
             for k in reversed(keys)}
        la = {"cov": "x", "layer": 2}
        lb = {"layer": 2 if rng.random() < 0.5 else 2.0, "cov": "x"}
        use_l = rng.random() < 0.5
        lim = rng.choice([None, 1000])
        m1 = Metadata(country="US", per_occurrence_limit=lim, details=a, loss_details=la if use_l else {})
        m2 = Metadata(country="US", per_occurrence_limit=(float(lim) if lim and rng.random() < 0.5 else lim),
                      details=b, loss_details=lb if use_l else {})
        others = [Metadata(country="DE", details=dict(a))][: rng.randint(0, 1)]
        inc = rng.random() < 0.4
        cells = []
        for m_i, m in enumerate([m1, m2] + others):
            for y in (2019, 2020):
                for lag in (0, 1):
                    if m_i < 2 and (y + lag + m_i) % 2 == 0 and rng.random() < 0.8:
                        continue          # the two spellings cover different cells of the same slice
                    kw = dict(period_start=D(y, 1, 1), period_end=D(y, 12, 31), evaluation_date=D(y + lag, 12, 31),
                              values={"paid_loss": rng.randint(0, 500), "s": np.array([1.5, 0.5]) * (lag + 1)}, metadata=m)
                    if inc:
                        kw["prev_evaluation_date"] = D(y + lag - 1, 12, 31)
                    cells.append((IncrementalCell if inc else CumulativeCell)(**kw))
        if not any(c.metadata is m1 for c in cells) or not any(c.metadata is m2 for c in cells):
            continue
        rng.shuffle(cells)
        with warnings.catch_warnings():
            warnings.simplefilter("ignore")
            t = Triangle(cells)
        if len({(c.period_start, c.evaluation_date, id(next(m for m, _ in slice_groups(t) if m == c.metadata))) for c in t.cells}) != len(t):
            continue                      # no duplicate coordinates inside a slice
        out.append((t, {"mixed_rep": True, "basis": "inc" if inc else "cum"}, f"mixed-spelling/{i}"))
    return out


def battery():
    """directed cases: every metadata attribute alone, risk_basis None, every value kind, each class"""
    from bermuda import Cell, CumulativeCell, IncrementalCell, Metadata, Triangle

    base = dict(period_start=D(2020, 1, 1), period_end=D(2020, 12, 31), evaluation_date=D(2021, 3, 31))
    base2 = dict(period_start=D(2021, 1, 1), period_end=D(2021, 12, 31), evaluation_date=D(2021, 12, 31))
    vals = {"paid_loss": 5, "earned_premium": 2.5, "n": None, "s_i": np.array([3, -1, 2], dtype=np.int64),
            "s_f": np.array([0.5, 2.0], dtype=np.float64)}
    metas = [
        Metadata(), Metadata(risk_basis=None), Metadata(risk_basis="Policy"), Metadata(country="DE"),
        Metadata(currency="EUR"), Metadata(reinsurance_basis="Net"), Metadata(loss_definition="Loss+DCC"),
        Metadata(per_occurrence_limit=1000), Metadata(per_occurrence_limit=0.5), Metadata(per_occurrence_limit=0),
        Metadata(details={"lob": "auto"}), Metadata(loss_details={"cov": "x"}), Metadata(country=""),
        Metadata(details={"b": True, "n": None, "f": 1.5, "i": 3, "s": "Ünï"}, loss_details={"z": 0}),
        Metadata(risk_basis=None, country="US", currency="USD", reinsurance_basis="Gross", loss_definition="Loss",
                 per_occurrence_limit=250000.0, details={"lob": "home"}, loss_details={"peril": "wind"}),
    ]
    out = []
    for i, m in enumerate(metas):
        for cls in (CumulativeCell, Cell, IncrementalCell):
            if cls is IncrementalCell:
                cs = [cls(**base, prev_evaluation_date=D(2020, 12, 31), values=dict(vals), metadata=m),
                      cls(**base2, prev_evaluation_date=D(2020, 12, 31), values={"paid_loss": 1.0}, metadata=m)]
            else:
                cs = [cls(**base, values=dict(vals), metadata=m), cls(**base2, values={"paid_loss": 1.0}, metadata=m)]
            out.append((Triangle(cs), {"battery": i, "cls": cls.__name__}, f"battery/{i}/{cls.__name__}"))
    # two slices that differ in one attribute only, the second with risk_basis None
    m1, m2 = Metadata(country="US"), Metadata(country="US", risk_basis=None)
    out.append((Triangle([CumulativeCell(**base, values={"a": 1}, metadata=m1),
                          CumulativeCell(**base, values={"a": 2}, metadata=m2)]),
                {"battery": "risk-none-slice"}, "battery/risk-none-slice"))
    return out


def hardening_cases():
    """small directed streams for the input families of notes/HARDENING.md (B, C, D, E, F, G, I, J); family A is
    mixed_rep_cases, H / K (method vs function, edited results) run centrally in factory_common + hardening_checks"""
    import pandas as pd

    from bermuda import Cell, CumulativeCell, IncrementalCell, Metadata, Triangle

    def cum(ps, pe, ev, vals, m=None, cls=CumulativeCell):
        return cls(period_start=ps, period_end=pe, evaluation_date=ev, values=vals, metadata=m)

    def yr(y, lag, vals, m=None, cls=CumulativeCell):
        return cum(D(y, 1, 1), D(y, 12, 31), D(y + lag, 12, 31), vals, m, cls)

    out = []
    # B: distinct metadata that flatten alike -- same key/value in details vs loss_details, a detail named like an
    #    attribute, slices differing only in loss_details; every slice with the same coordinates
    ms = [Metadata(details={"k": "v"}), Metadata(loss_details={"k": "v"}), Metadata(details={"currency": "USD"}),
          Metadata(currency="USD"), Metadata(details={"k": "v"}, loss_details={"k": "v"}),
          Metadata(loss_details={"k": "w"}), Metadata(details={"country": "US", "risk_basis": "Policy"})]
    out.append((Triangle([yr(2020, lag, {"paid_loss": 10 * i + lag}, m) for i, m in enumerate(ms) for lag in (0, 1)]),
                {"family": "B"}, "hardening/B-flatten-alike"))
    # B: None vs "" vs missing (the sort key treats None as ""): oracle only, the slices interleave
    out.append((Triangle([yr(2019 + i, 0, {"a": i}, m) for i, m in enumerate(
        [Metadata(country=None), Metadata(country=""), Metadata(country=None, currency=""), Metadata(risk_basis=""),
         Metadata(risk_basis=None)])]), {"family": "B", "oracle_only": True}, "hardening/B-none-vs-empty"))
    # C: calendar corners in the ISO text
    days = [D(1900, 2, 28), D(1900, 3, 1), D(1969, 12, 31), D(1970, 1, 1), D(2000, 2, 29), D(2000, 3, 1), D(2024, 2, 29),
            D(2100, 2, 28), D(2100, 3, 1), D(2023, 4, 30), D(2023, 5, 1), D(2023, 12, 30), D(2250, 12, 31), D(1000, 1, 1)]
    out.append((Triangle([cum(d, d, d + datetime.timedelta(days=k), {"a": k}) for d in days for k in (0, 1, 59)]),
                {"family": "C"}, "hardening/C-calendar"))
    out.append((Triangle([IncrementalCell(period_start=d, period_end=d + datetime.timedelta(days=30),
                                          evaluation_date=d + datetime.timedelta(days=31), prev_evaluation_date=d,
                                          values={"a": 1.5}) for d in days]), {"family": "C", "basis": "inc"},
                "hardening/C-calendar-inc"))
    # D: coordinates given as datetime / Timestamp / a datetime subclass with a non-midnight time
    class MyDT(datetime.datetime):
        pass

    dt = datetime.datetime
    out.append((Triangle([cum(dt(2020, 1, 1, 13, 5), pd.Timestamp("2020-12-31 23:59:59"), MyDT(2021, 12, 31, 7, 0), {"a": 1}),
                          cum(MyDT(2021, 1, 1, 1), dt(2021, 12, 31, 23), pd.Timestamp("2021-12-31 12:00"), {"a": 2.5})]),
                {"family": "D"}, "hardening/D-datetime-coordinates"))
    out.append((Triangle([cum(MyDT(2021, 1, 1, 1), dt(2021, 12, 31, 23), pd.Timestamp("2021-12-31 12:00"), {"a": 2.5}, cls=Cell)]),
                {"family": "D"}, "hardening/D-datetime-coordinates-Cell"))
    out.append((Triangle([IncrementalCell(period_start=dt(2020, 1, 1, 1), period_end=MyDT(2020, 12, 31, 2),
                                          evaluation_date=pd.Timestamp("2021-12-31 03:00"), prev_evaluation_date=dt(2020, 12, 31, 4),
                                          values={"a": 1})]), {"family": "D", "basis": "inc"}, "hardening/D-datetime-inc"))
    # E: falsy but valid values everywhere
    me = Metadata(risk_basis="", country="", currency="", reinsurance_basis="", loss_definition="", per_occurrence_limit=0,
                  details={"e": "", "f": 0, "g": False, "h": 0.0, "i": None}, loss_details={"": 0})
    me2 = Metadata(per_occurrence_limit=0.0, details={"": ""})
    out.append((Triangle([yr(2020, 0, {"a": 0, "b": 0.0, "c": False, "d": None, "": 0, "z": np.zeros(2), "zi": np.zeros(2, dtype=np.int64)}, me),
                          yr(2020, 1, {}, me), yr(2020, 0, {"a": 0.0}, me2)]), {"family": "E"}, "hardening/E-falsy"))
    # R (round 8): text that LOOKS like something else must come back as the same str -- ISO dates and date-times, numbers,
    #    JSON literals, as values and as keys of details / loss_details and as attribute values and field names
    look = ["2023-12-31", "2024-02-29", "2023-02-30", "2023-12-31T00:00:00", "2023-12", "20231231", "1e5", "0012", "-0", "NaN",
            "Infinity", "null", "true", "None", "[1, 2]", "{}", " 2023-12-31", "2023-12-31 "]
    mr = [Metadata(country=x, details={"as_of": x, x: "v"}, loss_details={"event_date": x, x + "_": 1}) for x in look]
    out.append((Triangle([yr(2020, lag, {"paid_loss": i + lag, x: i}, m) for i, (x, m) in enumerate(zip(look, mr)) for lag in (0, 1)]),
                {"family": "R"}, "hardening/R-lookalike-strings"))
    out.append((Triangle([IncrementalCell(period_start=D(2020, 1, 1), period_end=D(2020, 12, 31), evaluation_date=D(2021, 12, 31),
                                          prev_evaluation_date=D(2020, 12, 31), values={"paid_loss": 1, "2021-12-31": 2}, metadata=m)
                          for m in mr[:6]]), {"family": "R", "basis": "inc"}, "hardening/R-lookalike-strings-inc"))
    # F: degenerate shapes
    out.append((Triangle([]), {"family": "F"}, "hardening/F-empty"))
    out.append((Triangle([yr(2020, 0, {"a": 1})]), {"family": "F"}, "hardening/F-one-cell"))
    out.append((Triangle([yr(2020, 0, {"a": None}), yr(2020, 1, {"a": None, "late": 3}), yr(2020, 2, {"late": np.array([1.0, 2.0])}),
                          yr(2021, 0, {"s": np.array([1, 2], dtype=np.int64)}), yr(2021, 1, {"x": 5})]),
                {"family": "F"}, "hardening/F-late-fields"))
    # G: size-1 and strided 1-d arrays (int64 / float64 stay in the property's domain)
    base = np.arange(12, dtype=np.int64)
    out.append((Triangle([yr(2020, 0, {"one_i": np.array([5], dtype=np.int64), "one_f": np.array([2.5]), "strided": base[::3],
                                       "rev": base[::-4].astype(np.float64)[::1], "big": np.array([2**62, -2**63], dtype=np.int64)})]),
                {"family": "G"}, "hardening/G-array-shapes"))
    # I: restated cells (same coordinates twice, different values; accepted with a warning)
    with warnings.catch_warnings():
        warnings.simplefilter("ignore")
        out.append((Triangle([yr(2020, 0, {"a": 1}), yr(2020, 0, {"a": 2}), yr(2020, 0, {"b": 1.5}), yr(2020, 1, {"a": 3})]),
                    {"family": "I"}, "hardening/I-restated"))
    # J: sub-monthly, nested and overlapping periods, periods sharing a start or an end
    ps = [(D(2020, 1, 1), D(2020, 1, 15)), (D(2020, 1, 16), D(2020, 1, 31)), (D(2020, 1, 1), D(2020, 1, 31)),
          (D(2020, 1, 1), D(2020, 12, 31)), (D(2020, 1, 10), D(2020, 2, 20)), (D(2019, 7, 1), D(2020, 1, 31))]
    out.append((Triangle([cum(a, b, D(2020, 12, 31) + datetime.timedelta(days=k), {"a": i + k}) for i, (a, b) in enumerate(ps)
                          for k in (0, 31)]), {"family": "J"}, "hardening/J-period-layouts"))
    return out


def hardening_checks(ctx, tmpdir):
    """K (argument spellings, non-default date_format, deprecated aliases), H (same call twice / rewritten path),
    L (refusals both ways), E (falsy file argument) -- judged on the real entry points; each failure is a violation"""
    import bermuda.io.json as bj
    from bermuda import Triangle

    t = battery()[42][0]          # CumulativeCell, every metadata attribute set, every value kind
    assert type(t.cells[0]).__name__ == "CumulativeCell"
    want = canon_retag(t, ordered=True)
    text = t.to_json()
    tree = json.loads(text)
    fails = []

    def same(label, thunk, want=want, ordered=True):
        try:
            with warnings.catch_warnings():
                warnings.simplefilter("ignore")
                got = thunk()
            if canon_tri(got, ordered=ordered) != want:
                fails.append((label, "cells differ"))
        except Exception as ex:  # noqa: BLE001
            fails.append((label, f"raised {type(ex).__name__}: {ex}"[:200]))

    # K: non-default date format written by a plain serialiser, positional and keyword, every reader taking it
    def refmt(x, fmt):
        if isinstance(x, dict):
            return {k: (datetime.date.fromisoformat(v).strftime(fmt) if k.endswith(("_start", "_end", "_date")) else refmt(v, fmt))
                    for k, v in x.items()}
        return [refmt(y, fmt) for y in x] if isinstance(x, list) else x

    for fmt in ("%d.%m.%Y", "%Y%m%d", "%m/%d/%y", "%Y-%m-%d"):
        s2 = json.dumps(refmt(tree, fmt))
        same(f"json_string_to_triangle(s, {fmt!r})", lambda: bj.json_string_to_triangle(s2, fmt))
        same(f"json_string_to_triangle(string=, date_format={fmt!r})", lambda: bj.json_string_to_triangle(string=s2, date_format=fmt))
        same(f"from_json(handle, {fmt!r})", lambda: Triangle.from_json(io.StringIO(s2), fmt))
        p = os.path.join(tmpdir, "fmt.json")
        open(p, "w").write(s2)
        same(f"from_json(file_or_fname=path, date_format={fmt!r})", lambda: Triangle.from_json(file_or_fname=p, date_format=fmt))
    same("triangle_json_loads (deprecated alias)", lambda: bj.triangle_json_loads(text))
    same("triangle_json_load (deprecated alias)", lambda: bj.triangle_json_load(io.StringIO(text)))
    same("json_to_triangle / dict_to_triangle function forms", lambda: bj.dict_to_triangle(bj.triangle_to_dict(t)))
    # K / E: writer spellings; a falsy file argument means "return the string"
    p = os.path.join(tmpdir, "kw.json")
    if bj.triangle_to_json(t, file_or_fname=p) is not None or open(p).read() != text:
        fails.append(("triangle_to_json(t, file_or_fname=path)", "text differs / return value"))
    if t.to_json(None) != text or t.to_json(file_or_fname=None) != text or bj.triangle_to_json(tri=t) != text:
        fails.append(("to_json(None) / keyword forms", "text differs"))
    # H: the same call twice; a path rewritten with a shorter triangle and with raw text, then loaded again
    if t.to_json() != text or t.to_dict() != tree or t.to_dict() is t.to_dict():
        fails.append(("to_json / to_dict called twice", "results differ or are shared"))
    d1 = t.to_dict()
    d1["slices"][0]["cells"][0]["values"].clear()
    d1["slices"].append({"cells": []})
    if t.to_dict() != tree or json.loads(t.to_json()) != tree:
        fails.append(("to_dict after the caller edited an earlier result", "export changed"))
    small = Triangle(t.cells[:1])
    t.to_json(p)
    small.to_json(p)
    same("path rewritten with a shorter triangle", lambda: Triangle.from_json(p), canon_retag(small, ordered=True))
    open(p, "w").write(json.dumps(shuffle_tree(tree, random.Random(5)), indent=3))
    same("path rewritten as indented, shuffled plain JSON", lambda: Triangle.from_json(p), canon_retag(t, ordered=False), False)
    with open(p, "rb") as fb:            # a binary handle is a file handle too
        same("from_json(binary handle)", lambda: Triangle.from_json(fb), canon_retag(t, ordered=False), False)
    # L: refusals both ways
    cell0 = tree["slices"][0]["cells"][0]

    def variant(**edit):
        c = {k: v for k, v in cell0.items() if edit.get(k, 0) is not None}
        c.update({k: v for k, v in edit.items() if v is not None})
        return json.dumps({"slices": [{"cells": [c]}]})

    refusals = [("cell without evaluation_date", variant(evaluation_date=None), KeyError),
                ("period_end before period_start", variant(period_end="1999-01-01"), ValueError),
                ("evaluation_date before period_start", variant(evaluation_date="1999-01-01"), ValueError),
                ("not a date", variant(period_start="2020-13-01"), ValueError),
                ("date in another format", variant(period_start="01.01.2020"), ValueError),
                ("prev_evaluation_date not before evaluation_date", variant(prev_evaluation_date=cell0["evaluation_date"]), ValueError),
                ("cumulative and incremental cells mixed", json.dumps({"slices": [{"cells": [
                    cell0, dict(cell0, prev_evaluation_date=cell0["period_start"], evaluation_date="2030-01-01")]}]}), Exception),
                ("a string field value", variant(values={"a": "x"}), TypeError),
                ("metadata attribute of the wrong type", json.dumps({"slices": [{"country": 5, "cells": [cell0]}]}), TypeError)]
    for label, s3, exc in refusals:
        for rn, r in readers(tmpdir).items():
            try:
                with warnings.catch_warnings():
                    warnings.simplefilter("ignore")
                    r(s3)
                fails.append((f"refusal: {label} via {rn}", "accepted"))
            except exc:
                pass
            except Exception as ex:  # noqa: BLE001
                fails.append((f"refusal: {label} via {rn}", f"raised {type(ex).__name__} instead of {exc.__name__}"))
    ps_ = cell0["period_start"]
    near = [("evaluation_date == period_start == period_end", variant(period_end=ps_, evaluation_date=ps_)),
            ("prev_evaluation_date one day before evaluation_date",
             variant(prev_evaluation_date=(datetime.date.fromisoformat(cell0["evaluation_date"]) - datetime.timedelta(days=1)).isoformat())),
            ("empty values", variant(values={})), ("no slices", json.dumps({"slices": []})),
            ("a slice without cells", json.dumps({"slices": [{"country": "US", "cells": []}]}))]
    for label, s3 in near:
        for rn, r in readers(tmpdir).items():
            try:
                with warnings.catch_warnings():
                    warnings.simplefilter("ignore")
                    r(s3)
            except Exception as ex:  # noqa: BLE001
                fails.append((f"valid input refused: {label} via {rn}", f"{type(ex).__name__}: {ex}"[:200]))
    ctx.count(evaluations=16 + 7 + 9 * 4 + 5 * 4)
    ctx.hist("hardening:K/H/L/E entry-point checks", 16 + 7 + 9 * 4 + 5 * 4)
    for label, why in fails[:5]:
        ctx.violation("impl-violation", f"JSON entry point check fails: {label}: {why}",
                      {"triangle": tri_spec(t), "entry_point_check": label, "failure": why}, found_input=True)
    return fails


def extra_oracle_cases(rng):
    """values outside the dyadic Coq representation: oracle only"""
    from bermuda import CumulativeCell, Metadata, Triangle

    out = []
    for _ in range(40):
        vals = {"a": rng.random() * 1e6, "b": rng.randint(-2**70, 2**70), "c": rng.choice([math.inf, -math.inf, -0.0, 1e-320, 1.7976931348623157e308]),
                "d": np.array([rng.random() for _ in range(3)]), "e": np.array([rng.randint(-2**62, 2**62) for _ in range(3)], dtype=np.int64)}
        m = Metadata(per_occurrence_limit=rng.random() * 1e5, details={"x": rng.random(), "y": rng.randint(-10**20, 10**20)})
        out.append(Triangle([CumulativeCell(period_start=D(2020, 1, 1), period_end=D(2020, 3, 31),
                                            evaluation_date=D(2020, 3, 31) + datetime.timedelta(days=rng.randint(0, 900)),
                                            values=vals, metadata=m)]))
    return out


# ------------------------------------------------------------------------------ large stream (family Q)
def month_end_of(k):
    """last day of month index k (k = 12 * year + month - 1)"""
    import calendar

    y, m = divmod(k, 12)
    return D(y, m + 1, calendar.monthrange(y, m + 1)[1])


def big_triangle(quick=True, seed=1):
    """ONE big triangle crossing the size thresholds of family Q: slices of 600 (> 513, followed by another slice),
    256 / 512 / 513 / 514 / 768 / 1025 cells (boundaries at multiples of 256), a slice with one cell in each of 1100
    distinct months, a row of 70 evaluation dates, integers beyond 2**53 as values / ids / limits, sample arrays of
    4096-20000 (thorough: 10**5) items incl. reversed / strided / Fortran views"""
    from bermuda import CumulativeCell, Metadata, Triangle

    rng = np.random.default_rng(seed)
    cells = []

    def grid(n, m, base_y=2000, lags=24):
        out = []
        p = 0
        while len(out) < n:
            for lag in range(lags):
                if len(out) == n:
                    break
                k = 12 * base_y + p
                out.append(CumulativeCell(period_start=D(k // 12, k % 12 + 1, 1), period_end=month_end_of(k),
                                          evaluation_date=month_end_of(k + lag),
                                          values={"paid_loss": int(len(out)), "earned_premium": 1000.5 + p}, metadata=m))
            p += 1
        return out

    sizes = [600, 256, 512, 513, 514, 768, 1025] + ([] if quick else [2049, 3100])
    for i, n in enumerate(sizes):
        cells += grid(n, Metadata(country="US", per_occurrence_limit=2**53 + 1 + i, details={"id": 20240000001 + i, "big": 2**60 + i}))
    m_months = Metadata(country="DE", details={"id": 2**53 + 1})
    for k in range(1100):                                   # > 1024 distinct months, pre-1970 included
        kk = 12 * 1905 + k
        cells.append(CumulativeCell(period_start=D(kk // 12, kk % 12 + 1, 1), period_end=month_end_of(kk), evaluation_date=month_end_of(kk),
                                    values={"reported_loss": 2**53 + 1 + k, "ids": np.array([2**53 + 1 + k, -(2**62) - k], dtype=np.int64)},
                                    metadata=m_months))
    m_row = Metadata(country="FR", loss_details={"layer": 2**53 + 3})
    for lag in range(70):                                   # a row of > 65 cells, > 64 distinct evaluation dates
        cells.append(CumulativeCell(period_start=D(2010, 1, 1), period_end=D(2010, 12, 31), evaluation_date=month_end_of(12 * 2010 + 11 + lag),
                                    values={"paid_loss": 2.5 * lag, "n": None}, metadata=m_row))
    m_arr = Metadata(country="JP")
    ns = [4096, 5000, 20000] if quick else [4096, 5000, 20000, 100000]
    for j, n in enumerate(ns):
        f = rng.normal(1000.0, 50.0, n)
        i64 = rng.integers(-2**62, 2**62, 2 * n, dtype=np.int64)
        cells.append(CumulativeCell(period_start=D(2015 + j, 1, 1), period_end=D(2015 + j, 12, 31), evaluation_date=D(2015 + j, 12, 31),
                                    values={"f_rev": f[::-1], "i_strided": i64[::2], "f_fortran": np.asfortranarray(f * 2.0)}, metadata=m_arr))
    cells.append(CumulativeCell(period_start=D(2030, 1, 1), period_end=D(2030, 12, 31), evaluation_date=D(2030, 12, 31),
                                values={"a": 1}, metadata=Metadata(country="ZZ")))
    order = rng.permutation(len(cells))
    with warnings.catch_warnings():
        warnings.simplefilter("ignore")
        return Triangle([cells[i] for i in order])


def many_metadata_triangle(n, offset=0):
    """n slices of one cell each, every Metadata distinct (ids beyond 2**53)"""
    from bermuda import CumulativeCell, Metadata, Triangle

    return Triangle([CumulativeCell(period_start=D(2020, 1, 1), period_end=D(2020, 12, 31), evaluation_date=D(2020, 12, 31),
                                    values={"a": i}, metadata=Metadata(details={"id": 2**53 + 1 + offset + i, "tag": f"m{(offset + i) % 97}"}))
                     for i in range(n)])


def large_oracle(t, tmpdir):
    """the round-trip oracle without the quadratic parts: export (string, dict), plain-parser view judged on an
    independent grouping, two readers (string, path), strict comparison, re-export"""
    from bermuda import Triangle
    from bermuda.io.json import json_string_to_triangle

    with warnings.catch_warnings():
        warnings.simplefilter("ignore")
        try:
            text = t.to_json()
            tree = json.loads(text)
            if t.to_dict() != tree and json.loads(json.dumps(t.to_dict())) != tree:
                return {"stage": "export", "detail": "to_dict and to_json disagree"}
        except Exception as ex:  # noqa: BLE001
            return {"stage": "export", "raised": f"{type(ex).__name__}: {ex}"[:300]}
        pv = plain_view_ok(t, text)
        if pv:
            return {"stage": "plain-parser view of the text", "detail": pv}
        want = canon_retag(t, ordered=True)
        p = os.path.join(tmpdir, "large.json")
        open(p, "w").write(text)
        for rn, r in (("json_string_to_triangle", lambda: json_string_to_triangle(text)), ("from_json(path)", lambda: Triangle.from_json(p))):
            try:
                got = r()
            except Exception as ex:  # noqa: BLE001
                return {"stage": f"import {rn}", "raised": f"{type(ex).__name__}: {ex}"[:300]}
            g = canon_tri(got, ordered=True)
            if g != want:
                diff = next((i for i, (a, b) in enumerate(zip(g, want)) if a != b), None)
                return {"stage": f"import {rn}", "detail": "cells differ", "first_diff_index": diff,
                        "got": (repr(g[diff])[:600] if diff is not None else f"{len(g)} cells"),
                        "want": (repr(want[diff])[:600] if diff is not None else f"{len(want)} cells")}
        if json.loads(got.to_json()) != tree:
            return {"stage": "re-export of the imported triangle differs from the first export"}
    return None


def large_stream(ctx, tmpdir):
    """Family Q.  Python-side oracles only (no Coq literals: the theorems are size independent, it is the
    correspondence that samples).  Process-wide state (pools, ring caches) is exposed by re-checking EARLY small
    cases AFTER the large work: their specification, canonical form and exported text were recorded before."""
    from bermuda.io.json import json_string_to_triangle

    quick = ctx.quick
    fails = []
    early = []
    for t, info, desc in battery()[:6] + mixed_rep_cases(random.Random(3), 2):
        with warnings.catch_warnings():
            warnings.simplefilter("ignore")
            early.append((desc, tri_spec(t), canon_retag(t, ordered=True), t.to_json()))
    t0 = time.time()
    big = big_triangle(quick, seed=ctx.seed)
    r = large_oracle(big, tmpdir)
    ctx.count(evaluations=len(big), traces=1)
    ctx.hist(f"large:big-triangle-{len(big)}-cells-{len(slice_groups(big))}-slices")
    if r:
        fails.append(("big triangle", {"generator": "big_triangle", "quick": quick, "seed": ctx.seed, "cells": len(big)}, r))
    for k, n in enumerate([2200] if quick else [2200, 4300]):          # > 2048 / > 4200 distinct Metadata in this process
        many = many_metadata_triangle(n, offset=10000 * k)
        r = large_oracle(many, tmpdir)
        ctx.count(evaluations=n, traces=1)
        ctx.hist(f"large:{n}-distinct-metadata")
        if r:
            fails.append((f"{n} slices of one cell", {"generator": "many_metadata_triangle", "n": n, "offset": 10000 * k}, r))
    # re-check of the earliest cases after the large work
    for desc, spec, canon, text in early:
        with warnings.catch_warnings():
            warnings.simplefilter("ignore")
            rebuilt = spec_tri(spec)
            r = None
            if tri_spec(rebuilt) != spec:
                bad = next(i for i, (a, b) in enumerate(zip(tri_spec(rebuilt), spec)) if a != b)
                r = {"stage": "a triangle rebuilt from its own specification after the large work does not carry the cells it "
                              "was given", "index": bad, "got_meta": tri_spec(rebuilt)[bad]["meta"], "want_meta": spec[bad]["meta"]}
            elif canon_retag(rebuilt, ordered=True) != canon or rebuilt.to_json() != text:
                r = {"stage": "early case rebuilt after the large work: canonical form / exported text changed"}
            elif canon_tri(json_string_to_triangle(text), ordered=True) != canon:
                r = {"stage": "text exported BEFORE the large work no longer loads to the same cells"}
            else:
                r = oracle(rebuilt, tmpdir, full=False)
        ctx.count(evaluations=4)
        if r:
            fails.append((f"re-check of early case {desc} after the large work", {"generator": "early-recheck", "case": desc}, r))
    ctx.hist("large:early-cases-rechecked", len(early))
    ctx.log(f"large stream: {len(big)}-cell triangle, {2200 if quick else 6500} distinct metadata, {len(early)} early cases re-checked, "
            f"{len(fails)} failures, {time.time() - t0:.1f}s")
    for what, params, r in fails[:4]:
        ctx.violation("impl-violation", f"large stream: {what}: {r}", {"large_stream": params, "failure": r}, found_input=True)
    return fails


# ------------------------------------------------------------------------------ Coq correspondence
HEADER = """From Coq Require Import ZArith List Bool.
From Bermuda Require Import Model.Base Model.Json.
From Bermuda Require Import Proofs.JsonRoundtrip.
From Gen Require Import GenJson.
Import ListNotations.
Local Open Scope Z_scope.
Definition L := {layout}.
"""


def correspondence(ctx, cases, layout_name):
    from bermuda import Triangle

    rng = random.Random(ctx.seed * 31 + 5)
    files, per = [], 40
    chunks = [cases[i:i + per] for i in range(0, len(cases), per)]
    meta = []
    for fi, chunk in enumerate(chunks):
        L = [HEADER.format(layout=layout_name)]
        idx = []
        for ci, (t, info, desc) in enumerate(chunk):
            if info.get("oracle_only"):
                ctx.hist("corr:oracle-only")
                continue
            try:
                with warnings.catch_warnings():
                    warnings.simplefilter("ignore")
                    tree = t.to_dict()
                    back = Triangle.from_dict(tree)
                    ptree = shuffle_tree(tree, rng)
                    pback = Triangle.from_dict(ptree)
                if info.get("mixed_rep"):   # Python-equal metadata spelt differently: C07_roundtrip_any_order
                    hyp, claim = f"wf_tri L t{ci} && negb (grouped t{ci})", f"regroup t{ci}"
                else:
                    hyp, claim = f"wf_tri L t{ci} && grouped t{ci}", f"map retag t{ci}"
                txt = (f"Definition t{ci} : list wcell := {cwcells(t.cells)}.\n"
                       f"Definition j{ci} : json := {cjson(tree)}.\n"
                       f"Definition r{ci} : list wcell := {cwcells(back.cells)}.\n"
                       f"Definition pj{ci} : json := {cjson(ptree)}.\n"
                       f"Definition pr{ci} : list wcell := {cwcells(pback.cells)}.\n"
                       f"Definition case{ci} : list bool := [{hyp};\n"
                       f"  json_eqb (encode L t{ci}) j{ci};\n"
                       f"  result_eqb (list_eqb wcell_eqb) (decode L j{ci}) (Ok r{ci});\n"
                       f"  list_eqb wcell_eqb r{ci} ({claim});\n"
                       f"  result_eqb (list_eqb wcell_eqb) (decode L pj{ci}) (Ok pr{ci})].\n")
            except NotRepresentable:
                ctx.hist("corr:skipped-not-representable")
                continue
            except Exception as ex:  # noqa: BLE001  (the oracle reports this case)
                ctx.hist(f"corr:impl-raised-{type(ex).__name__}")
                continue
            L.append(txt)
            idx.append(ci)
        L.append("Eval vm_compute in map failing [" + "; ".join(f"case{ci}" for ci in idx) + "].\n")
        f = ctx.build / f"cases_{fi}.v"
        f.write_text("\n".join(L))
        files.append(f)
        meta.append((chunk, idx))
    res = ctx.coqc_many(files, jobs=16, timeout=900)
    CHECKS = ["hypotheses wf_tri && grouped hold", "model encode = to_dict tree", "model decode = from_dict (exported tree)",
              "from_dict result = retag t (theorem's claim on the implementation's output)",
              "model decode = from_dict (members shuffled)"]
    mism, n = [], 0
    for f, (chunk, idx) in zip(files, meta):
        rc, out = res[f]
        if rc != 0:
            mism.append({"file": f.name, "coqc": out[-800:]})
            continue
        vals = parse_coq_eval(out)
        if not vals:
            mism.append({"file": f.name, "no-output": out[-300:]})
            continue
        inner = vals[-1].strip()
        rows = [r for r in inner[1:-1].split("];")] if inner != "[]" else []
        rows = [r.replace("[", "").replace("]", "").replace("%nat", "").strip() for r in rows]
        if len(rows) != len(idx):
            mism.append({"file": f.name, "parse": inner[:300]})
            continue
        for ci, r in zip(idx, rows):
            n += 1
            bad = [int(x) for x in r.split(";") if x.strip()]
            if bad:
                t, info, desc = chunk[ci]
                mism.append({"case": desc, "failed_checks": [CHECKS[b] for b in bad], "triangle": tri_spec(t)})
    return mism, n


# ------------------------------------------------------------------------------ probes
def base_cell(**kw):
    from bermuda import CumulativeCell

    d = dict(period_start=D(2020, 1, 1), period_end=D(2020, 12, 31), evaluation_date=D(2020, 12, 31), values={"a": 1})
    d.update(kw)
    return CumulativeCell(**d)


def probes(ctx, tmpdir):
    from bermuda import Metadata, Triangle

    # F11 (fixed): risk_basis=None must survive
    t = Triangle([base_cell(metadata=Metadata(risk_basis=None))])
    r = oracle(t, tmpdir)
    ctx.count(evaluations=1)
    if r is not None:
        ctx.violation("impl-violation", f"risk_basis=None does not survive the JSON round trip: {r}",
                      {"triangle": tri_spec(t), "failure": r}, found_input=True,
                      finding_class={"kind": "risk_basis_none_dropped"})
    # N1: keys that collide with the object_hook dispatch
    n1 = [("field 'cells'", dict(values={"cells": 1})), ("field 'slices'", dict(values={"slices": 1})),
          ("fields period_start+period_end+values", dict(values={"period_start": 1, "period_end": 2, "values": 3})),
          ("detail key 'cells'", dict(metadata=Metadata(details={"cells": 3}))),
          ("detail key 'slices'", dict(metadata=Metadata(details={"slices": "x"}))),
          ("loss_detail key 'cells'", dict(metadata=Metadata(loss_details={"cells": 3})))]
    for name, kw in n1:
        t = Triangle([base_cell(**kw)])
        r = oracle(t, tmpdir, full=False)
        ctx.count(evaluations=1)
        ctx.hist("probe:N1-" + ("fails" if r else "passes"))
        if r is not None:
            ctx.violation("impl-violation", f"{name}: exported, but the import fails: {r}",
                          {"triangle": tri_spec(t), "failure": r}, found_input=True,
                          finding_class={"kind": "hook_key_collision"})
    # N2: empty int64 array
    t = Triangle([base_cell(values={"a": np.array([], dtype=np.int64)})])
    r = oracle(t, tmpdir, full=False)
    ctx.hist("probe:N2-" + ("fails" if r else "passes"))
    if r is not None:
        ctx.violation("impl-violation", f"empty int64 sample array does not round-trip: {r}",
                      {"triangle": tri_spec(t), "failure": r}, found_input=True,
                      finding_class={"kind": "empty_int64_array_dtype"})
    # N3: year < 1000
    t = Triangle([base_cell(period_start=D(999, 1, 1), period_end=D(999, 12, 31), evaluation_date=D(999, 12, 31))])
    r = oracle(t, tmpdir, full=False)
    ctx.hist("probe:N3-" + ("fails" if r else "passes"))
    if r is not None:
        ctx.violation("impl-violation", f"dates before year 1000 do not round-trip: {r}",
                      {"triangle": tri_spec(t), "failure": r}, found_input=True,
                      finding_class={"kind": "iso_year_below_1000"})
    ctx.count(evaluations=2)


# ------------------------------------------------------------------------------ run
def run(ctx):
    from translate import t_json

    ctx.rule = (
        "cases: a directed battery (each metadata attribute alone / all together / risk_basis None / each cell class "
        "/ every value kind) + harness.gen triangles (1-4 slices differing in one or several metadata attributes, all "
        "layouts, Cell/CumulativeCell/IncrementalCell, int / dyadic float / None scalars, int64 / float64 sample arrays "
        "incl. empty float arrays, reversed field order), shuffled before Triangle(); each case goes through coqc "
        "(model encode/decode vs to_dict/from_dict on the exported and on a member-shuffled tree) and through the "
        "direct oracle (4 writers x 4 readers, strict class/date/metadata/kind/dtype/order comparison). A case is "
        "non-trivial if it has >= 2 cells; cases are distinct by canonical form.")
    ctx.assumptions += [
        "json.dumps/json.loads (tree <-> text) are trusted; the model is at tree level",
        "translate/t_json.py reads the Python AST faithfully; Model/Json.v interprets the generated layout",
        "ISO dates: glibc strftime('%Y') unpadded, strptime read strictly as DDDD-DD-DD (canonical text only)",
        "np.array(list) modelled for all-int (int64), int/float mixes and [] (float64); other list shapes are outside the model",
        "hypotheses of C07_roundtrip: hook-inert keys (N1), non-empty int64 arrays (N2), 1000 <= year (N3), "
        "Python-equal metadata identical and slices contiguous (N4, by design)",
        "large stream (family Q: 5000+-cell triangle, 2200+ distinct Metadata, 4096-10**5-sample arrays, ints beyond 2**53, "
        "early cases re-checked after the large work) is judged by the Python-side oracles only -- no Coq literals: the "
        "theorems are size independent, it is the correspondence that samples",
    ]
    tmpdir = tempfile.mkdtemp(prefix="c07-", dir=str(ctx.build))
    try:
        # 1. translate
        gen_ok = False
        try:
            gen = t_json.translate(REPO)
            ctx.obligation("T-json translation of bermuda/io/json.py + Metadata.as_dict", True)
            (ctx.build / "GenJson.v").write_text(gen)
            gen_ok = True
        except t_json.Unsupported as ex:
            ctx.obligation("T-json translation of bermuda/io/json.py + Metadata.as_dict", False, str(ex))
            ctx.log(f"translator failed closed: {ex}")
        except Exception as ex:  # noqa: BLE001
            ctx.obligation("T-json translation of bermuda/io/json.py + Metadata.as_dict", False, repr(ex))
        for f in set(ctx.build.glob("cases_*")) | set(ctx.build.glob("*.vo")) | set(ctx.build.glob("*.glob")):
            f.unlink(missing_ok=True)
        ctx.log("translated; compiling proofs")
        # 2. proofs
        ctx.audit_tree(["Model/Json.v", "Proofs/JsonBase.v", "Proofs/JsonRoundtrip.v", "Proofs/JsonShape.v", "Props/C07.v"])
        ctx.prove_static("Props/C07.v")
        layout_name = "std_layout"
        if gen_ok:
            rc, out = ctx.coqc(ctx.build / "GenJson.v", timeout=300)
            ctx.obligation("GenJson.v compiles", rc == 0, out)
            if rc == 0:
                shutil.copy(COQ / "GenProps" / "C07_json.v", ctx.build / "C07_json.v")
                ok, out = ctx.prove(ctx.build / "C07_json.v", timeout=600)
                layout_name = "GenJson.layout"       # run the GENERATED layout even if it is not the standard one
                if not ok:
                    exp = t_json.emit(STD_DESCRIPTION)
                    import difflib

                    d = "".join(difflib.unified_diff(exp.splitlines(1), gen.splitlines(1), "standard layout", "generated from source"))
                    ctx.extra["generated_layout_diff"] = d[:6000]
                    ctx.notes.append("generated layout differs from std_layout:\n" + d[:3000])
            else:
                gen_ok = False
        if not gen_ok:
            (ctx.build / "GenJson.v").write_text(
                "From Bermuda Require Import Model.Json.\nDefinition layout := std_layout.\n")
            ctx.coqc(ctx.build / "GenJson.v", timeout=300)
        ctx.log("proof files done; generating cases")
        # 3. cases
        n_gen = 170 if ctx.quick else 1500
        cases = battery() + hardening_cases() + mixed_rep_cases(random.Random(ctx.seed * 13 + 1), 24 if ctx.quick else 150) + gen_cases(ctx, n_gen)
        for t, info, desc in cases:
            ctx.hist("case:" + desc.split("/")[0] + "/" + str(info.get("basis", info.get("cls", ""))))
            ctx.hist(f"slices:{len(t.slices)}")
            if len(t) >= 2:
                ctx.nontriv(canon_tri(t, ordered=True))
        ctx.sample({"case": cases[50][2], "triangle": tri_spec(cases[50][0])[:3]} if len(cases) > 50 else {})
        ctx.log(f"{len(cases)} cases generated")
        # 4. direct oracle on every case (all writers x readers, shuffled trees)
        orng = random.Random(ctx.seed * 17 + 3)
        fails = []
        for t, info, desc in cases:
            r = oracle(t, tmpdir, orng)
            ctx.count(evaluations=8, traces=1)
            if r is not None:
                fails.append((t, desc, r))
        for t in extra_oracle_cases(orng):
            r = oracle(t, tmpdir, orng)
            ctx.count(evaluations=8, traces=1)
            ctx.hist("case:non-dyadic/oracle-only")
            if r is not None:
                fails.append((t, "non-dyadic floats / big ints (oracle only)", r))
        ctx.log(f"direct oracle: {len(cases) + 40} triangles, {len(fails)} failures")
        for t, desc, r in fails[:5]:
            spec = tri_spec(t)
            cls = None
            if (any(s["meta"]["risk_basis"] is None for s in spec) and "Accident" in json.dumps(r)):
                cls = {"kind": "risk_basis_none_dropped"}
            ctx.violation("impl-violation", f"JSON round trip fails ({desc}): {r}",
                          {"triangle": shrink(t, tmpdir), "failure": r}, found_input=True, finding_class=cls)
        # 5. correspondence in coqc
        mism, ncorr = correspondence(ctx, cases, layout_name)
        ctx.count(evaluations=5 * ncorr, traces=ncorr)
        ctx.log(f"correspondence: {ncorr} triangles in coqc, {len(mism)} mismatching")
        ctx.obligation("correspondence model vs implementation (encode, decode, shuffled decode, claim on impl output)",
                       not mism, json.dumps(mism[:3], default=str)[:1500])
        if mism and not fails:
            # the model and the implementation differ although every round trip succeeded
            ctx.violation("correspondence", "model and implementation differ on a generated triangle",
                          {"mismatches": mism[:5]}, found_input=False)
        # 6. probes
        probes(ctx, tmpdir)
        large_stream(ctx, tmpdir)
        hfails = hardening_checks(ctx, tmpdir)
        ctx.log(f"entry-point hardening checks: {len(hfails)} failures")
    finally:
        shutil.rmtree(tmpdir, ignore_errors=True)


def shrink(t, tmpdir):
    """drop cells / fields while the oracle still fails; returns the replay spec"""
    from bermuda import Triangle

    cells = list(t.cells)

    def bad(cs):
        try:
            with warnings.catch_warnings():
                warnings.simplefilter("ignore")
                return bool(cs) and oracle(Triangle(cs), tmpdir, full=False) is not None
        except Exception:  # noqa: BLE001
            return False

    if not bad(cells):
        return tri_spec(t)
    i = 0
    while i < len(cells) and len(cells) > 1:
        trial = cells[:i] + cells[i + 1:]
        if bad(trial):
            cells = trial
        else:
            i += 1
    for i, c in enumerate(list(cells)):
        for k in list(c.values):
            vals = {a: b for a, b in cells[i].values.items() if a != k}
            trial = cells[:i] + [cells[i].replace(values=vals)] + cells[i + 1:]
            if bad(trial):
                cells = trial
    return tri_spec(cells)


STD_DESCRIPTION = {
    "slices": "slices",
    "meta_out": [("currency", "ACurrency"), ("country", "ACountry"), ("risk_basis", "ARisk"),
                 ("reinsurance_basis", "AReins"), ("loss_definition", "ALossDef"), ("per_occurrence_limit", "ALimit"),
                 ("details", "ADetails"), ("loss_details", "ALossDetails")],
    "always": ["risk_basis"], "cells": "cells",
    "cell_out": [("period_start", "DPs"), ("period_end", "DPe"), ("evaluation_date", "DEv")],
    "prev_out": [("prev_evaluation_date", "DPrev")], "values": "values", "tolist": True, "fmt_out": "%Y-%m-%d",
    "dispatch": [(["slices"], "AConcat"), (["cells"], "ACellSet"), (["period_start", "period_end", "values"], "AObservation")],
    "slices_in": "slices",
    "meta_in": [("ARisk", "risk_basis", '(DfStr (str_of_string "Accident"))'), ("ACountry", "country", "DfNone"),
                ("ACurrency", "currency", "DfNone"), ("AReins", "reinsurance_basis", "DfNone"),
                ("ALossDef", "loss_definition", "DfNone"), ("ALimit", "per_occurrence_limit", "DfNone"),
                ("ADetails", "details", "DfEmptyDict"), ("ALossDetails", "loss_details", "DfEmptyDict")],
    "cells_in": "cells", "values_in": "values", "inc_test": "prev_evaluation_date", "class_if": "KInc",
    "dates_if": [("DPs", "period_start"), ("DPe", "period_end"), ("DEv", "evaluation_date"), ("DPrev", "prev_evaluation_date")],
    "class_else": "KCum",
    "dates_else": [("DPs", "period_start"), ("DPe", "period_end"), ("DEv", "evaluation_date")],
    "fmt_in": "%Y-%m-%d",
}


def replay(ctx, data):
    if data.get("large_stream"):
        class _L:
            quick = data["large_stream"].get("quick", True)
            seed = data["large_stream"].get("seed", 1)
            def count(self, *a, **k): pass
            def hist(self, *a, **k): pass
            def log(self, *a): print(*a)
            def violation(self, kind, what, *a, **k): print("FAILS:", what[:1200])
        tmp = tempfile.mkdtemp(prefix="c07-replay-")
        try:
            print("re-running the large stream (generator parameters:", data["large_stream"], ")")
            fails = large_stream(_L(), tmp)
        finally:
            shutil.rmtree(tmp, ignore_errors=True)
        if not fails:
            print("large stream: every round trip and every early-case re-check OK")
        return 1 if fails else 0
    if data.get("entry_point_check"):
        class _C:
            def count(self, *a, **k): pass
            def hist(self, *a, **k): pass
            def violation(self, *a, **k): pass
        tmp = tempfile.mkdtemp(prefix="c07-replay-")
        try:
            fails = hardening_checks(_C(), tmp)
        finally:
            shutil.rmtree(tmp, ignore_errors=True)
        hit = [f for f in fails if f[0] == data["entry_point_check"]]
        print(f"entry-point check {data['entry_point_check']!r}:", "FAILS: " + hit[0][1] if hit else "OK")
        return 1 if hit else 0
    spec = data.get("triangle")
    if not spec:
        print("replay data holds no triangle:", json.dumps(data, default=str)[:2000])
        return 1
    tmpdir = tempfile.mkdtemp(prefix="c07-replay-")
    try:
        with warnings.catch_warnings():
            warnings.simplefilter("ignore")
            t = spec_tri(spec)
        print(f"triangle with {len(t)} cell(s), {len(t.slices)} slice(s); first cell: {t.cells[0]!r}"[:600])
        r = oracle(t, tmpdir, random.Random(1))
        if r is None:
            print("strict JSON round trip through every writer and reader: OK")
            return 0
        print("strict JSON round trip FAILS:", json.dumps(r, default=str)[:1500])
        return 1
    finally:
        shutil.rmtree(tmpdir, ignore_errors=True)
