"""Shared machinery for every property check.

A property module ``harness/cXX.py`` exposes

    run(ctx)            -- the whole check (translate, compile proofs, correspondence, search)
    replay(ctx, data)   -- re-run one recorded failing input against /repo (optional)

and reports through ``ctx``:

    ctx.obligation(name, ok, detail)       a Coq proof obligation (theorem file) of this run
    ctx.count(evaluations=, nontrivial=)   correspondence / enumeration volume
    ctx.sample(obj)                        an example case written into the evidence
    ctx.violation(kind, what, data, found_input=bool, finding_class=dict|None)
    ctx.hist(key)                          input-distribution histogram

``ctx.finish()`` writes evidence/<id>.json, prints KNOWN-FINDING / VIOLATION lines and
returns the exit code.
"""
from __future__ import annotations

import fcntl
import hashlib
import json
import os
import re
import subprocess
import sys
import time
from pathlib import Path

ROOT = Path(__file__).resolve().parent.parent
REPO = Path(os.environ.get("VERIF_REPO", "/repo"))
COQ = ROOT / "coq"
PY = "/venv/bin/python"

FORBIDDEN = re.compile(
    r"\b(Admitted|admit|Axiom|Axioms|Parameter|Parameters|Conjecture|Conjectures|"
    r"Admit Obligations|Unset Guard Checking|bypass_check|Unset Positivity Checking|"
    r"Unset Universe Checking|native_compute)\b|Hypothesis |Variable |Hypotheses |Variables "
)


def sh(cmd, timeout=600, cwd=None, env=None, input=None):
    """Run a command under a timeout; returns (rc, stdout+stderr)."""
    e = dict(os.environ)
    if env:
        e.update(env)
    try:
        p = subprocess.run(
            cmd,
            shell=isinstance(cmd, str),
            cwd=cwd,
            env=e,
            input=input,
            stdout=subprocess.PIPE,
            stderr=subprocess.STDOUT,
            timeout=timeout,
            text=True,
        )
        return p.returncode, p.stdout
    except subprocess.TimeoutExpired as ex:
        out = ex.stdout or ""
        if isinstance(out, bytes):
            out = out.decode("utf8", "replace")
        return 124, out + f"\n[timeout after {timeout}s]"


def coq_comment_strip(text: str) -> str:
    """Remove (nested) Coq comments and string literals so that audits do not match inside them."""
    out = []
    depth = 0
    i = 0
    n = len(text)
    in_str = False
    while i < n:
        if in_str:
            if text[i] == '"':
                in_str = False
            i += 1
            continue
        if text.startswith("(*", i):
            depth += 1
            i += 2
            continue
        if depth and text.startswith("*)", i):
            depth -= 1
            i += 2
            continue
        if depth == 0:
            if text[i] == '"':
                in_str = True
                i += 1
                continue
            out.append(text[i])
        i += 1
    return "".join(out)


def audit_coq_sources(paths) -> list[str]:
    """Forbidden-construct audit.  `Variable`/`Hypothesis` are allowed inside a Section only."""
    problems = []
    for p in paths:
        try:
            raw = Path(p).read_text()
        except OSError:
            continue
        txt = coq_comment_strip(raw)
        depth = 0
        for sentence in re.split(r"\.\s", txt):
            s = sentence.strip()
            if re.match(r"^(Section|Module)\s", s):
                depth += 1 if s.startswith("Section") else 0
            if re.match(r"^End\s", s) and depth:
                depth -= 1
            m = FORBIDDEN.search(s + " ")
            if m:
                word = m.group(0).strip()
                if word in ("Hypothesis", "Variable", "Hypotheses", "Variables") and depth > 0:
                    continue
                # `Context`-free use of the word inside identifiers is excluded by \b
                problems.append(f"{p}: forbidden construct `{word}` in: {s[:80]!r}")
    return problems


class Ctx:
    def __init__(self, pid: str, tier: str, seed: int):
        self.pid = pid
        self.tier = tier
        self.seed = seed
        self.t0 = time.time()
        # runs against a scratch copy of the repository get their own build directory so that they
        # cannot disturb (or be disturbed by) a run against /repo itself
        tag = "" if str(REPO) == "/repo" else "-scratch-" + hashlib.blake2b(str(REPO).encode(), digest_size=4).hexdigest()
        self.build = ROOT / "build" / (pid + tag)
        self.build.mkdir(parents=True, exist_ok=True)
        self.obligations: list[dict] = []
        self.evaluations = 0
        self.nontrivial: set | int = set()
        self.traces = 0
        self.samples: list = []
        self.histogram: dict[str, int] = {}
        self.violations: list[dict] = []
        self.trusted: list[str] = []
        self.assumptions: list[str] = []
        self.notes: list[str] = []
        self.rule = ""
        self.checker_cmds: list[str] = []
        self.extra: dict = {}
        self.exhaustive = False
        self.known = load_known_findings()
        self.known_hit: list[dict] = []

    # ------------------------------------------------------------------ logging
    def log(self, *a):
        print(f"[{self.pid} {time.time()-self.t0:6.1f}s]", *a, flush=True)

    @property
    def quick(self):
        return self.tier == "quick"

    # ------------------------------------------------------------------ coq
    def ensure_static(self):
        """Make sure the static development under coq/ is built (no-op when up to date)."""
        lock = ROOT / "build" / ".coq.lock"
        lock.parent.mkdir(exist_ok=True)
        with open(lock, "w") as lf:
            # another check (or a developer) may be rebuilding the static tree: wait for it, but not for
            # ever -- after 4 minutes go on with the .vo files that exist (a check whose own
            # dependencies are stale then fails its obligations, it does not hang)
            waited, got = 0, False
            while waited < 240:
                try:
                    fcntl.flock(lf, fcntl.LOCK_EX | fcntl.LOCK_NB)
                    got = True
                    break
                except OSError:
                    time.sleep(2)
                    waited += 2
            if not got:
                self.notes.append("static build lock busy for 240 s: continuing with the existing .vo files")
                return
            rc, out = sh("./setup.sh quiet", cwd=ROOT, timeout=3000)
            fcntl.flock(lf, fcntl.LOCK_UN)
        if rc != 0:
            # some file of the static tree failed; a check that depends on it will fail its own
            # obligations (prove_static / coqc), others are unaffected
            self.log("static build reported errors (continuing):\n" + out[-1500:])
            self.notes.append("static build reported errors: " + out[-500:])

    def coqc(self, vfile: Path, timeout=900, logical="Gen"):
        """Compile one generated file that lives in build/<pid>/ ; returns (rc, out)."""
        vfile = Path(vfile)
        cmd = [
            "coqc", "-q", "-Q", str(COQ), "Bermuda", "-Q", str(self.build), logical, str(vfile),
        ]
        self.checker_cmds.append(" ".join(cmd))
        rc, out = sh(cmd, timeout=timeout, cwd=self.build)
        # a compile that was killed (time-out, signal, out of memory) or died without a Coq message
        # says nothing about the property: retry it once, alone, with a longer limit
        if rc != 0 and (rc in (124, 137, 139, 143) or rc < 0 or "Error" not in out):
            self.notes.append(f"coqc {vfile.name}: rc={rc} without a Coq error message; retried once")
            rc, out = sh(cmd, timeout=timeout * 2, cwd=self.build)
        return rc, out

    def coqc_many(self, vfiles, jobs=16, timeout=1800, logical="Gen"):
        """Compile independent files in parallel; returns {file: (rc, out)}."""
        from concurrent.futures import ThreadPoolExecutor

        res = {}
        with ThreadPoolExecutor(max_workers=jobs) as ex:
            futs = {ex.submit(self.coqc, f, timeout, logical): f for f in vfiles}
            for fu, f in futs.items():
                res[f] = fu.result()
        return res

    def obligation(self, name: str, ok: bool, detail: str = "", assumptions: str | None = None):
        self.obligations.append({"name": name, "ok": bool(ok), "detail": detail[-1500:]})
        if assumptions:
            self.trusted.append(f"Print Assumptions {name}: {assumptions}")

    def prove(self, vfile: Path, theorems: list[str] | None = None, timeout=900, logical="Gen"):
        """Compile a property file; every `Theorem`/`Lemma`/`Example` ... in it counts as one
        obligation (or the explicit list).  Collects `Print Assumptions` output.  Returns ok."""
        vfile = Path(vfile)
        txt = coq_comment_strip(vfile.read_text())
        names = theorems or re.findall(r"^\s*(?:Theorem|Corollary)\s+([A-Za-z0-9_']+)", txt, re.M)
        probs = audit_coq_sources([vfile])
        rc, out = self.coqc(vfile, timeout=timeout, logical=logical)
        ok = rc == 0 and not probs
        assum = parse_print_assumptions(
            out, re.findall(r"Print\s+Assumptions\s+([A-Za-z0-9_'.]+)\s*\.", txt)
        )
        for n in names:
            self.obligation(
                f"{vfile.name}:{n}", ok, "" if ok else (out[-1200:] + "\n".join(probs)), assum.get(n)
            )
        if not names:
            self.obligation(f"{vfile.name}", ok, "" if ok else out[-1200:])
        if not ok:
            self.log(f"obligation file {vfile.name} FAILED:\n{out[-1500:]}" + "\n".join(probs))
        return ok, out

    def prove_static(self, rel: str, theorems=None, timeout=900):
        """Re-check a static property file (coq/Props/...) whose dependencies were built by
        setup.sh: the file is copied to build/<pid>/ and compiled there (so the shared tree is not
        touched), one obligation per Theorem, Print Assumptions collected."""
        src = COQ / rel
        dst = self.build / (src.stem + "_static.v")
        dst.write_text(src.read_text())
        res = self.prove(dst, theorems=theorems, timeout=timeout)
        if not self.quick and res[0]:
            self.coqchk("Bermuda." + rel[:-2].replace("/", "."))
        return res

    def coqchk(self, module: str, timeout=3000):
        """Thorough tier: re-check a compiled static module and everything it depends on with the
        independent checker and record the axioms it reports."""
        cmd = ["coqchk", "-silent", "-o", "-Q", str(COQ), "Bermuda", module]
        self.checker_cmds.append(" ".join(cmd))
        rc, out = sh(cmd, timeout=timeout, cwd=ROOT)
        summ = out[out.find("CONTEXT SUMMARY"):] if "CONTEXT SUMMARY" in out else out[-800:]
        ax = re.search(r"\* Axioms:(.*?)\n\s*\n\* ", summ, re.S)
        self.obligation(f"coqchk {module}", rc == 0, out[-1200:])
        self.trusted.append(f"coqchk -o {module}: axioms: " + (re.sub(r"\s+", " ", ax.group(1)).strip() if ax else "?"))
        return rc == 0

    def audit_tree(self, rels):
        """Forbidden-construct audit over static files (relative to coq/); failing = obligation."""
        files = []
        for r in rels:
            pth = COQ / r
            files += sorted(pth.rglob("*.v")) if pth.is_dir() else [pth]
        probs = audit_coq_sources(files)
        self.obligation("audit:no-axioms-admits(" + ",".join(rels) + ")", not probs, "\n".join(probs))
        return not probs

    # ------------------------------------------------------------------ counting
    def count(self, evaluations=0, traces=0):
        self.evaluations += evaluations
        self.traces += traces

    def nontriv(self, key):
        """Register one non-trivial case by a canonical (hashable / str) key."""
        if isinstance(self.nontrivial, set):
            self.nontrivial.add(hashlib.blake2b(repr(key).encode(), digest_size=8).hexdigest())

    def sample(self, obj, cap=4):
        if len(self.samples) < cap:
            self.samples.append(obj)

    def hist(self, key, n=1):
        self.histogram[key] = self.histogram.get(key, 0) + n

    # ------------------------------------------------------------------ violations
    def write_replay(self, kind: str, data: dict) -> Path:
        d = ROOT / "replays"
        d.mkdir(exist_ok=True)
        blob = json.dumps(data, sort_keys=True, default=str)
        h = hashlib.blake2b(blob.encode(), digest_size=6).hexdigest()
        p = d / f"{self.pid}-{h}.json"
        payload = {
            "property": self.pid,
            "kind": kind,
            "seed": self.seed,
            "tier": self.tier,
            "replay_cmd": f"./check {self.pid} --replay replays/{p.name}",
            "data": data,
        }
        p.write_text(json.dumps(payload, indent=1, default=str))
        return p

    def violation(self, kind: str, what: str, data: dict, found_input: bool, finding_class=None):
        """kind: impl-violation | correspondence | obligation.
        finding_class: machine-checkable class of the failing input (dict) used to match
        known findings; None = never suppressed."""
        if found_input and finding_class is not None:
            for k in self.known:
                if (
                    k.get("property") == self.pid
                    and k.get("status") == "known"
                    and k.get("class") == finding_class
                ):
                    if k not in self.known_hit:
                        self.known_hit.append(k)
                    return
        data = dict(data)
        data["what"] = what
        p = self.write_replay(kind, data)
        self.violations.append({"kind": kind, "what": what, "replay": str(p), "found_input": found_input})
        self.log(f"violation ({kind}): {what}")

    # ------------------------------------------------------------------ finish
    def finish(self) -> int:
        wall = time.time() - self.t0
        n_ob = len(self.obligations)
        n_ok = sum(1 for o in self.obligations if o["ok"])
        nontriv = len(self.nontrivial) if isinstance(self.nontrivial, set) else int(self.nontrivial)
        cov = {
            "obligations": n_ob,
            "discharged": n_ok,
            "checker_cmd": "; ".join(dict.fromkeys(self.checker_cmds))[:4000]
            or "coqc (see setup.sh)",
            "trusted_base": list(dict.fromkeys(BASE_TRUSTED + self.trusted)),
            "evaluations": self.evaluations,
            "distinct_nontrivial": nontriv,
            "traces_validated_against_impl": self.traces,
            "rule": self.rule,
            "samples": self.samples or ["(no sample recorded)"],
            "input_distribution": self.histogram,
            "obligation_list": [
                {"name": o["name"], "ok": o["ok"]} for o in self.obligations
            ],
            "exhaustive": self.exhaustive,
            "known_findings_hit": [k["what"] for k in self.known_hit],
            "notes": self.notes,
        }
        cov.update(self.extra)
        ev = {
            "property_id": self.pid,
            "tier": self.tier,
            "seed": self.seed,
            "level": "proof",
            "coverage": cov,
            "assumptions": self.assumptions,
            "wall_s": round(wall, 2),
            "violations": len(self.violations),
        }
        # evidence/ only ever describes runs against /repo itself; runs against a scratch copy
        # (VERIF_REPO=..., used to try seeded changes) leave it alone
        evd = ROOT / "evidence" if str(REPO) == "/repo" else self.build / "evidence-scratch"
        evd.mkdir(parents=True, exist_ok=True)
        (evd / f"{self.pid}.json").write_text(json.dumps(ev, indent=1, default=str))
        for k in self.known_hit:
            print(f"KNOWN-FINDING: property={self.pid} {k['what']}", flush=True)
        # failed obligations that no violation() call accounted for
        if n_ok != n_ob and not self.violations:
            bad = [o for o in self.obligations if not o["ok"]]
            self.violation(
                "obligation",
                "proof obligation(s) no longer check: " + ", ".join(o["name"] for o in bad),
                {"obligations": bad},
                found_input=False,
            )
        # prefer reporting violations with a concrete input first
        self.violations.sort(key=lambda v: not v["found_input"])
        printed = set()
        for v in self.violations[:10]:
            tail = "" if v["found_input"] else " no-failing-input-found"
            rel = os.path.relpath(v["replay"], ROOT)
            if rel in printed:
                continue
            printed.add(rel)
            print(f"VIOLATION property={self.pid} replay={rel}{tail}", flush=True)
        self.log(
            f"done: obligations {n_ok}/{n_ob}, evaluations {self.evaluations}, "
            f"nontrivial {nontriv}, violations {len(self.violations)}, {wall:.1f}s"
        )
        return 1 if self.violations else 0


BASE_TRUSTED = [
    "Coq 8.16.1 kernel incl. vm_compute bytecode VM (native_compute not used); coqc full .vo builds",
    "no Axiom/Parameter/Admitted in the development (audited by grep on every run)",
    "Python harness (generators, canonicaliser, Coq-term printer) trusted for detection only",
]


def parse_print_assumptions(out: str, names: list[str] | None = None) -> dict[str, str]:
    """Match the blocks printed by successive `Print Assumptions x.` commands (in order) with the
    names taken from the source text (in order)."""
    blocks = re.split(r"(?m)^(?=Closed under the global context|Axioms:)", out)
    bl = [re.sub(r"\s+", " ", b.strip())[:1500] for b in blocks[1:]]
    res = {}
    names = names or []
    for i, b in enumerate(bl):
        res[names[i] if i < len(names) else f"#{i}"] = b
    return res


def load_known_findings():
    p = ROOT / "known_findings.json"
    if p.exists():
        return json.loads(p.read_text())
    return []


def coq_list(items, sep="; "):
    return "[" + sep.join(items) + "]"


def parse_coq_eval(out: str) -> list[str]:
    """Split coqc output into the values printed by successive `Eval`/`Compute` commands
    (text after `= ` up to the `: type` line), whitespace-normalised."""
    vals = []
    for m in re.finditer(r"(?ms)^\s*= (.*?)\n\s*: ", out):
        vals.append(re.sub(r"\s+", " ", m.group(1)).strip())
    return vals


def stateless_screen(ctx, pid):
    """Obligation of every check: no hidden state (mutated defaults, written module-level containers, globals, new
    memoisation) in the files the property depends on beyond the pinned, reviewed sites of translate/t_stateless.py."""
    from translate import t_stateless

    try:
        sites = t_stateless.scan(REPO)
    except t_stateless.Unsupported as ex:
        ctx.obligation("T-stateless screen of bermuda/ (operations are functions of their arguments)", False, str(ex))
        return
    new, gone = t_stateless.compare(sites)
    files = set()
    for line in open(ROOT / "properties.jsonl"):
        p = json.loads(line)
        if p["id"] == pid:
            files = set(p["anchors"]["files"])
    shared = ("bermuda/base/", "bermuda/triangle.py", "bermuda/date_utils.py", "bermuda/factory.py", "bermuda/errors.py")
    mine = [s for s in new if s.split()[1].split(":")[0] in files or s.split()[1].startswith(shared)]
    other = [s for s in new if s not in mine]
    if other:
        ctx.notes.append("T-stateless: new state sites in files this property does not depend on: " + "; ".join(other)[:600])
    ctx.trusted.append(f"T-stateless: {len(sites)} state sites in bermuda/ ({len(sites) - len(new)} pinned with a reason: memoised "
                       "accessors, build_plot_data's cache, read-only list/dict/date defaults, the S3 client)")
    ctx.obligation("T-stateless screen: no state outliving a call in the files this property depends on, beyond the pinned sites",
                   not mine, "new state sites: " + "; ".join(mine))


def main(argv=None):
    import argparse
    import importlib

    ap = argparse.ArgumentParser()
    ap.add_argument("pid")
    ap.add_argument("--tier", default=os.environ.get("VERIF_TIER", "quick"))
    ap.add_argument("--seed", type=int, default=int(os.environ.get("VERIF_SEED", "1")))
    ap.add_argument("--replay")
    a = ap.parse_args(argv)
    pid = a.pid.upper()
    sys.path.insert(0, str(ROOT))
    os.environ.setdefault("PYTHONHASHSEED", "0")
    mod = importlib.import_module(f"harness.{pid.lower()}")
    ctx = Ctx(pid, a.tier, a.seed)
    if a.replay:
        data = json.loads(Path(a.replay).read_text())
        data = data.get("data", data)
        if isinstance(data, dict) and data.get("kind") == "method-form":
            from harness import factory_common

            return factory_common.replay(ctx, data)
        if isinstance(data, dict) and data.get("op") == "derived-input":
            from harness import derived

            return derived.replay(data)
        if isinstance(data, dict) and data.get("op") == "state-carry":
            from harness import statecarry

            return statecarry.replay(data)
        return mod.replay(ctx, data)
    try:
        ctx.ensure_static()
        mod.run(ctx)
        # method forms (t.op(...)) of the operations this property speaks about: wiring theorem + differential battery
        from harness import factory_common

        factory_common.run(ctx)
        # the models are FUNCTIONS of the arguments: screen the source for state that outlives a call (T-stateless), then
        # run the sequences of public calls (the property holds for a call whatever was called before it in the process)
        from harness import statecarry

        stateless_screen(ctx, pid)
        statecarry.run_for(ctx, pid)
        # derived inputs: the operations of this property on ==-equal triangles as other public operations hand them out
        from harness import derived

        # a fixed battery (seed 1; 7 triangles quick / 9 thorough), validated on the unchanged tree: the variants, not the
        # triangles, are what this layer varies
        derived.metamorphic(ctx, pid, derived.sample_triangles(1, 6 if ctx.quick else 8))
    except Exception as ex:  # machinery failure is reported, never silently passed
        import traceback

        tb = traceback.format_exc()
        ctx.log(tb)
        ctx.violation("obligation", f"check machinery raised {type(ex).__name__}: {ex}",
                      {"traceback": tb}, found_input=False)
    return ctx.finish()


if __name__ == "__main__":
    sys.exit(main())
