"""C11 -- selection operators (clip, filter, select, right_edge, slices, split, indexing, extract).

translate (T-pred, select part) -> GenPred.v; theorems (coq/Props/C11.v static, coq/GenProps/C11_Gen.v
against the generated description); correspondence real operation vs model inside coqc on generated
triangles with bounds taken from the triangle's own dates / lags, their +-1 day / +-1 month neighbours
and out-of-range values, every subset of fields / detail keys, all index forms; executable
specifications evaluated on the implementation's outputs; direct Python oracles on every case."""
from __future__ import annotations

import datetime
import itertools
import random
import shutil
import time
import warnings

import numpy as np

from harness import coqterm as ct
from harness import join_common as jc
from harness.common import COQ, REPO
from harness.gen import Gen, describe

D = datetime.date
ONE = datetime.timedelta(days=1)
IMPORTS = ("From Bermuda Require Import Model.Order Lib.Calendar Model.Select.\n"
           "From Gen Require Import GenPred.\n")
FALLBACK = ("From Bermuda Require Import Model.Base Model.Select.\n"
            "Definition gen_clip : clip_spec := expected_clip_spec.\n"
            "Definition gen_getitem : getitem_desc := expected_getitem.\n"
            "Definition gen_getitem_slice : getitem_desc := expected_getitem.\n")


# =============================================================================== generation
FEBS = [(2100, "not leap (div. by 100)"), (1900, "not leap"), (2096, "leap"), (2000, "leap (div. by 400)"),
        (2200, "not leap, far future")]


def february_triangle(rng, k):
    """monthly cells around a February that a `year % 4` leap rule gets wrong (1900, 2100) or right
    (2000, 2096): periods and evaluation dates are month ends incl. Feb 28/29; plus day-level cells on
    Feb 28 of the leap years"""
    b = jc.bermuda()
    year = FEBS[(k // 12) % len(FEBS)][0]
    m = b.Metadata(country="US", details={"coverage": "BI", "state": "NY"})
    cells = []
    start = D(year - 1, 11, 1)
    for p in range(5):                                   # Nov .. Mar
        ps = month_start(start, p)
        pe = jc.add_months_end(ps, 0)
        for lag in rng.sample(range(0, 7), 3):
            ev = jc.add_months_end(pe, lag)
            cells.append(b.CumulativeCell(period_start=ps, period_end=pe, evaluation_date=ev,
                                          values={"paid_loss": 100 * p + lag}, metadata=m))
    rng.shuffle(cells)
    return jc.mk_triangle(cells), {"layout": f"february-{year}", "basis": "cum", "n_slices": 1, "values": "int",
                                   "slice_diff": "-", "fields": ["paid_loss"]}


def special_triangles(rng):
    """small directed triangles that run on every quick run (notes/HARDENING.md):
    B  metadata None vs "" vs missing, limit 0 vs None, slices differing only in loss_details
    D  cells built from datetime.datetime / pandas.Timestamp / a datetime subclass with a time of day
    E  falsy field values (0, 0.0, None, all-None field) and falsy detail values (0 == False, "", None)
    F  the empty triangle, one cell, a field missing in the first cell / present only later
    G  NumPy corner types (big int64, float64, float32/int32/strided/size-1 arrays; bool and 0-d: python only)"""
    import pandas as pd

    b = jc.bermuda()
    out = []
    P = [(D(2021, 1, 1), D(2021, 3, 31)), (D(2021, 4, 1), D(2021, 6, 30))]
    E = [D(2021, 3, 31), D(2021, 6, 30), D(2021, 9, 30)]

    def cells_for(metas, valf):
        cs = []
        for mi, m in enumerate(metas):
            for pi, (s0, e0) in enumerate(P):
                for ei, ev in enumerate(E[pi:]):
                    cs.append(b.CumulativeCell(period_start=s0, period_end=e0, evaluation_date=ev,
                                               values=valf(mi, pi, ei), metadata=m))
        rng.shuffle(cs)
        return cs

    # E: falsy detail values; 0 == False is ONE slice, "" / None / missing are different slices
    metas = [b.Metadata(details={"a": 0}), b.Metadata(details={"a": False}), b.Metadata(details={"a": 1}),
             b.Metadata(details={"s": ""}), b.Metadata(details={"s": "x"}), b.Metadata(details={"k": None}), b.Metadata()]
    out.append((cells_for(metas[:4], lambda mi, pi, ei: {"paid": 0 if ei == 0 else mi, "rep": 0.0, "x": None}),
                "falsy-details-a"))
    out.append((cells_for(metas[3:], lambda mi, pi, ei: ({"x": None} if ei == 0 else {"x": None, "late": 0, "paid": 5.0})),
                "falsy-details-b/field-only-later"))
    # B: None vs "" vs missing; limit 0 vs None; only loss_details differ
    metas = [b.Metadata(country=None), b.Metadata(country=""), b.Metadata(country="", per_occurrence_limit=0),
             b.Metadata(country="", per_occurrence_limit=0.0, loss_details={"cov": "x"}),
             b.Metadata(country="", per_occurrence_limit=0, loss_details={"cov": "y"}), b.Metadata(risk_basis=None)]
    out.append((cells_for(metas, lambda mi, pi, ei: {"paid": 10 * mi + ei}), "none-vs-empty-vs-zero-metadata"))
    # round 8: a field holding floats next to integers beyond 2**53 (exact only as Python ints): extract / select / filter
    # must hand them back unrounded
    bigs = [2 ** 53 + 1, 1.5, -(2 ** 62) - 1, 7, 2 ** 63 - 1, 0.25]
    out.append((cells_for([b.Metadata(), b.Metadata(country="US")], lambda mi, pi, ei: {"paid": bigs[(3 * mi + 2 * pi + ei) % 6], "n": bigs[(2 * ei) % 6]}),
                "floats-next-to-integers-beyond-2**53"))
    # F: empty, one cell
    out.append(([], "empty"))
    out.append((cells_for([b.Metadata()], lambda mi, pi, ei: {"paid": 1})[:1], "one-cell"))
    # M: sibling slices whose ONLY difference is a pair of values with colliding CPython hashes
    metas = [b.Metadata(details={"v": -1}), b.Metadata(details={"v": -2}), b.Metadata(loss_details={"w": -1.0}),
             b.Metadata(loss_details={"w": -2.0}), b.Metadata(per_occurrence_limit=0), b.Metadata(per_occurrence_limit=2 ** 61 - 1)]
    out.append((cells_for(metas, lambda mi, pi, ei: {"paid": 10 * mi + ei}), "hash-colliding-sibling-slices"))
    # anniversaries: period_end and evaluation_date on the same day number of the same month in other years,
    # esp. 28/29 February across leap / non-leap years (the month lag is NOT a whole number there)
    cs = []
    for (pe, evs) in [(D(2019, 2, 28), [D(2020, 2, 28), D(2021, 2, 28), D(2020, 2, 29)]),
                      (D(2020, 2, 28), [D(2021, 2, 28), D(2024, 2, 28), D(2020, 2, 28)]),
                      (D(2020, 2, 29), [D(2024, 2, 29), D(2021, 2, 28)]),
                      (D(2019, 6, 15), [D(2020, 6, 15), D(2021, 6, 15)]),
                      (D(2019, 4, 30), [D(2020, 4, 30), D(2020, 5, 30)]),
                      (D(2100, 2, 28), [D(2104, 2, 28), D(2101, 2, 28)])]:
        for ei, ev in enumerate(evs):
            cs.append(b.CumulativeCell(period_start=D(pe.year, pe.month, 1), period_end=pe, evaluation_date=ev,
                                       values={"paid": ei}, metadata=b.Metadata(country="US")))
    rng.shuffle(cs)
    out.append((cs, "anniversaries"))
    # D: datetime-like constructor arguments with a time of day; results must hold plain dates

    class MyDT(datetime.datetime):
        pass

    cs = []
    for pi, (s0, e0) in enumerate(P):
        for ei, ev in enumerate(E[pi:]):
            mk = [lambda d: datetime.datetime(d.year, d.month, d.day, 13, 5), lambda d: pd.Timestamp(d.year, d.month, d.day, 23, 59),
                  lambda d: MyDT(d.year, d.month, d.day, 0, 0, 1)][(pi + ei) % 3]
            cs.append((b.CumulativeCell if ei % 2 else b.Cell)(period_start=mk(s0), period_end=mk(e0), evaluation_date=mk(ev),
                                                               values={"paid": ei}, metadata=b.Metadata(country="US"))
                      if False else b.CumulativeCell(period_start=mk(s0), period_end=mk(e0), evaluation_date=mk(ev),
                                                     values={"paid": ei}, metadata=b.Metadata(country="US")))
    out.append((cs, "built-from-datetimes"))
    # G: NumPy corner types
    a6 = np.arange(6, dtype=np.int64)
    out.append((cells_for([b.Metadata()], lambda mi, pi, ei: {
        "big": np.int64(2 ** 53 + 1 + ei), "f64": np.float64(0.5 + ei), "a32": np.array([1.5, 2.5 + ei], dtype=np.float32),
        "i32": np.array([1, 2 + ei], dtype=np.int32), "s1": np.array([5 + ei]), "strided": a6[::2] + ei}), "numpy-types-a"))
    out.append((cells_for([b.Metadata()], lambda mi, pi, ei: {
        "flag": bool(ei % 2), "z0": np.array(5 + ei), "i16": np.array([1, ei], dtype=np.int16),
        "bools": np.array([True, False])}), "numpy-types-b(python-only)"))
    res = []
    for cs, name in out:
        res.append((jc.mk_triangle(cs), {"layout": "special:" + name, "basis": "cum", "n_slices": "-", "values": "-",
                                         "slice_diff": "-", "fields": [], "n_cells": len(cs)}))
    return res


def gen_triangle(g: Gen, rng: random.Random, k: int):
    if k % 12 == 7:
        t, info = february_triangle(rng, k)
        info["n_cells"] = len(t)
        return t, info
    layouts = ["regular", "ragged", "holey", "irregular", "single_period", "single_lag", "daily"]
    layout = layouts[k % len(layouts)]
    basis = "inc" if k % 3 == 2 else "cum"
    n_slices = [1, 2, 3, 2][k % 4]
    values = ["int", "float", "int", "arr_int", "mixed", "arr_float"][k % 6]
    cells, info = g.cells(layout=layout, basis=basis, n_slices=n_slices, values=values,
                          n_periods=rng.randint(1, 4), n_lags=rng.randint(1, 4),
                          same_fields=(k % 5 != 0), cls=None)
    # never more than ~24 cells (coqc parses ~6 ms per cell literal)
    if len(cells) > 24:
        cells = rng.sample(cells, 24) if basis != "inc" else cells[:24]
    b = jc.bermuda()
    extra = []
    if cells and k % 5 in (1, 3):      # nested / overlapping periods inside one slice
        extra += nested_rows(rng, cells, layout == "daily")
        info["nested"] = True
    if cells and k % 2 == 0:           # cells evaluated BEFORE their period end (negative development lag)
        early = early_cells(rng, cells + extra, layout == "daily")
        extra += early
        info["early"] = len(early)
    if k % 4 == 1 and cells:       # duplicate coordinates (same slice, period, evaluation date)
        for c in rng.sample(cells, min(2, len(cells))):
            vals = {f: (v + 1 if isinstance(v, (int, float)) else v) for f, v in c.values.items()}
            extra.append(jc.with_values(c, vals))
        info["dups"] = len(extra)
    if k % 4 in (2, 3) and cells:  # the same metadata written differently among the cells of ONE slice:
        # >= 2 detail keys filled in another order, 7 vs 7.0, True vs 1, int vs float limit
        cache = {}
        for i, c in enumerate(cells):
            m2 = cache.setdefault(id(c.metadata), jc.at_least_two_details(c.metadata))
            if m2 is not c.metadata:
                cells[i] = jc.with_meta(c, m2)
        for i in rng.sample(range(len(cells)), max(1, len(cells) // 3)):
            cells[i] = jc.with_meta(cells[i], jc.alias_meta(cells[i].metadata, rng))
        extra = [jc.with_meta(c, cache.get(id(c.metadata), jc.at_least_two_details(c.metadata))) for c in extra]
        info["alias"] = True
    if k % 6 == 5 and cells:       # a second slice that differs only in WHERE a key lives
        m0 = cells[0].metadata
        mv, base = jc.moved_meta(m0)
        same = [i for i, c in enumerate(cells) if c.metadata is m0]
        if base is not m0:
            for i in same:
                cells[i] = jc.with_meta(cells[i], base)
        for i in same[:6]:
            extra.append(jc.with_meta(cells[i], mv))
        info["moved"] = True
    cells = cells + extra
    rng.shuffle(cells)
    t = jc.mk_triangle(cells)
    info["n_cells"] = len(t)
    del b
    return t, info


def cell_like(c, ps, pe, ev, bump=0):
    """a cell of c's class / metadata / fields at other coordinates (None if the dates are not valid)"""
    b = jc.bermuda()
    if pe < ps or ev < ps:
        return None
    vals = {f: (v + bump if isinstance(v, (int, float)) else v) for f, v in c.values.items()}
    kw = dict(period_start=ps, period_end=pe, evaluation_date=ev, values=vals, metadata=c.metadata)
    if type(c).__name__ == "IncrementalCell":
        return b.IncrementalCell(prev_evaluation_date=ps - ONE, **kw)
    return type(c)(**kw)


def month_start(d, k=0):
    i = jc.month_id(d) + k
    return D(i // 12, i % 12 + 1, 1)


def nested_rows(rng, cells, daily):
    """rows whose period BEGINS on the same date as an existing period but ends later (annual around a
    quarter), and rows that END on the same date but begin earlier -- same slice (same metadata)"""
    out = []
    base = rng.choice(cells)
    ps, pe = base.period_start, base.period_end
    if daily:
        pe2, ps3 = pe + datetime.timedelta(days=5), ps - datetime.timedelta(days=3)
        evs2 = [pe2 - datetime.timedelta(days=2), pe2, pe2 + datetime.timedelta(days=7)]
        evs3 = [pe, pe + datetime.timedelta(days=7)]
    else:
        pe2 = jc.add_months_end(pe, rng.choice([3, 6, 9]))
        ps3 = month_start(ps, -rng.choice([1, 3]))
        evs2 = [jc.add_months_end(pe2, -2), pe2, jc.add_months_end(pe2, rng.choice([3, 12]))]
        evs3 = [pe, jc.add_months_end(pe, 3)]
    for ev in evs2[: rng.randint(1, 3)]:
        out.append(cell_like(base, ps, pe2, ev, 7))
    for ev in evs3[: rng.randint(1, 2)]:
        out.append(cell_like(base, ps3, pe, ev, 11))
    return [c for c in out if c is not None]


def early_cells(rng, cells, daily):
    """evaluation_date before period_end (valid: only evaluation_date >= period_start is required)"""
    out = []
    seen = set()
    for c in rng.sample(cells, min(3, len(cells))):
        if (id(c.metadata), c.period) in seen:
            continue
        seen.add((id(c.metadata), c.period))
        ps, pe = c.period_start, c.period_end
        if daily:
            cand = [ps, pe - ONE] if pe > ps else []
        else:
            cand = [d for d in (jc.add_months_end(ps, 0), jc.add_months_end(pe, -1)) if ps <= d < pe]
        for ev in dict.fromkeys(cand):
            x = cell_like(c, ps, pe, ev, 3)
            if x is not None:
                out.append(x)
    return out[:4]


def shift_month(d, k):
    if jc.is_month_end(d):
        return jc.add_months_end(d, k)
    i = jc.month_id(d) + k
    y, m = i // 12, i % 12 + 1
    last = (D(y + (m == 12), m % 12 + 1, 1) - ONE).day
    return D(y, m, min(d.day, last))


def neighbours(dates):
    out = set()
    for d in dates:
        out |= {d, d - ONE, d + ONE, shift_month(d, -1), shift_month(d, 1)}
    return sorted(out)


def pick_some(rng, xs, n, always=()):
    xs = list(dict.fromkeys(xs))
    keep = [x for x in always if x in xs]
    rest = [x for x in xs if x not in keep]
    rng.shuffle(rest)
    return keep + rest[:max(0, n - len(keep))]


def iso(d):
    return None if d is None else d.isoformat()


def ops_for(t, rng, quick=True):
    """JSON-able operation descriptors for one triangle."""
    ops = []
    cells = t.cells
    nb = 5 if quick else 12
    evs = sorted({c.evaluation_date for c in cells})
    pss = sorted({c.period_start for c in cells})
    pes = sorted({c.period_end for c in cells})
    far = [D(1971, 3, 15), D(2099, 10, 31)]
    aligned = jc.month_aligned(t) and bool(cells)
    # ---- clip: single bounds
    for key, own in (("min_eval", evs), ("max_eval", evs), ("min_period", pss), ("max_period", pes)):
        cand = neighbours(own) + far
        for d in pick_some(rng, cand, nb + 2, always=own[:1] + own[-1:] + far[:1]):
            ops.append({"kind": "clip", "kw": {key: iso(d)}})
    dlags = sorted({(c.evaluation_date - c.period_end).days for c in cells})
    for key in ("min_dev", "max_dev"):
        cand = sorted({x + e for x in dlags for e in (-1, 0, 1)} | {-5000, 0, 50000})
        for x in pick_some(rng, cand, nb, always=dlags[:1] + dlags[-1:] + [0]):
            ops.append({"kind": "clip", "kw": {key: x, "dev_lag_unit": rng.choice(["day", "days", "Day"])}})
    # the literal bound zero, every unit and spelling (0 is falsy: `if min_dev:` would skip it)
    for key in ("min_dev", "max_dev"):
        ops.append({"kind": "clip", "kw": {key: 0, "dev_lag_unit": "day"}})
        ops.append({"kind": "clip", "kw": {key: {"td": 0}, "dev_lag_unit": "timedelta"}})
        for x in pick_some(rng, [x + e for x in dlags for e in (-1, 0, 1)], 2):
            ops.append({"kind": "clip", "kw": {key: {"td": x}, "dev_lag_unit": "timedelta"}})
        if aligned:
            ops.append({"kind": "clip", "kw": {key: 0}})
            ops.append({"kind": "clip", "kw": {key: 0.0, "dev_lag_unit": "month"}})
    ops.append({"kind": "clip", "kw": {"min_dev": 0, "max_dev": 0, "dev_lag_unit": "day"}})
    if cells and not aligned:
        # month unit on cells evaluated off a month end (python oracle only): bounds exactly at the cells' own
        # fractional lags are inclusive, the next float beyond excludes
        import math

        fl = sorted({month_lag_any(c) for c in cells})
        # whole numbers at and next to the fractional lags (an "anniversary" is not a whole number of months
        # when the two months have different lengths)
        whole = sorted({w + e for x in fl for w in (math.floor(x), math.ceil(x), round(x)) for e in (-0.01, 0, 0.01)
                        if abs(w - x) < 0.2})
        for x in pick_some(rng, whole, 9):
            for key in ("min_dev", "max_dev"):
                ops.append({"kind": "clip", "kw": {key: (int(x) if float(x).is_integer() and rng.random() < 0.5 else x),
                                                   "dev_lag_unit": "month"}})
        for x in pick_some(rng, fl, 4, always=fl[:1] + fl[-1:]):
            for key, beyond in (("min_dev", math.inf), ("max_dev", -math.inf)):
                ops.append({"kind": "clip", "kw": {key: x, "dev_lag_unit": "month"}})
                ops.append({"kind": "clip", "kw": {key: math.nextafter(float(x), beyond)}})
    if aligned:
        mlags = sorted({jc.month_id(c.evaluation_date) - jc.month_id(c.period_end) for c in cells})
        for key in ("min_dev", "max_dev"):
            cand = sorted({x + e for x in mlags for e in (-1, -0.5, 0, 0.5, 1)} | {-300, 0, 0.0, 1500})
            for x in pick_some(rng, cand, nb + 1, always=mlags[:1] + mlags[-1:] + [0]):
                if rng.random() < 0.4 and float(x) == int(x):
                    x = float(x)
                kw = {key: x}
                if rng.random() < 0.6:
                    kw["dev_lag_unit"] = rng.choice(["month", "months", "Month"])
                ops.append({"kind": "clip", "kw": kw})
    # ---- clip: conjunctions
    for _ in range(6 if quick else 20):
        kw = {}
        for key, own in (("min_eval", evs), ("max_eval", evs), ("min_period", pss), ("max_period", pes)):
            if rng.random() < 0.5 and own:
                kw[key] = iso(rng.choice(neighbours([rng.choice(own)])))
        if rng.random() < 0.6 and dlags:
            if aligned and rng.random() < 0.5:
                k0 = rng.choice(mlags)
                if rng.random() < 0.7:
                    kw["min_dev"] = k0 + rng.choice([-1, 0, 0.5])
                if rng.random() < 0.7:
                    kw["max_dev"] = k0 + rng.choice([0, 1, 2.5, 12])
            else:
                k0 = rng.choice(dlags)
                kw["dev_lag_unit"] = "day"
                if rng.random() < 0.7:
                    kw["min_dev"] = k0 + rng.choice([-1, 0, 1])
                if rng.random() < 0.7:
                    kw["max_dev"] = k0 + rng.choice([0, 1, 400])
        if kw and set(kw) != {"dev_lag_unit"}:
            ops.append({"kind": "clip", "kw": kw})
    # ---- complementary clips
    for d in pick_some(rng, neighbours(evs), 4, always=evs[:1] + evs[-1:]):
        ops.append({"kind": "clip_pair", "attr": "eval", "d": iso(d)})
    for x in pick_some(rng, dlags + [-1, 0], 4, always=[-1, 0] + dlags[:1]):   # -1: max_dev=-1 / min_dev=0
        ops.append({"kind": "clip_pair", "attr": "dev", "k": x, "unit": "day"})
    if aligned:
        for x in pick_some(rng, mlags + [-1, 0], 4, always=[-1, 0] + mlags[-1:]):
            ops.append({"kind": "clip_pair", "attr": "dev", "k": x, "unit": "month"})
    # ---- filter and complementary filters
    fields = sorted({k for c in cells for k in c.values})
    preds = []
    for d in pick_some(rng, neighbours(evs), 2, always=evs[:1]):
        preds.append(["ev_le", iso(d)])
    for d in pick_some(rng, neighbours(pss), 2, always=pss[-1:]):
        preds.append(["ps_ge", iso(d)])
    for f in pick_some(rng, fields + ["no_such_field"], 2):
        preds.append(["has", f])
    if dlags:
        preds.append(["lagd_gt", rng.choice(dlags)])
    if len(preds) >= 2:
        preds.append(["and", preds[0], ["not", preds[-1]]])
    for p in preds:
        ops.append({"kind": "filter", "pred": p})
        ops.append({"kind": "filter_pair", "pred": p})
    # ---- slices / split
    ops.append({"kind": "slices"})
    dkeys = sorted({k for c in cells for k in c.metadata.details})[:3] + ["absent_key"]
    subsets = [list(s) for r in range(len(dkeys) + 1) for s in itertools.combinations(dkeys, r)]
    for s in subsets:
        ops.append({"kind": "split", "keys": s})
    if len(dkeys) >= 2:
        ops.append({"kind": "split", "keys": list(reversed(dkeys))})
        ops.append({"kind": "split", "keys": [dkeys[0], dkeys[0]]})
    # ---- indexing
    n = len(cells)
    for i in sorted({0, -1, n - 1, n, -n, -n - 1, rng.randint(-n - 2, n + 2)}):
        ops.append({"kind": "getitem", "index": ["int", i]})
    for _ in range(6):
        a = rng.choice([None, None, rng.randint(-n - 2, n + 2)])
        b = rng.choice([None, None, rng.randint(-n - 2, n + 2)])
        s = rng.choice([None, None, 1, 2, 3])
        ops.append({"kind": "getitem", "index": ["range", a, b, s]})
    for a, b, st in [(None, None, -1), (None, None, -2), (n - 1, 0, -1), (-1, -n - 1, -3)]:
        ops.append({"kind": "getitem", "index": ["range", a, b, st]})
    for _ in range(4):
        a = rng.choice([None, rng.randint(-n - 2, n + 2)])
        b = rng.choice([None, rng.randint(-n - 2, n + 2)])
        ops.append({"kind": "getitem", "index": ["range", a, b, -rng.choice([1, 1, 2, 3])]})
    metas = []
    for c in cells:
        if not any(m is c.metadata for m in metas):
            metas.append(c.metadata)
    mjs = [jc.meta_to_json(m) for m in pick_some(rng, metas, 2)]
    foreign = jc.meta_to_json(jc.bermuda().Metadata(country="ZZ", details={"nowhere": 1}))

    def pform(own):
        r = rng.random()
        cand = neighbours(own) + far if own else far
        if r < 0.35:
            return ["date", iso(rng.choice(own if own and rng.random() < 0.8 else cand))]
        lo = rng.choice([None, rng.choice(cand)])
        hi = rng.choice([None, rng.choice(cand)])
        return ["slice", iso(lo), iso(hi)]

    def mform():
        r = rng.random()
        if r < 0.3:
            return ["all"]
        if r < 0.45:
            return ["none"]
        if r < 0.9 and mjs:
            return ["meta", rng.choice(mjs)]
        return ["meta", foreign]

    for _ in range(14 if quick else 40):
        ops.append({"kind": "getitem", "index": ["triple", pform(pss), pform(evs), mform()]})
    if cells:  # exact coordinates of existing cells: a Cell comes back
        for c in rng.sample(cells, min(3, n)):
            ops.append({"kind": "getitem", "index": ["triple", ["date", iso(c.period_start)],
                                                     ["date", iso(c.evaluation_date)],
                                                     rng.choice([["meta", jc.meta_to_json(c.metadata)], ["none"]])]})
            ops.append({"kind": "getitem", "index": ["triple", ["date", iso(c.period_start)],
                                                     ["date", iso(c.evaluation_date)], ["all"]]})
    ops.append({"kind": "getitem", "index": ["triple", ["slice", None, None], ["slice", None, None], ["all"]]})
    ops.append({"kind": "getitem", "index": ["arity", 2]})
    ops.append({"kind": "getitem", "index": ["arity", 4]})
    ops.append({"kind": "getitem", "index": ["triple", ["bad", "int"], ["slice", None, None], ["all"]]})
    ops.append({"kind": "getitem", "index": ["triple", ["slice", None, None], ["bad", "str"], ["none"]]})
    # ---- TriangleSlice.__getitem__ on the first slice: (period, evaluation), ints, ranges, malformed
    if cells:
        sl = [c for c in cells if meta_key(c.metadata) == meta_key(cells[0].metadata)]
        spss, sevs = sorted({c.period_start for c in sl}), sorted({c.evaluation_date for c in sl})
        for _ in range(8 if quick else 24):
            ops.append({"kind": "getitem2", "index": ["pair", pform(spss), pform(sevs)]})
        for c in rng.sample(sl, min(2, len(sl))):
            ops.append({"kind": "getitem2", "index": ["pair", ["date", iso(c.period_start)], ["date", iso(c.evaluation_date)]]})
        ops.append({"kind": "getitem2", "index": ["pair", ["slice", None, None], ["slice", None, None]]})
        ops.append({"kind": "getitem2", "index": ["pair", ["bad", "int"], ["slice", None, None]]})
        ops.append({"kind": "getitem2", "index": ["arity", 3]})
        ops.append({"kind": "getitem2", "index": ["arity", 1]})
        ops.append({"kind": "getitem2", "index": ["int", rng.randint(-len(sl) - 1, len(sl))]})
        ops.append({"kind": "getitem2", "index": ["range", rng.choice([None, 1]), rng.choice([None, -1]), rng.choice([None, 2])]})
    # ---- right edge
    ops.append({"kind": "right_edge"})
    # ---- select: every subset of the fields (small), a missing key, repeated / reordered keys
    fs = fields[:4]
    sel = [list(s) for r in range(len(fs) + 1) for s in itertools.combinations(fs, r)]
    if not quick or n <= 8:
        chosen = sel
    else:
        chosen = pick_some(rng, [tuple(s) for s in sel], 4, always=[(), tuple(fs)])
        chosen = [list(s) for s in chosen]
    for s in chosen:
        ops.append({"kind": "select", "keys": s})
    ops.append({"kind": "select", "keys": list(reversed(fs)) + ["no_such_field"] + fs[:1]})
    # ---- extract
    for f in pick_some(rng, fields + ["no_such_field"], 3, always=["no_such_field"]):
        ops.append({"kind": "extract", "field": f})
    ops.append({"kind": "extract_fn", "fn": rng.choice(["ev", "ps", "pe"])})
    return ops


# =============================================================================== running the real code
def d_(s):
    return None if s is None else D.fromisoformat(s)


def clip_kw(kw):
    """JSON form -> real keyword arguments ({"td": n} is datetime.timedelta(days=n))"""
    out = {}
    for k, v in kw.items():
        if k in ("min_eval", "max_eval", "min_period", "max_period"):
            v = d_(v)
        elif isinstance(v, dict) and "td" in v:
            v = datetime.timedelta(days=v["td"])
        out[k] = v
    return out


def clip_kw_model(kw):
    """arguments for the Coq model: a timedelta bound of n days in unit 'timedelta' is the bound n in
    unit 'day' (evaluation_date - period_end compared as timedelta = compared as a number of days)"""
    out = clip_kw(kw)
    if out.get("dev_lag_unit") == "timedelta":
        out["dev_lag_unit"] = "day"
        for k in ("min_dev", "max_dev"):
            if isinstance(out.get(k), datetime.timedelta):
                out[k] = out[k].days
    return out


def py_pred(p):
    k = p[0]
    if k == "ev_le":
        d = d_(p[1])
        return lambda c: c.evaluation_date <= d
    if k == "ps_ge":
        d = d_(p[1])
        return lambda c: c.period_start >= d
    if k == "has":
        return lambda c: p[1] in c.values
    if k == "lagd_gt":
        return lambda c: (c.evaluation_date - c.period_end).days > p[1]
    if k == "not":
        q = py_pred(p[1])
        return lambda c: not q(c)
    if k == "and":
        q, r = py_pred(p[1]), py_pred(p[2])
        return lambda c: q(c) and r(c)
    raise ValueError(p)


def coq_pred(p):
    k = p[0]
    if k == "ev_le":
        return f"(fun c => ev c <=? {d_(p[1]).toordinal()})"
    if k == "ps_ge":
        return f"(fun c => {d_(p[1]).toordinal()} <=? ps c)"
    if k == "has":
        return f"(fun c => has_key {ct.cstr(p[1])} (cvals c))"
    if k == "lagd_gt":
        return f"(fun c => {jc.cz(p[1])} <? ev c - pe c)"
    if k == "not":
        return f"(fun c => negb ({coq_pred(p[1])} c))"
    if k == "and":
        return f"(fun c => {coq_pred(p[1])} c && {coq_pred(p[2])} c)"
    raise ValueError(p)


def py_index(ix):
    k = ix[0]
    if k == "int":
        return ix[1]
    if k == "range":
        return slice(ix[1], ix[2], ix[3])
    if k == "arity":
        return tuple([slice(None)] * ix[1])

    def pe(f):
        if f[0] == "date":
            return d_(f[1])
        if f[0] == "slice":
            return slice(d_(f[1]), d_(f[2]))
        return 7 if f[1] == "int" else "2020-01-31"

    m = ix[3]
    mm = slice(None) if m[0] == "all" else None if m[0] == "none" else jc.meta_from_json(m[1])
    return (pe(ix[1]), pe(ix[2]), mm)


def coq_index(ix):
    k = ix[0]
    if k == "int":
        return f"(IInt {jc.cz(ix[1])})"
    if k == "range":
        st = "None" if ix[3] is None else f"(Some {ix[3]}%positive)"
        return f"(IRange {jc.copt(ix[1], jc.cz)} {jc.copt(ix[2], jc.cz)} {st})"
    if k == "arity":
        return "IBadArity"

    def pe(f):
        if f[0] == "date":
            return f"(PDate {d_(f[1]).toordinal()})"
        if f[0] == "slice":
            return f"(PSlice {jc.cdate_opt(d_(f[1]))} {jc.cdate_opt(d_(f[2]))})"
        return "PBad"

    m = ix[3]
    mm = "MAll" if m[0] == "all" else "MNoneIdx" if m[0] == "none" else f"(MMeta {ct.cmeta(jc.meta_from_json(m[1]))})"
    return f"(ITriple {pe(ix[1])} {pe(ix[2])} {mm})"


def first_slice(t):
    cells = t.cells
    return [c for c in cells if meta_key(c.metadata) == meta_key(cells[0].metadata)]


def run_op(t, op):
    """the REAL operation; returns the python result (exceptions propagate)"""
    k = op["kind"]
    if k == "clip":
        return t.clip(**clip_kw(op["kw"]))
    if k == "clip_pair":
        if op["attr"] == "eval":
            d = d_(op["d"])
            return t.clip(max_eval=d), t.clip(min_eval=d + ONE)
        return (t.clip(max_dev=op["k"], dev_lag_unit=op["unit"]),
                t.clip(min_dev=op["k"] + 1, dev_lag_unit=op["unit"]))
    if k == "filter":
        return t.filter(py_pred(op["pred"]))
    if k == "filter_pair":
        p = py_pred(op["pred"])
        return t.filter(p), t.filter(lambda c: not p(c))
    if k == "slices":
        return t.slices
    if k == "split":
        return t.split(op["keys"])
    if k == "getitem":
        return t[py_index(op["index"])]
    if k == "getitem2":
        from bermuda.triangle import TriangleSlice

        ts = TriangleSlice(first_slice(t))
        ix = op["index"]
        if ix[0] == "pair":
            return ts[py_index(["triple", ix[1], ix[2], ["none"]])[:2]]
        return ts[py_index(ix)]
    if k == "right_edge":
        return t.right_edge
    if k == "select":
        return t.select(op["keys"])
    if k == "extract":
        return t.extract(op["field"])
    if k == "extract_fn":
        a = {"ev": "evaluation_date", "ps": "period_start", "pe": "period_end"}[op["fn"]]
        return t.extract(lambda c: getattr(c, a).toordinal())
    raise ValueError(k)


# =============================================================================== direct oracles
def subseq(out, inp):
    """out is a subsequence of inp, cells compared strictly"""
    it = iter(jc.canon_seq(inp))
    return all(any(o == c for c in it) for o in jc.canon_seq(out))


def month_lag(c):
    return jc.month_id(c.evaluation_date) - jc.month_id(c.period_end)


def month_lag_fraction(c):
    """the documented fractional month lag (months between, each date counted as day / days-in-month),
    written independently with calendar.monthrange; used for cells that are not month-aligned"""
    import calendar

    a, b_ = c.period_end, c.evaluation_date
    fa = a.day / calendar.monthrange(a.year, a.month)[1]
    fb = b_.day / calendar.monthrange(b_.year, b_.month)[1]
    return 12 * (b_.year - a.year) + (b_.month - a.month) - fa + fb


def month_lag_any(c):
    if jc.is_month_end(c.period_end) and jc.is_month_end(c.evaluation_date):
        return month_lag(c)
    return month_lag_fraction(c)


def want_clip(t, kw):
    kw = clip_kw(kw)
    unit = kw.get("dev_lag_unit", "month").lower()

    def lag(c):
        if unit == "timedelta":
            return c.evaluation_date - c.period_end
        return (c.evaluation_date - c.period_end).days if "day" in unit else month_lag_any(c)

    out = []
    for c in t.cells:
        ok = True
        if kw.get("min_eval") is not None:
            ok &= kw["min_eval"] <= c.evaluation_date
        if kw.get("max_eval") is not None:
            ok &= c.evaluation_date <= kw["max_eval"]
        if kw.get("min_period") is not None:
            ok &= kw["min_period"] <= c.period_start
        if kw.get("max_period") is not None:
            ok &= c.period_end <= kw["max_period"]
        if kw.get("min_dev") is not None:
            ok &= kw["min_dev"] <= lag(c)
        if kw.get("max_dev") is not None:
            ok &= lag(c) <= kw["max_dev"]
        if ok:
            out.append(c)
    return out


def same_cells(a, b):
    return jc.canon_seq(a) == jc.canon_seq(b)


def check_partition(t, a, b, p, probs, what):
    ca, cb, ctt = jc.canon_seq(a.cells), jc.canon_seq(b.cells), jc.canon_seq(t.cells)
    if sorted(map(repr, ca + cb)) != sorted(map(repr, ctt)):
        probs.append(f"{what}: the two parts are not a partition of the triangle "
                     f"({len(ca)} + {len(cb)} cells of {len(ctt)})")
    if not subseq(a.cells, t.cells) or not subseq(b.cells, t.cells):
        probs.append(f"{what}: a part is not in the triangle's order")
    if not all(p(c) for c in a.cells) or any(p(c) for c in b.cells):
        probs.append(f"{what}: a cell is on the wrong side")


def norm_mval(v):
    """canonical form up to Python's ==: numbers as EXACT rationals (1 == 1.0 == True, but 2**53 != 2**53 + 1,
    which a float would merge)"""
    if isinstance(v, (bool, int, float, np.integer, np.floating)):
        import fractions
        import math

        if isinstance(v, (float, np.floating)) and not math.isfinite(v):
            return ("float", repr(float(v)))
        return ("num", fractions.Fraction(int(v) if isinstance(v, (bool, int, np.integer)) else float(v)))
    return ct.canon_mval(v)


def meta_key(m):
    """canonical form of a Metadata up to Python's == (dict order, 1 == 1.0 == True)"""
    return (m.risk_basis, m.country, m.currency, m.reinsurance_basis, m.loss_definition,
            norm_mval(m.per_occurrence_limit),
            tuple(sorted((k, norm_mval(v)) for k, v in m.details.items())),
            tuple(sorted((k, norm_mval(v)) for k, v in m.loss_details.items())))


def order_key(c):
    return (meta_key(c.metadata), c.period_start, c.period_end, c.evaluation_date,
            getattr(c, "prev_evaluation_date", None))


def oracle_getitem(cells, ix, res):
    """t[ix] for a triangle / triangle slice with these cells (in order); ix in the three-index vocabulary"""
    probs = []
    exc = res if isinstance(res, BaseException) else None
    n = len(cells)
    if ix[0] == "int":
        i = ix[1]
        if -n <= i < n:
            if exc is not None or res is not cells[i]:
                probs.append(f"t[{i}] is not the {i}-th cell")
        elif not isinstance(exc, IndexError):
            probs.append(f"t[{i}] with {n} cells did not raise IndexError")
    elif ix[0] == "range" and (ix[3] or 1) > 0:
        if exc is not None or not same_cells(res.cells, cells[slice(ix[1], ix[2], ix[3])]):
            probs.append(f"t[{ix[1]}:{ix[2]}:{ix[3]}] is not that slice of the cells")
    elif ix[0] == "range":
        # negative step: the selected cells, re-sorted by the constructor
        sel = cells[slice(ix[1], ix[2], ix[3])]
        if exc is not None or sorted(map(repr, jc.canon_seq(res.cells))) != sorted(map(repr, jc.canon_seq(sel))):
            probs.append(f"t[{ix[1]}:{ix[2]}:{ix[3]}] does not hold exactly the selected cells")
        elif len({order_key(c) for c in sel}) == len(sel) and not same_cells(res.cells, list(reversed(sel))):
            probs.append(f"t[{ix[1]}:{ix[2]}:{ix[3]}] is not in canonical order")
    elif ix[0] == "arity" or ix[1][0] == "bad" or ix[2][0] == "bad":
        if not isinstance(exc, ValueError):
            probs.append(f"malformed index {ix} did not raise ValueError")
    else:
        def rng_of(f):
            if f[0] == "date":
                return d_(f[1]), d_(f[1])
            return d_(f[1]), d_(f[2])

        (plo, phi), (elo, ehi) = rng_of(ix[1]), rng_of(ix[2])
        m = ix[3]
        mm = jc.meta_from_json(m[1]) if m[0] == "meta" else None
        want = [c for c in cells
                if (mm is None or meta_key(c.metadata) == meta_key(mm))
                and (plo is None or plo <= c.period_start) and (phi is None or c.period_start <= phi)
                and (elo is None or elo <= c.evaluation_date) and (ehi is None or c.evaluation_date <= ehi)]
        is_tri = ix[1][0] == "slice" or ix[2][0] == "slice" or m[0] == "all"
        if is_tri:
            if exc is not None or not same_cells(res.cells, want):
                probs.append(f"t[{ix[1]}, {ix[2]}, {m[0]}] is not the filter on period_start / evaluation_date / metadata")
        elif want:
            if exc is not None or res is not want[0]:
                probs.append(f"t[{ix[1]}, {ix[2]}, {m[0]}] is not the cell at these coordinates")
        elif not isinstance(exc, IndexError):
            probs.append(f"t[{ix[1]}, {ix[2]}, {m[0]}] (no such cell) did not raise IndexError")
    return probs


def _same_entry(x, w):
    """is the extracted entry x EXACTLY the value w the cell holds?  (no comparison through float64: integers beyond
    2**53 must survive; a scalar stays a scalar, an array an array of the same shape)"""
    if w is None or x is None:
        return w is None and x is None
    if isinstance(w, np.ndarray) and w.ndim > 0:
        return isinstance(x, np.ndarray) and x.shape == w.shape and (x.dtype.kind == w.dtype.kind or x.dtype == object) \
            and all(_same_entry(a, b) for a, b in zip(x.tolist(), w.tolist()))
    xi = x.item() if isinstance(x, (np.generic, np.ndarray)) and np.ndim(x) == 0 else x
    wi = w.item() if isinstance(w, (np.generic, np.ndarray)) else w
    if isinstance(xi, (list, tuple, np.ndarray)):
        return False
    if isinstance(wi, int) and not isinstance(wi, bool) and isinstance(xi, float):
        return xi == wi and int(xi) == wi          # a float entry for an int value is tolerated only when it is exact
    try:
        return bool(xi == wi)
    except Exception:  # noqa: BLE001
        return False


def oracle(t, op, res):
    """Problems (list of str) of the real result w.r.t. the property statement; [] = fine.
    `res` is the python result or the exception raised."""
    k = op["kind"]
    probs = []
    cells = t.cells
    exc = res if isinstance(res, BaseException) else None
    if k in ("clip", "clip_pair", "filter", "filter_pair", "slices", "split", "right_edge", "select",
             "extract", "extract_fn") and exc is not None:
        return [f"{k} raised {type(exc).__name__}: {exc}"]
    if k == "clip":
        want = want_clip(t, op["kw"])
        if not same_cells(res.cells, want):
            probs.append(f"clip({op['kw']}) returned {len(res.cells)} cells, the inclusive bounds select {len(want)}")
    elif k == "clip_pair":
        a, b = res
        if op["attr"] == "eval":
            d = d_(op["d"])
            check_partition(t, a, b, lambda c: c.evaluation_date <= d, probs, f"clip(max_eval={d}) / clip(min_eval={d + ONE})")
        else:
            lag = (lambda c: (c.evaluation_date - c.period_end).days) if op["unit"] == "day" else month_lag
            check_partition(t, a, b, lambda c: lag(c) <= op["k"], probs,
                            f"clip(max_dev={op['k']}) / clip(min_dev={op['k'] + 1}) [{op['unit']}]")
    elif k == "filter":
        p = py_pred(op["pred"])
        if not same_cells(res.cells, [c for c in cells if p(c)]):
            probs.append(f"filter({op['pred']}) is not the sub-sequence of satisfying cells")
    elif k == "filter_pair":
        check_partition(t, res[0], res[1], py_pred(op["pred"]), probs, f"filter({op['pred']}) / complement")
    elif k in ("slices", "split"):
        if k == "slices":
            keyf = lambda c: meta_key(c.metadata)                               # noqa: E731
            kcan = meta_key
        else:
            keyf = lambda c: tuple(norm_mval(c.metadata.details.get(x)) for x in op["keys"])   # noqa: E731
            kcan = lambda kk: tuple(norm_mval(v) for v in kk)                   # noqa: E731
        total = 0
        seen = set()
        for kk, part in res.items():
            total += len(part.cells)
            if not part.cells:
                probs.append(f"{k}: empty part")
            if repr(kcan(kk)) in seen:
                probs.append(f"{k}: two parts with the same key")
            seen.add(repr(kcan(kk)))
            if any(keyf(c) != kcan(kk) for c in part.cells):
                probs.append(f"{k}: a part holds a cell with another key")
            if not same_cells(part.cells, [c for c in cells if keyf(c) == kcan(kk)]):
                probs.append(f"{k}: a part is not exactly the cells of its key, in order")
        if total != len(cells):
            probs.append(f"{k}: parts hold {total} cells, the triangle {len(cells)}")
    elif k == "right_edge":
        rows = {}
        for c in cells:
            rows.setdefault((repr(meta_key(c.metadata)), c.period), []).append(c)
        want_ids = set()
        for row in rows.values():
            mx = max(c.evaluation_date for c in row)
            want_ids.add(id([c for c in row if c.evaluation_date == mx][-1]))
        want = [c for c in cells if id(c) in want_ids]
        if not same_cells(res.cells, want):
            probs.append(f"right_edge returned {len(res.cells)} cells; the latest cell of each of the "
                         f"{len(rows)} slice-periods are {len(want)} other cells")
    elif k == "select":
        ks = op["keys"]
        if len(res.cells) != len(cells):
            probs.append("select changed the number of cells")
        for c, o in zip(cells, res.cells):
            co, cc = ct.canon_cell(o, ordered=True), ct.canon_cell(c, ordered=True)
            if co[:6] != cc[:6]:
                probs.append("select changed class, coordinates or metadata of a cell")
                break
            if list(o.values) != [x for x in c.values if x in ks]:
                probs.append(f"select({ks}) kept fields {list(o.values)} of {list(c.values)}")
                break
            if co[6] != tuple(kv for kv in cc[6] if kv[0] in ks):
                probs.append("select changed a value")
                break
    elif k == "extract":
        f = op["field"]
        if len(res) != len(cells):
            probs.append(f"extract gave {len(res)} entries for {len(cells)} cells")
        else:
            for c, x in zip(cells, res):
                w = c.values.get(f)
                same = _same_entry(x, w)
                if not same:
                    probs.append(f"extract({f!r}): entry {x!r} for a cell holding {w!r}")
                    break
    elif k == "extract_fn":
        a = {"ev": "evaluation_date", "ps": "period_start", "pe": "period_end"}[op["fn"]]
        if [int(x) for x in res] != [getattr(c, a).toordinal() for c in cells]:
            probs.append("extract(callable) is not the map over the cells in order")
    elif k == "getitem":
        probs += oracle_getitem(cells, op["index"], res)
    elif k == "getitem2":
        ix = op["index"]
        if ix[0] == "pair":
            ix = ["triple", ix[1], ix[2], ["none"]]
        probs += oracle_getitem(first_slice(t), ix, res)
    return probs


# =============================================================================== large inputs (family Q)
LARGE_QUICK = [
    ("boundary-at-256", dict(slice_sizes=[256, 1])),
    ("boundaries-at-256-multiples", dict(slice_sizes=[256, 256, 300], alias_every=5)),
    ("3x1024", dict(slice_sizes=[1024, 1024, 1024])),
    ("century-monthly", dict(slice_sizes=[2400], n_evals=2, start=(1935, 1))),
    ("wide-rows", dict(slice_sizes=[210], n_evals=70)),
    ("many-slices", dict(slice_sizes=[1] * 2200, limit=2 ** 53)),
    ("many-other-slices", dict(slice_sizes=[1] * 2200, start=(2010, 1))),     # > 4096 distinct Metadata in this process
]
LARGE_THOROUGH = [
    ("5x1024+1", dict(slice_sizes=[1024, 512, 256, 1, 2048, 1280], alias_every=3)),
    ("two-centuries-monthly", dict(slice_sizes=[4800], n_evals=2, start=(1850, 1))),
    ("many-slices-4300", dict(slice_sizes=[1] * 4300, limit=2 ** 53)),
]


def big_array_triangle(n_small=5000, n_big=100000):
    b = jc.bermuda()
    base = np.arange(n_big, dtype=np.float64)
    m = b.Metadata(country="US", per_occurrence_limit=2 ** 53 + 1)
    cells = []
    for i in range(6):
        ps = D(2020, 1 + i % 2 * 3, 1)
        vals = {"small": (np.arange(n_small, dtype=np.int64) + i)[::-1], "big": base[::-1] + i if i % 2 else base + i,
                "strided": base[::20] * 1.0, "id": 2 ** 53 + 1 + i, "paid": float(i)}
        cells.append(b.CumulativeCell(period_start=ps, period_end=jc.add_months_end(ps, 2),
                                      evaluation_date=jc.add_months_end(ps, 2 + 3 * (i // 2)), values=vals, metadata=m))
    return jc.mk_triangle(cells)


def large_check(t, name):
    """[(operation description, problems)] for one big triangle, dictionary-based oracles"""
    out = []
    cells = t.cells
    n = len(cells)
    mk = {}
    for c in cells:
        if id(c.metadata) not in mk:
            mk[id(c.metadata)] = meta_key(c.metadata)
    key = lambda c: mk[id(c.metadata)]      # noqa: E731

    def run(desc, f, want_f):
        r = _quiet(f)
        if isinstance(r, BaseException):
            out.append((desc, [f"{desc} raised {type(r).__name__}: {r}"]))
            return
        probs = want_f(r)
        out.append((desc, probs))

    groups = {}
    for c in cells:
        groups.setdefault(key(c), []).append(c)

    def chk_slices(r):
        probs = []
        got = {}
        for k_, part in r.items():
            kk = meta_key(k_)
            if kk in got:
                probs.append("slices: two parts with the same key")
            got[kk] = part
        if set(got) != set(groups):
            probs.append(f"slices: {len(got)} parts, the triangle has {len(groups)} distinct metadata")
        else:
            for kk, part in got.items():
                if not jc.same_cells_fast(part.cells, groups[kk]):
                    probs.append(f"slices: a part holds {len(part.cells)} cells, its slice has {len(groups[kk])}")
                    break
        return probs

    run("slices", lambda: t.slices, chk_slices)
    rows = {}
    for c in cells:
        rows.setdefault((key(c), c.period), []).append(c)
    want_ids = set()
    for row in rows.values():
        mx = max(c.evaluation_date for c in row)
        want_ids.add(id([c for c in row if c.evaluation_date == mx][-1]))
    want_re = [c for c in cells if id(c) in want_ids]
    run("right_edge", lambda: t.right_edge,
        lambda r: [] if jc.same_cells_fast(r.cells, want_re) else
        [f"right_edge returned {len(r.cells)} cells, the latest cells of the {len(rows)} slice-periods are {len(want_re)}"])
    for which, c0 in (("first", cells[0]), ("last", cells[-1])):
        m0, k0 = c0.metadata, key(c0)
        want = [c for c in cells if key(c) == k0]
        run(f"t[:, :, metadata of the {which} cell]", lambda m0=m0: t[:, :, m0],
            lambda r, want=want: [] if jc.same_cells_fast(r.cells, want) else
            [f"t[:, :, metadata] returned {len(r.cells)} cells, the slice has {len(want)}"])
    sp = {}
    for c in cells:
        sp.setdefault(norm_mval(c.metadata.details.get("grp")), []).append(c)

    def chk_split(r):
        got = {norm_mval(k_[0]): part for k_, part in r.items()}
        if set(got) != set(sp):
            return [f"split(['grp']): {len(got)} parts, {len(sp)} distinct values"]
        return [] if all(jc.same_cells_fast(got[k_].cells, sp[k_]) for k_ in sp) else ["split(['grp']): a part is not the cells of its key"]

    run("split(['grp'])", lambda: t.split(["grp"]), chk_split)
    # month-unit clips (all these cells are month aligned): inclusive whole-month bounds
    lags = sorted({month_lag(c) for c in cells})
    for kbound in sorted({lags[0], lags[len(lags) // 2], lags[-1], 3}):
        for kw in ({"min_dev": kbound}, {"max_dev": kbound}, {"min_dev": float(kbound), "max_dev": kbound + 0.5, "dev_lag_unit": "months"}):
            want = want_clip(t, kw)
            run(f"clip({kw})", lambda kw=kw: t.clip(**kw),
                lambda r, want=want, kw=kw: [] if jc.same_cells_fast(r.cells, want) else
                [f"clip({kw}) returned {len(r.cells)} cells, the inclusive bounds select {len(want)} (of {n})"])
    evs = sorted({c.evaluation_date for c in cells})
    dmid = evs[len(evs) // 2]
    run("clip(max_eval) / clip(min_eval) partition", lambda: (t.clip(max_eval=dmid), t.clip(min_eval=dmid + ONE)),
        lambda r: [] if jc.same_cells_fast(r[0].cells, [c for c in cells if c.evaluation_date <= dmid])
        and jc.same_cells_fast(r[1].cells, [c for c in cells if c.evaluation_date > dmid]) else
        [f"complementary evaluation clips at {dmid} do not partition the {n} cells ({len(r[0].cells)} + {len(r[1].cells)})"])
    pmid = cells[n // 2].period_start
    run("t[period_start:, :, :]", lambda: t[pmid:, :, :],
        lambda r: [] if jc.same_cells_fast(r.cells, [c for c in cells if c.period_start >= pmid]) else
        [f"t[{pmid}:, :, :] returned {len(r.cells)} cells"])
    f0 = sorted(cells[0].values)[0]

    def chk_select(r):
        if len(r.cells) != n:
            return ["select changed the number of cells"]
        for c, o in zip(cells, r.cells):
            if list(o.values) != [k_ for k_ in c.values if k_ == f0] or any(o.values[k_] is not c.values[k_] and not np.array_equal(o.values[k_], c.values[k_]) for k_ in o.values) \
                    or (o.period, o.evaluation_date, key(c)) != (c.period, c.evaluation_date, meta_key(o.metadata)):
                return [f"select([{f0!r}]) changed a cell"]
        return []

    run(f"select([{f0!r}])", lambda: t.select([f0]), chk_select)
    run(f"extract({f0!r})", lambda: t.extract(f0),
        lambda r: [] if len(r) == n and all(x is c.values.get(f0) or np.array_equal(x, c.values.get(f0)) for x, c in zip(r, cells))
        else [f"extract({f0!r}) is not one entry per cell in order"])
    return out


def large_stream(ctx, fails, only=None):
    """a handful of big triangles per run (family Q); process-wide state is probed by re-checking the first
    cases after the large work.  Python oracles only (no Coq literals)."""
    specs = LARGE_QUICK + ([] if ctx.quick else LARGE_THOROUGH)
    n = 0
    built = {}

    def one(name, t, phase):
        nonlocal n
        for desc, probs in large_check(t, name):
            n += 1
            ctx.hist(f"large:{name}")
            if probs:
                fails.append((jc.mk_triangle([]), {"kind": "large", "case": name, "phase": phase, "operation": desc,
                                                   "cells": len(t)}, probs))
    for name, params in specs:
        with warnings.catch_warnings():
            warnings.simplefilter("ignore")
            t = jc.big_triangle(**params)
        built[name] = t
        one(name, t, "first pass")
    with warnings.catch_warnings():
        warnings.simplefilter("ignore")
        built["big-arrays"] = big_array_triangle(5000, 100000 if ctx.quick else 400000)
    one("big-arrays", built["big-arrays"], "first pass")
    # after > 1024 months and > 2100 distinct Metadata went through this process: the earliest cases again
    for name in ("boundary-at-256", "century-monthly", "wide-rows"):
        one(name, built[name], "re-check after the large work")
        with warnings.catch_warnings():
            warnings.simplefilter("ignore")
            one(name, jc.big_triangle(**dict(specs)[name]), "rebuilt after the large work")
    return n


# =============================================================================== state, spellings, refusals
def canon_result(res):
    if isinstance(res, BaseException):
        return ("raised", type(res).__name__)
    if hasattr(res, "cells"):
        return ("tri", tuple(jc.canon_seq(res.cells)))
    if isinstance(res, dict):
        return ("dict", tuple((repr(k), tuple(jc.canon_seq(v.cells))) for k, v in res.items()))
    if isinstance(res, tuple):
        return ("tuple", tuple(canon_result(r) for r in res))
    if isinstance(res, np.ndarray):
        return ("array", repr(res.tolist()))
    return ("cell", ct.canon_cell(res, ordered=True))


def spoil(res, t):
    """what a caller may do with a result: empty its containers"""
    if res is t or isinstance(res, BaseException):
        return
    if hasattr(res, "_cells") and res._cells is not t._cells:
        res._cells.clear()
    elif isinstance(res, dict):
        for v in res.values():
            spoil(v, t)
        res.clear()
    elif isinstance(res, tuple):
        for r in res:
            spoil(r, t)
    elif isinstance(res, np.ndarray) and res.size:
        res[...] = None if res.dtype == object else 0


def call_op(t, op):
    try:
        with warnings.catch_warnings():
            warnings.simplefilter("ignore")
            return run_op(t, op)
    except Exception as ex:  # noqa: BLE001
        return ex


def state_and_spelling_stream(ctx, t, rng, fails):
    """H: the same call twice, and again after the caller emptied the first result -- same answer, input
    untouched.  K: keyword and positional spellings agree.  L: an unknown lag unit is refused iff a lag
    bound is given."""
    n = 0
    before = jc.canon_seq(t.cells)
    ops = [o for o in ops_for(t, random.Random(len(t)), True)
           if o["kind"] in ("clip", "filter", "slices", "split", "right_edge", "select", "getitem", "extract", "clip_pair")]
    for op in random.Random(len(t) + 1).sample(ops, min(14, len(ops))):
        r1 = call_op(t, op)
        c1 = canon_result(r1)
        c1b = canon_result(call_op(t, op))
        spoil(r1, t)
        r3 = call_op(t, op)
        n += 3
        ctx.hist("state:twice+after-edit")
        probs = []
        if c1b != c1:
            probs.append(f"{op['kind']}: the same call twice gives different results")
        if canon_result(r3) != c1:
            probs.append(f"{op['kind']}: the call after the caller emptied the earlier result gives another result")
        if jc.canon_seq(t.cells) != before:
            probs.append(f"{op['kind']}: the input triangle changed")
        probs += oracle(t, op, r3)
        if probs:
            fails.append((t, {**op, "stream": "state"}, probs))
    cells = t.cells
    fields = sorted({k for c in cells for k in c.values})[:2]
    d0 = cells[0].evaluation_date if cells else D(2020, 1, 31)
    pairs = [
        ("filter", lambda: t.filter(lambda c: c.evaluation_date <= d0), lambda: t.filter(predicate=lambda c: c.evaluation_date <= d0)),
        ("select", lambda: t.select(fields), lambda: t.select(keys=fields)),
        ("split", lambda: t.split(["a", "lob"]), lambda: t.split(detail_keys=["a", "lob"])),
        ("extract", lambda: t.extract(fields[0] if fields else "x"), lambda: t.extract(attribute=fields[0] if fields else "x")),
        ("clip unit spelling", lambda: t.clip(max_dev=40, dev_lag_unit="day"), lambda: t.clip(max_dev=40, dev_lag_unit="DAYS")),
        ("clip unused unknown unit", lambda: t.clip(min_eval=d0), lambda: t.clip(min_eval=d0, dev_lag_unit="fortnight")),
    ]
    for name, f1, f2 in pairs:
        n += 2
        ctx.hist("spelling:" + name)
        a, b_ = canon_result(_quiet(f1)), canon_result(_quiet(f2))
        if a != b_ or a[0] == "raised":
            fails.append((t, {"kind": "spelling", "name": name}, [f"{name}: the two spellings differ or a valid call was refused ({a[:2] if a[0] == 'raised' else ''} / {b_[:2] if b_[0] == 'raised' else ''})"]))
    if cells:
        for kw in ({"min_dev": 1}, {"max_dev": 0}):
            n += 1
            ctx.hist("refusal:unknown-lag-unit")
            r = _quiet(lambda: t.clip(dev_lag_unit="fortnight", **kw))
            if not isinstance(r, ValueError):
                fails.append((t, {"kind": "refusal", "kw": kw}, [f"clip({kw}, dev_lag_unit='fortnight') on a non-empty triangle did not raise ValueError"]))
    return n


def _quiet(f):
    try:
        with warnings.catch_warnings():
            warnings.simplefilter("ignore")
            return f()
    except Exception as ex:  # noqa: BLE001
        return ex


# =============================================================================== Coq cases
def cgroups(res, cells, tname, ckey):
    return "[" + ";\n   ".join(f"({ckey(kk)}, {jc.out_cells_term(part.cells, cells, tname)})" for kk, part in res.items()) + "]"


def coq_cases(t, tname, op, res):
    """[(bool expression, tag)]: model = implementation, and the executable spec on the implementation's output"""
    k = op["kind"]
    cells = t.cells
    exc = res if isinstance(res, BaseException) else None
    out = []
    if k not in ("getitem", "getitem2") and exc is not None:
        return [("false", "impl-raised")]
    oc = lambda r: jc.out_cells_term(r.cells, cells, tname)     # noqa: E731
    if k == "clip" and "day" not in op["kw"].get("dev_lag_unit", "month").lower() \
            and op["kw"].get("dev_lag_unit") != "timedelta" and not jc.month_aligned(t) \
            and ("min_dev" in op["kw"] or "max_dev" in op["kw"]):
        return []           # month lags of cells off a month end are not integers: python oracle only
    if k == "clip":
        a = jc.clip_args(clip_kw_model(op["kw"]))
        out.append((f"list_eqb cell_seqb (clip gen_clip {a} {tname}) {oc(res)}", "model"))
        out.append((f"clip_spec_b {a} {tname} {oc(res)}", "spec"))
    elif k == "clip_pair":
        a, b = res
        if op["attr"] == "eval":
            p = f"(fun c => ev c <=? {d_(op['d']).toordinal()})"
        else:
            u = "UDay" if op["unit"] == "day" else "UMonth"
            p = f"(fun c => dev_lag {u} c <=? {jc.cz(op['k'])})"
        out.append((f"partition_spec_b {p} {tname} {oc(a)} {oc(b)}", "spec"))
    elif k == "filter":
        p = coq_pred(op["pred"])
        out.append((f"list_eqb cell_seqb (tri_filter {p} {tname}) {oc(res)}", "model"))
        out.append((f"selection_spec_b {p} {tname} {oc(res)}", "spec"))
    elif k == "filter_pair":
        out.append((f"partition_spec_b {coq_pred(op['pred'])} {tname} {oc(res[0])} {oc(res[1])}", "spec"))
    elif k == "slices":
        g = cgroups(res, cells, tname, ct.cmeta)
        out.append((f"groups_eqb meta_seqb (slices {tname}) {g}", "model"))
        out.append((f"groups_spec_b meta_pyeq cmeta {tname} {g}", "spec"))
    elif k == "split":
        ks = jc.cstrs(op["keys"])
        g = cgroups(res, cells, tname, lambda kk: "[" + ";".join(ct.cmval(v) for v in kk) + "]")
        out.append((f"groups_eqb (list_eqb mval_seqb) (split {ks} {tname}) {g}", "model"))
        out.append((f"groups_spec_b detail_key_eqb (detail_key {ks}) {tname} {g}", "spec"))
    elif k == "right_edge":
        out.append((f"list_eqb cell_seqb (right_edge {tname}) {oc(res)}", "model"))
        out.append((f"right_edge_spec_b {tname} {oc(res)}", "spec"))
    elif k == "select":
        ks = jc.cstrs(op["keys"])
        o = ct.ccells(res.cells)
        out.append((f"let o := {o} in list_eqb cell_seqb (tri_select {ks} {tname}) o && select_spec_b {ks} {tname} o",
                    "model+spec"))
    elif k == "extract":
        vals = list(res)
        if any(isinstance(v, np.ndarray) or (v is not None and not isinstance(v, (int, float, np.integer, np.floating))) for v in vals):
            return []           # array-valued: object arrays lose the dtype; python oracle only
        o = "[" + ";".join(ct.cvalue(v) for v in vals) + "]"
        out.append((f"list_eqb value_seqb (extract_field {ct.cstr(op['field'])} {tname}) {o}", "model"))
    elif k == "extract_fn":
        o = "[" + ";".join(str(int(x)) for x in res) + "]"
        out.append((f"list_eqb Z.eqb (extract_fn {op['fn']} {tname}) {o}", "model"))
    elif k in ("getitem", "getitem2"):
        ix = op["index"]
        if k == "getitem2":
            sl = first_slice(t)
            sterm = jc.out_cells_term(sl, cells, tname)
            oc = lambda r: jc.out_cells_term(r.cells, cells, tname)     # noqa: E731,F811
        if exc is not None:
            o = f"(Err {ct.cerr(exc)})"
        elif hasattr(res, "cells"):
            o = f"(Ok (GTri {oc(res)}))"
        else:
            o = f"(Ok (GCell {ct.ccell(res)}))"
        if k == "getitem2":
            if ix[0] == "pair":
                pe_ = coq_index(["triple", ix[1], ix[2], ["none"]]).replace("(ITriple ", "(I2Pair ").replace(" MNoneIdx)", ")")
                out.append((f"result_eqb gi_out_eqb (slice_getitem gen_getitem_slice gen_clip {pe_} {sterm}) {o}", "model"))
            elif ix[0] == "arity":
                out.append((f"result_eqb gi_out_eqb (slice_getitem gen_getitem_slice gen_clip I2BadArity {sterm}) {o}", "model"))
            else:
                out.append((f"result_eqb gi_out_eqb (getitem gen_getitem_slice gen_clip {coq_index(ix)} {sterm}) {o}", "model"))
        elif ix[0] == "range" and (ix[3] or 1) < 0:
            out.append((f"result_eqb gi_out_eqb (Ok (getitem_neg_step sort_cells {jc.copt(ix[1], jc.cz)} "
                        f"{jc.copt(ix[2], jc.cz)} {-ix[3]}%positive {tname})) {o}", "model"))
        else:
            out.append((f"result_eqb gi_out_eqb (getitem gen_getitem gen_clip {coq_index(ix)} {tname}) {o}", "model"))
    return out


# =============================================================================== the check
def prepare(ctx):
    """translate + theorem files; returns True when GenPred.v is the translated one"""
    from translate import t_pred

    for f in list(ctx.build.glob("*.vo")) + list(ctx.build.glob("*.glob")) + list(ctx.build.glob("cases_*.v")) \
            + list(ctx.build.glob(".*.aux")) + list(ctx.build.glob("*.vok")) + list(ctx.build.glob("*.vos")):
        f.unlink()
    translated = True
    try:
        gen = t_pred.translate(REPO, parts=("select",))
        ctx.obligation("T-pred translation of Triangle.clip / Triangle.__getitem__", True)
    except t_pred.Unsupported as ex:
        translated = False
        ctx.obligation("T-pred translation of Triangle.clip / Triangle.__getitem__", False, str(ex))
        ctx.log(f"translator failed closed: {ex}")
    except Exception as ex:  # noqa: BLE001  (syntax errors, missing files)
        translated = False
        ctx.obligation("T-pred translation of Triangle.clip / Triangle.__getitem__", False, repr(ex))
    if not translated:
        gen = ct.COQ_HEADER.split("From Bermuda")[0] + FALLBACK
    (ctx.build / "GenPred.v").write_text(gen)
    exp = COQ / "GenExpected" / "GenPred_select.v"
    if translated and exp.exists() and exp.read_text() != gen:
        import difflib

        d = "".join(difflib.unified_diff(exp.read_text().splitlines(1), gen.splitlines(1), "expected", "generated"))
        ctx.notes.append("generated GenPred.v differs from the snapshot:\n" + d[:3000])
        ctx.extra["generated_diff"] = d[:6000]
    rc, out = ctx.coqc(ctx.build / "GenPred.v", timeout=300)
    ctx.obligation("GenPred.v compiles (generated descriptions are well-typed)", rc == 0, out)
    if rc != 0:
        (ctx.build / "GenPred.v").write_text(ct.COQ_HEADER.split("From Bermuda")[0] + FALLBACK)
        ctx.coqc(ctx.build / "GenPred.v", timeout=300)
        translated = False
    return translated


def run(ctx):
    ctx.rule = (
        "triangles from harness/gen.py (7 layouts x cumulative/incremental x 1-3 slices x int/float/array values, "
        "plus a LARGE stream judged by python oracles only (257..3072 cells with slice boundaries at multiples of 256, "
        "2400 monthly periods over a century, rows of 70 evaluations, 2200 slices, 5000- and 100000-sample arrays, "
        "integers beyond 2**53, the first cases re-checked after the large work), directed special triangles on every run (falsy field/detail values, None vs '' vs 0 metadata, empty, one "
        "cell, cells built from datetimes, NumPy corner types), a state stream (same call twice / after the caller "
        "emptied the result), spellings and refusals, monthly triangles around the Februaries of 1900/2000/2096/2100/2200, slices differing only in where a key "
        "lives (details vs loss_details / attribute vs detail key), duplicate coordinates, equal-but-differently-written "
        "metadata inside one slice (>= 2 detail keys in another order, 7 vs 7.0, True vs 1), nested/overlapping periods inside a slice "
        "(same start other end, same end other start) and cells evaluated before their period end (negative lags)), "
        "<= ~35 cells; per triangle: clip with the literal bound 0 / 0.0 / timedelta(0) and "
        "with every bound kind at the triangle's own dates/lags, +-1 day, +-1 month, out of range, day and month "
        "units, float bounds, conjunctions; complementary clips and filters; slices; split by every subset of the "
        "detail keys; all index forms (int incl. negative/out of range, ranges with steps, (period, evaluation, "
        "metadata) with dates / slices / None / foreign metadata, malformed; negative steps; TriangleSlice[period, "
        "evaluation] on the first slice); right_edge; select by every subset "
        "of <= 4 fields; extract.  A case is non-trivial if its triangle has >= 2 cells or an error branch is hit.")
    ctx.assumptions += [
        "translate/t_pred.py reads the Python AST faithfully (which attribute / operator / bound / guard)",
        "cell order is the input order: every operation here selects from an already sorted list (C01 owns sorting)",
        "month-unit development lags are modelled on month-aligned cells only (integer lags, C12); "
        "a timedelta-unit bound of n days is modelled as the day-unit bound n",
        "the class of an index result (Triangle vs TriangleSlice) is not modelled, its cells are",
    ]
    translated = prepare(ctx)
    theorems(ctx, translated)
    correspond(ctx)


def theorems(ctx, translated):
    ctx.audit_tree(["Model/Select.v", "Proofs/SelectP.v", "Proofs/SelectCanon.v", "Props/C11.v"])
    ctx.prove_static("Props/C11.v", timeout=900)
    gp = ctx.build / "C11_Gen.v"
    shutil.copy(COQ / "GenProps" / "C11_Gen.v", gp)
    if translated:
        ctx.prove(gp, timeout=600)
    else:
        ctx.obligation("C11_Gen.v (theorems about the generated description)", False, "no translated description")


def correspond(ctx):
    rng = random.Random(ctx.seed * 7919 + 11)
    g = Gen(rng)
    n_tri = 98 if ctx.quick else 490
    cases = jc.Cases(ctx, "cases", IMPORTS)
    fails = []          # (t, op, problems)
    n_ops = 0
    with warnings.catch_warnings():
        warnings.simplefilter("ignore")
        specials = special_triangles(rng)
    cases.triangles = {}
    for k in range(n_tri + len(specials)):
        with warnings.catch_warnings():
            warnings.simplefilter("ignore")
            t, info = gen_triangle(g, rng, k) if k < n_tri else specials[k - n_tri]
        tname = f"t{k}"
        try:
            lit = ct.ccells(t.cells)
            cases.add_def(tname, lit, len(t))
        except ct.NotRepresentable:
            lit = None              # not expressible in the Coq data model: real operations + python oracles only
            ctx.hist("python-only:not-representable")
        ctx.hist("tri:" + describe(info) + ("/dups" if info.get("dups") else "") + ("/alias" if info.get("alias") else "")
                 + ("/moved-key-slice" if info.get("moved") else "") + ("/nested-periods" if info.get("nested") else "") + ("/negative-lags" if info.get("early") else ""))
        tj = None
        for op in ops_for(t, rng, ctx.quick):
            n_ops += 1
            try:
                with warnings.catch_warnings():
                    warnings.simplefilter("ignore")
                    res = run_op(t, op)
            except Exception as ex:  # noqa: BLE001
                res = ex
            kind = op["kind"] + (":" + op["index"][0] if op["kind"] in ("getitem", "getitem2") else "")
            if op["kind"] == "getitem" and op["index"][0] == "range" and (op["index"][3] or 1) < 0:
                kind += ":negative-step"
            ctx.hist("op:" + kind + (":raised" if isinstance(res, BaseException) else ""))
            probs = oracle(t, op, res)
            if probs:
                fails.append((t, op, probs))
            if len(t) >= 2 or isinstance(res, BaseException):
                ctx.nontriv((tname, repr(op)))
            try:
                for expr, tag in (coq_cases(t, tname, op, res) if lit is not None else []):
                    cases.add(expr, {"k": k, "op": op, "tag": tag})
            except ct.NotRepresentable:
                ctx.hist("skipped-coq:not-representable")
            if len(ctx.samples) < 3 and op["kind"] in ("clip", "getitem", "split") and len(t) >= 4 and rng.random() < 0.05:
                tj = tj or jc.tri_to_json(t)
                ctx.sample({"op": op, "triangle_cells": len(t), "result": (type(res).__name__ if not hasattr(res, "cells") else f"Triangle of {len(res.cells)} cells")})
        cases.triangles[k] = t
        if k % 9 == 4 or k >= n_tri:
            n_ops += state_and_spelling_stream(ctx, t, rng, fails)
    t_large = time.time()
    n_ops += large_stream(ctx, fails)
    ctx.notes.append(f"large stream (family Q): python-side oracles only, no Coq literals -- the theorems are "
                     f"size-independent, the correspondence samples small triangles; {time.time() - t_large:.1f} s")
    probs, err = jc.cross_process_probe(ctx, "cum")      # family O (judged by the C10 and C11 oracles)
    ctx.hist("cross-process probe (pickled under another PYTHONHASHSEED)")
    ctx.obligation("cross-process probe runs", err is None, err or "")
    probs = [x for x in probs if x.startswith(("mixed triangle", "the unpickled"))]
    if probs:
        fails.append((jc.mk_triangle([]), {"kind": "cross_process"}, probs))
    ctx.log(f"{n_tri} + {len(specials)} triangles, {n_ops} operations, {cases.total()} Coq cases in {len(cases.files)} files; "
            f"python oracles: {len(fails)} failing")
    bad, errs = cases.run(timeout=900 if ctx.quick else 2400)
    ctx.count(evaluations=n_ops + cases.total(), traces=cases.total())
    ctx.obligation("correspondence files compile", not errs, repr(errs[:2]))
    model_bad = [b for b in bad if b["tag"] in ("model", "model+spec", "impl-raised")]
    spec_bad = [b for b in bad if b["tag"] == "spec"]
    ctx.obligation("correspondence: model = implementation on every case", not model_bad,
                   repr([(b["k"], b["op"]) for b in model_bad[:5]]))
    ctx.obligation("executable specification holds on every implementation output", not spec_bad,
                   repr([(b["k"], b["op"]) for b in spec_bad[:5]]))
    ctx.log(f"coq: {len(model_bad)} model mismatches, {len(spec_bad)} spec failures, {len(errs)} file errors")
    # ---- violations
    seen = set()
    for t, op, probs in fails[:8]:
        key = (op["kind"], probs[0][:40])
        if key in seen:
            continue
        seen.add(key)
        ctx.violation("impl-violation", probs[0], {"op": op, "triangle": jc.tri_to_json(t), "problems": probs},
                      found_input=True)
    if not fails:
        for b in (spec_bad + model_bad)[:3]:
            t = cases.triangles[b["k"]]
            kind = "impl-violation" if b["tag"] == "spec" else "correspondence"
            what = (f"executable specification of {b['op']['kind']} fails on the implementation's output"
                    if b["tag"] == "spec" else f"model and implementation differ on {b['op']['kind']}")
            ctx.violation(kind, what + f": {b['op']}", {"op": b["op"], "triangle": jc.tri_to_json(t), "coq_tag": b["tag"]},
                          found_input=(b["tag"] == "spec"))
        for name, out in errs[:1]:
            ctx.violation("obligation", f"cases file {name} does not compile", {"output": out}, found_input=False)


def replay(ctx, data):
    t = jc.tri_from_json(data["triangle"])
    op = data["op"]
    if op.get("kind") == "large":
        fails = []
        large_stream(ctx, fails)
        mine = [f for f in fails if f[1]["case"] == op["case"]] or fails
        for _, o, probs in mine[:6]:
            print(f"PROBLEM: [{o['case']}, {o['cells']} cells, {o['phase']}] {probs[0]}")
        if not fails:
            print("the property holds on the large stream")
        return 1 if fails else 0
    if op.get("kind") == "cross_process":
        probs, err = jc.cross_process_probe(ctx, "cum")
        probs = [x for x in probs if x.startswith(("mixed triangle", "the unpickled"))] + ([err] if err else [])
        for x in probs:
            print("PROBLEM:", x)
        if not probs:
            print("the property holds on this input")
        return 1 if probs else 0
    if op.get("kind") in ("spelling", "refusal") or op.get("stream") == "state":
        fails = []
        state_and_spelling_stream(ctx, t, random.Random(0), fails)
        for _, o, probs in fails:
            for p in probs:
                print("PROBLEM:", o.get("kind"), p)
        if not fails:
            print("the property holds on this input")
        return 1 if fails else 0
    try:
        with warnings.catch_warnings():
            warnings.simplefilter("ignore")
            res = run_op(t, op)
    except Exception as ex:  # noqa: BLE001
        res = ex
    probs = oracle(t, op, res)
    print(f"triangle of {len(t)} cells, operation {op}")
    print("result:", repr(res) if isinstance(res, BaseException) else
          (f"{len(res.cells)} cells" if hasattr(res, "cells") else type(res).__name__))
    for p in probs:
        print("PROBLEM:", p)
    if not probs:
        print("the property holds on this input")
    return 1 if probs else 0
