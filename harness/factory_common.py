"""Method forms (bermuda/factory.py): T-factory obligation + differential search, shared by the checks.

Every property quantifies over both spellings of an operation (`t.op(...)` and `op(t, ...)`); the models
describe the module-level functions.  This module

  1. regenerates `GenFactory.v` from /repo's factory.py (translate/t_factory.py, fail closed) and proves, for
     the method names relevant to the property, that each is wired exactly once and with the wrapper shape
     the models assume (coq/GenProps/Factory_gen.v -> Proofs/FactoryP.v: the method form IS the function form
     for every receiver and every positional/keyword argument list);
  2. always runs a differential battery on the implementation: method form vs function form on generated
     triangles, with positional AND keyword argument spellings, falsy argument values (0, [], None, False),
     boundary arguments, repeated calls, calls on Python-equal-but-differently-typed receivers and calls after
     the caller edited an earlier result (state kept between calls).  Any difference is a concrete input on
     which the method form does not do what the (modelled, correspondence-checked) function form does.
"""
from __future__ import annotations

import datetime
import gzip
import json
import os
import random
import warnings
from pathlib import Path

import numpy as np

from harness import coqterm as ct
from harness.common import COQ, REPO, ROOT
from harness.gen import Gen

warnings.simplefilter("ignore")

RELEVANT = {
    "C04": ["to_incremental", "to_cumulative"],
    "C05": ["to_binary", "from_binary"],
    "C06": ["to_binary", "from_binary"],
    "C19": ["from_binary", "to_binary"],
    "C07": ["to_json", "to_dict", "from_json", "from_dict"],
    "C08": ["aggregate"],
    "C09": ["summarize"],
    "C10": ["merge", "period_merge", "coalesce", "add_statics"],
    "C11": ["split"],
    "C14": ["to_array_data_frame", "to_long_csv", "to_wide_csv", "to_long_data_frame", "to_wide_data_frame",
            "from_array_data_frame", "from_long_csv", "from_wide_csv", "from_long_data_frame", "from_wide_data_frame"],
    "C15": ["make_right_triangle", "make_right_diagonal"],
    "C16": ["blend"],
    "C17": ["thin"],
    "C20": ["plot_right_edge", "plot_data_completeness", "plot_heatmap", "plot_atas", "plot_growth_curve",
            "plot_mountain", "plot_ballistic", "plot_broom", "plot_sunset", "plot_histogram", "plot_drip", "plot_hose"],
}


# ---------------------------------------------------------------------------------------------- canonical results
def strict(x):
    """Strict, hashable, type-sensitive canonical form of a result."""
    import pandas as pd

    if hasattr(x, "cells") and hasattr(x, "slices"):
        return ("Triangle", ct.canon_tri(x, ordered=True))
    if isinstance(x, pd.DataFrame):
        return ("DataFrame", tuple(map(str, x.columns)), tuple(str(d) for d in x.dtypes), x.to_csv(index=True))
    if isinstance(x, dict):
        return ("dict", tuple((repr(k) if not isinstance(k, str) else k, strict(v)) for k, v in x.items()))
    if isinstance(x, (list, tuple)):
        return (type(x).__name__, tuple(strict(v) for v in x))
    if isinstance(x, np.ndarray):
        return ("ndarray", str(x.dtype), x.shape, x.tobytes())
    if isinstance(x, (bytes, str, int, float, bool, type(None), datetime.date)):
        return (type(x).__name__, x)
    if hasattr(x, "to_dict") and type(x).__module__.startswith("altair"):
        return ("chart", json.dumps(x.to_dict(), sort_keys=True, default=str))
    if hasattr(x, "coordinates") and hasattr(x, "values"):
        return ("Cell", ct.canon_cell(x, True))
    return (type(x).__name__, repr(x))


def outcome(thunk):
    try:
        return ("ok", strict(thunk()))
    except Exception as ex:  # noqa: BLE001
        return ("raise", type(ex).__name__)


def same_object(thunk_m, thunk_f):
    """both forms return the receiver itself (identity clauses)"""
    try:
        a, b = thunk_m(), thunk_f()
        return a is b
    except Exception:  # noqa: BLE001
        return None


# ---------------------------------------------------------------------------------------------- batteries
class Battery:
    """Collects (label, method thunk, function thunk) triples for one receiver; labels are stable so a replay can
    re-run exactly one of them."""

    def __init__(self):
        self.items = []

    def add(self, label, m, f, kind="same"):
        self.items.append((label, m, f, kind))


def scratch(ctx, name):
    d = Path(ctx.build) / "factory"
    d.mkdir(parents=True, exist_ok=True)
    return str(d / f"{os.getpid()}_{name}")


def retype(t):
    """A Python-equal copy of t with ints as floats and floats-with-integer-value as ints (arrays: dtype swapped)."""
    from bermuda import Triangle

    def rv(v):
        if isinstance(v, np.ndarray):
            if v.dtype.kind == "i":
                return v.astype(np.float64)
            if v.dtype.kind == "f" and np.all(v == np.floor(v)):
                return v.astype(np.int64)
            return v.copy()
        if isinstance(v, bool) or v is None:
            return v
        if isinstance(v, int):
            return float(v)
        if isinstance(v, float) and v == int(v):
            return int(v)
        return v

    return Triangle([c.replace(values={k: rv(v) for k, v in c.values.items()}) for c in t.cells])


def battery_for(ctx, name, t, g, aux):
    """Build the battery of one method for receiver t.  aux: a second triangle (same basis) from the generator."""
    import bermuda
    from bermuda import Triangle
    from bermuda import io as bio
    from bermuda import utils as bu

    r = g.r
    b = Battery()
    fields = list(t.fields)
    if name in ("to_incremental", "to_cumulative"):
        fn = getattr(bu, name)
        b.add("plain", lambda: getattr(t, name)(), lambda: fn(t))
        b.add("twice", lambda: (getattr(t, name)(), getattr(t, name)())[1], lambda: fn(t))
        b.add("identity-on-target-basis", lambda: getattr(getattr(t, name)(), name)(), lambda: fn(fn(t)))
    elif name == "to_binary":
        def writer(form, args, kwargs, ext):
            def go():
                p = scratch(ctx, f"w_{form}{ext}")
                if os.path.exists(p):
                    os.unlink(p)
                (t.to_binary(p, *args, **kwargs) if form == "m" else bio.triangle_to_binary(t, p, *args, **kwargs))
                raw = open(p, "rb").read()
                gz = raw[:2] == b"\x1f\x8b"
                return ("gzip" if gz else "plain", gzip.decompress(raw) if gz else raw)
            return go
        for lab, args, kwargs, ext in [("path", (), {}, ".trib"), ("path,True", (True,), {}, ".trib"),
                                       ("path,False", (False,), {}, ".tribc"), ("compress=True", (), {"compress": True}, ".trib"),
                                       ("compress=False", (), {"compress": False}, ".trib"), ("tribc-inferred", (), {}, ".tribc"),
                                       ("tribc,True", (True,), {}, ".tribc")]:
            b.add(lab, writer("m", args, kwargs, ext), writer("f", args, kwargs, ext))
    elif name == "from_binary":
        for comp in (False, True):
            def prep(comp=comp):
                p = scratch(ctx, "r" + (".tribc" if comp else ".trib"))
                bio.triangle_to_binary(t, p, compress=comp)
                return p
            b.add(f"read,compress={comp}", lambda comp=comp, prep=prep: Triangle.from_binary(prep(), comp),
                  lambda comp=comp, prep=prep: bio.binary_to_triangle(prep(), comp))
            b.add(f"read-inferred,{comp}", lambda prep=prep: Triangle.from_binary(prep()) if prep().endswith("c") or True else None,
                  lambda prep=prep: bio.binary_to_triangle(prep()))

            # path reuse: P holds t and is loaded; P is then rewritten (by the module-level writer, by raw bytes, by a
            # truncated copy) and loaded again -- every load must see what is on disk now
            def reuse(form, how, comp=comp):
                def go():
                    p = scratch(ctx, f"reuse_{form}" + (".tribc" if comp else ".trib"))
                    q = scratch(ctx, f"reuse_src_{form}" + (".tribc" if comp else ".trib"))
                    rd = (lambda: Triangle.from_binary(p, comp)) if form == "m" else (lambda: bio.binary_to_triangle(p, comp))
                    (t.to_binary(p, comp) if form == "m" else bio.triangle_to_binary(t, p, comp))
                    first = strict(rd())
                    bio.triangle_to_binary(aux, q, comp)
                    raw = open(q, "rb").read()
                    if how == "function-writer":
                        bio.triangle_to_binary(aux, p, comp)
                    elif how == "raw-bytes":
                        open(p, "wb").write(raw)
                    elif how == "truncated":
                        open(p, "wb").write(raw[: max(0, len(raw) * 2 // 3)])
                    elif how == "empty-file":
                        open(p, "wb").write(b"")
                    try:
                        second = ("ok", strict(rd()))
                    except Exception as ex:  # noqa: BLE001
                        second = ("raise", type(ex).__name__)
                    return (first, second)
                return go
            for how in ("function-writer", "raw-bytes", "truncated", "empty-file"):
                b.add(f"path-reuse:{how},compress={comp}", reuse("m", how), reuse("f", how))
    elif name in ("to_dict", "to_json"):
        fn = bio.triangle_to_dict if name == "to_dict" else bio.triangle_to_json
        t2 = retype(t)
        b.add("plain", lambda: getattr(t, name)(), lambda: fn(t))
        # state between calls: equal-but-differently-typed receiver after t; caller edits an earlier result
        b.add("after-equal-receiver", lambda: (getattr(t, name)(), getattr(t2, name)())[1], lambda: fn(t2))
        b.add("equal-receiver-first", lambda: (getattr(t2, name)(), getattr(t, name)())[1], lambda: fn(t))

        def edited():
            d = getattr(t, name)()
            if isinstance(d, dict):
                for k in list(d):
                    d[k] = None
                d["injected"] = 1
            return getattr(t, name)()
        b.add("after-caller-edited-result", edited, lambda: fn(t))
        if name == "to_json":
            def tofile(form):
                def go():
                    p = scratch(ctx, f"j_{form}.json")
                    (t.to_json(p) if form == "m" else bio.triangle_to_json(t, p))
                    return open(p).read()
                return go
            b.add("path", tofile("m"), tofile("f"))
    elif name in ("from_dict", "from_json"):
        if name == "from_dict":
            b.add("plain", lambda: Triangle.from_dict(bio.triangle_to_dict(t)), lambda: bio.dict_to_triangle(bio.triangle_to_dict(t)))
            t2 = retype(t)
            b.add("after-equal-input", lambda: (Triangle.from_dict(bio.triangle_to_dict(t)), Triangle.from_dict(bio.triangle_to_dict(t2)))[1],
                  lambda: bio.dict_to_triangle(bio.triangle_to_dict(t2)))
        else:
            def rd(form, which):
                def go():
                    p = scratch(ctx, f"jr_{form}.json")
                    bio.triangle_to_json(which, p)
                    return Triangle.from_json(p) if form == "m" else bio.json_to_triangle(p)
                return go
            b.add("path", rd("m", t), rd("f", t))
            b.add("path-reuse", lambda: (rd("m", t)(), rd("m", aux)())[1], lambda: rd("f", aux)())
    elif name == "aggregate":
        from bermuda.utils import aggregate

        ev = t.evaluation_dates[0] if len(t) else datetime.date(2020, 12, 31)
        for lab, args, kwargs in [
            ("pos(period)", ((3, "month"),), {}), ("pos(period,eval)", ((12, "month"), (3, "month")), {}),
            ("kw(period)", (), {"period_resolution": (6, "month")}), ("kw(eval)", (), {"eval_resolution": (6, "month")}),
            ("pos(period,eval,origin)", ((3, "month"), (1, "month"), datetime.date(1999, 12, 31)), {}),
            ("kw(all)", (), {"period_resolution": (12, "month"), "eval_resolution": (12, "month"),
                             "period_origin": datetime.date(2000, 3, 31), "eval_origin": ev}),
            ("none", (), {}),
        ]:
            b.add(lab, lambda a=args, k=kwargs: t.aggregate(*a, **k), lambda a=args, k=kwargs: aggregate(t, *a, **k))
    elif name == "summarize":
        from bermuda.utils import summarize

        for lab, args, kwargs in [("none", (), {}), ("pos(None,False)", (None, False), {}), ("pos(None,True)", (None, True), {}),
                                  ("kw(summarize_premium=False)", (), {"summarize_premium": False}),
                                  ("pos(None),kw(False)", (None,), {"summarize_premium": False}),
                                  ("pos({},False)", ({}, False), {})]:
            b.add(lab, lambda a=args, k=kwargs: t.summarize(*a, **k), lambda a=args, k=kwargs: summarize(t, *a, **k))
    elif name in ("merge", "period_merge", "coalesce", "add_statics"):
        from bermuda.utils import add_statics, coalesce, merge, period_merge

        other = t.right_edge.derive_fields(extra_field=7) if len(t) else t
        src_ = t.right_edge if len(t) else t
        if name == "merge":
            for lab, args, kwargs in [("pos", (other,), {}), ("kw", (), {"triangle2": other}), ("pos,join_type", (other, "left"), {}),
                                      ("kw(join_type=inner)", (other,), {"join_type": "inner"}),
                                      ("kw(on=[])", (other,), {"on": []}), ("pos(on)", (other, "full", ["lob"]), {})]:
                b.add(lab, lambda a=args, k=kwargs: t.merge(*a, **k), lambda a=args, k=kwargs: merge(t, *a, **k))
        elif name == "period_merge":
            for lab, args, kwargs in [("pos", (other,), {}), ("pos,suffix", (other, "_x"), {}), ("kw(suffix)", (other,), {"suffix": ""}),
                                      ("kw(suffix=None)", (other,), {"suffix": None})]:
                b.add(lab, lambda a=args, k=kwargs: t.period_merge(*a, **k), lambda a=args, k=kwargs: period_merge(t, *a, **k))
        elif name == "coalesce":
            for lab, lst in [("[other]", [other]), ("[]", []), ("[other,aux]", [other, aux]), ("(tuple)", (other,))]:
                b.add("pos" + lab, lambda l=lst: t.coalesce(l), lambda l=lst: coalesce([t, *l]))
            b.add("kw[other]", lambda: t.coalesce(triangles=[other]), lambda: coalesce([t, other]))
            # one-shot iterables: the wrapper unpacks them exactly once
            b.add("pos(generator)", lambda: t.coalesce(x for x in [other, aux]), lambda: coalesce([t, other, aux]))
            b.add("pos(iter)", lambda: t.coalesce(iter([aux, other])), lambda: coalesce([t, aux, other]))
            b.add("pos(map)", lambda: t.coalesce(map(lambda x: x, [other, aux])), lambda: coalesce([t, other, aux]))
        else:
            for lab, args, kwargs in [("pos(src)", (src_,), {}), ("pos(src,[])", (src_, []), {}), ("kw(statics=[])", (src_,), {"statics": []}),
                                      ("pos(src,())", (src_, ()), {}), ("pos(src,fields[:1])", (src_, fields[:1]), {}),
                                      ("kw(statics=fields)", (src_,), {"statics": fields})]:
                b.add(lab, lambda a=args, k=kwargs: t.add_statics(*a, **k), lambda a=args, k=kwargs: add_statics(t, *a, **k))
    elif name == "split":
        from bermuda.utils import split

        keys = sorted({k for m in t.metadata for k in m.details})
        for lab, args, kwargs in [("pos([k])", (keys[:1],), {}), ("pos([])", ([],), {}), ("kw", (), {"detail_keys": keys[:2]}),
                                  ("pos(all)", (keys,), {})]:
            b.add(lab, lambda a=args, k=kwargs: t.split(*a, **k), lambda a=args, k=kwargs: split(t, *a, **k))
    elif name in ("make_right_triangle", "make_right_diagonal"):
        from bermuda.utils import make_right_diagonal, make_right_triangle

        if name == "make_right_triangle":
            for lab, args, kwargs in [("none", (), {}), ("pos([0,12,24])", ([0, 12, 24],), {}), ("pos([0])", ([0],), {}),
                                      ("pos(lags,'month')", ([0.0, 6, 12, 18, 36], "month"), {}),
                                      ("pos(lags,'day')", ([0, 90, 365, 730], "day"), {}),
                                      ("kw(dev_lags=[])", (), {"dev_lags": []}), ("kw(unit=day)", (), {"dev_lags": [0, 400], "dev_lag_unit": "day"})]:
                b.add(lab, lambda a=args, k=kwargs: t.make_right_triangle(*a, **k), lambda a=args, k=kwargs: make_right_triangle(t, *a, **k))
        else:
            last = max(t.evaluation_dates) if len(t) else datetime.date(2020, 12, 31)
            future = [last + datetime.timedelta(days=d) for d in (31, 92)]
            hist = list(t.evaluation_dates[:2])
            for lab, args, kwargs in [("pos(future)", (future,), {}), ("pos([])", ([],), {}), ("pos(hist)", (hist,), {}),
                                      ("pos(hist+future,True)", (hist + future, True), {}),
                                      ("kw(include_historic=True)", (hist + future,), {"include_historic": True}),
                                      ("kw(include_historic=False)", (hist + future,), {"include_historic": False})]:
                b.add(lab, lambda a=args, k=kwargs: t.make_right_diagonal(*a, **k), lambda a=args, k=kwargs: make_right_diagonal(t, *a, **k))
    elif name == "blend":
        from bermuda.utils import blend

        t2 = t.derive_fields(**{f: (lambda c, f=f: c[f] * 2 if not isinstance(c[f], (type(None), bool)) else c[f]) for f in fields[:3]}) if fields else t
        for lab, kwargs in [("linear", {"method": "linear"}), ("linear,weights=[.25,.75]", {"method": "linear", "weights": [0.25, 0.75]}),
                            ("mixture,seed=0", {"method": "mixture", "seed": 0}), ("mixture,seed=7", {"method": "mixture", "seed": 7}),
                            ("mixture,weights,seed=0", {"method": "mixture", "weights": [0.5, 0.5], "seed": 0}),
                            ("default", {}), ("weights=None", {"weights": None}), ("weights=[1,0]", {"weights": [1, 0]}),
                            ("weights=[0,1],mixture,seed=0", {"weights": [0, 1], "method": "mixture", "seed": 0})]:
            b.add(lab, lambda k=kwargs: t.blend([t2], **k), lambda k=kwargs: blend([t, t2], **k),
                  "tag" if lab in ("default", "weights=None") else "same")     # the default method is the unseeded mixture
            if "seed" in kwargs:
                b.add(lab + ":twice", lambda k=kwargs: (t.blend([t2], **k), t.blend([t2], **k))[1], lambda k=kwargs: t.blend([t2], **k))
        b.add("kw(triangles=)", lambda: t.blend(triangles=[t2], method="linear"), lambda: blend([t, t2], method="linear"))
        b.add("empty-list", lambda: t.blend([]), lambda: blend([t]))
        b.add("generator", lambda: t.blend((x for x in [t2]), method="linear"), lambda: blend([t, t2], method="linear"))
        b.add("iter", lambda: t.blend(iter([t2, t]), method="linear", weights=[0.5, 0.25, 0.25]),
              lambda: blend([t, t2, t], method="linear", weights=[0.5, 0.25, 0.25]))
    elif name == "thin":
        from bermuda.utils import thin

        n = t.num_samples
        b.add("pos(k)-unseeded", lambda: t.thin(max(1, n - 1)), lambda: thin(t, max(1, n - 1)), "tag")
        for lab, args, kwargs in [("pos(k,seed)", (max(1, n - 1), 3), {}), ("pos(1,0)", (1, 0), {}),
                                  ("kw(num_samples=,seed=0)", (), {"num_samples": max(1, n // 2), "seed": 0}),
                                  ("pos(n)", (n,), {}), ("pos(n+1)", (n + 1,), {}), ("kw(num_samples=n+1)", (), {"num_samples": n + 1}),
                                  ("pos(100n,seed)", (100 * n + 3, 7), {}), ("pos(n,seed=5)", (n,), {"seed": 5})]:
            b.add(lab, lambda a=args, k=kwargs: t.thin(*a, **k), lambda a=args, k=kwargs: thin(t, *a, **k))
        b.add("k=n-returns-receiver", lambda: t.thin(n) is t, lambda: thin(t, n) is t)
    elif name.startswith("plot_"):
        import bermuda.plot as bp

        fn = getattr(bp, name)
        cases = [("none", (), {})]
        if name == "plot_growth_curve":
            ns = t.num_samples
            cases += [("kw(spaghetti,n_lines=n)", (), {"uncertainty_type": "spaghetti", "n_lines": ns}),
                      ("kw(spaghetti,n_lines=n-1)", (), {"uncertainty_type": "spaghetti", "n_lines": max(1, ns - 1)}),
                      ("kw(ribbon)", (), {"uncertainty_type": "ribbon"})]
        if name in ("plot_right_edge", "plot_heatmap", "plot_growth_curve", "plot_mountain"):
            cases += [("kw(width,height)", (), {"width": 310, "height": 205})]
        for lab, args, kwargs in cases:
            b.add(lab, lambda a=args, k=kwargs: getattr(t, name)(*a, **k), lambda a=args, k=kwargs: fn(t, *a, **k),
                  "tag" if "n_lines=n-1" in lab else "same")      # thinning below the sample count draws unseeded
    elif name.startswith("to_") and ("csv" in name or "data_frame" in name):
        fn = getattr(bio, "triangle_" + name)
        if "csv" in name:
            def wr(form):
                def go():
                    p = scratch(ctx, f"{name}_{form}.csv")
                    (getattr(t, name)(p) if form == "m" else fn(t, p))
                    return open(p).read()
                return go
            b.add("path", wr("m"), wr("f"))
        else:
            b.add("none", lambda: getattr(t, name)(), lambda: fn(t))
            if name == "to_array_data_frame":
                f0 = fields[0] if fields else "paid_loss"
                b.add("pos(field)", lambda: t.to_array_data_frame(f0), lambda: fn(t, f0))
                b.add("kw(field=)", lambda: t.to_array_data_frame(field=f0), lambda: fn(t, field=f0))
    elif name.startswith("from_") and ("csv" in name or "data_frame" in name):
        target = {"from_array_data_frame": "array_data_frame_to_triangle", "from_long_csv": "long_csv_to_triangle",
                  "from_wide_csv": "wide_csv_to_triangle", "from_long_data_frame": "long_data_frame_to_triangle",
                  "from_wide_data_frame": "wide_data_frame_to_triangle"}[name]
        fn = getattr(bio, target)
        lds = sorted({k for m in t.metadata for k in m.loss_details})
        if name == "from_wide_csv":
            def mk():
                p = scratch(ctx, "fw.csv")
                bio.triangle_to_wide_csv(t, p)
                return p
            b.add("path,kw", lambda: Triangle.from_wide_csv(mk(), field_cols=fields, loss_detail_cols=lds),
                  lambda: fn(mk(), field_cols=fields, loss_detail_cols=lds))
            b.add("path,pos(field_cols)", lambda: Triangle.from_wide_csv(mk(), fields), lambda: fn(mk(), fields))
        elif name == "from_long_csv":
            def mk():
                p = scratch(ctx, "fl.csv")
                bio.triangle_to_long_csv(t, p)
                return p
            b.add("path", lambda: Triangle.from_long_csv(mk()), lambda: fn(mk()))
        elif name == "from_wide_data_frame":
            b.add("kw", lambda: Triangle.from_wide_data_frame(bio.triangle_to_wide_data_frame(t), field_cols=fields, loss_detail_cols=lds),
                  lambda: fn(bio.triangle_to_wide_data_frame(t), field_cols=fields, loss_detail_cols=lds))
            b.add("pos(field_cols)", lambda: Triangle.from_wide_data_frame(bio.triangle_to_wide_data_frame(t), fields),
                  lambda: fn(bio.triangle_to_wide_data_frame(t), fields))
        elif name == "from_long_data_frame":
            b.add("none", lambda: Triangle.from_long_data_frame(bio.triangle_to_long_data_frame(t)),
                  lambda: fn(bio.triangle_to_long_data_frame(t)))
        else:
            f0 = fields[0] if fields else "paid_loss"
            b.add("pos(field)", lambda: Triangle.from_array_data_frame(bio.triangle_to_array_data_frame(t, f0), f0),
                  lambda: fn(bio.triangle_to_array_data_frame(t, f0), f0))
            b.add("kw(field=)", lambda: Triangle.from_array_data_frame(bio.triangle_to_array_data_frame(t, f0), field=f0),
                  lambda: fn(bio.triangle_to_array_data_frame(t, f0), field=f0))
    return b


def receivers(ctx, name, g, k):
    """k-th receiver (and an auxiliary triangle) for the battery of `name`: shape suited to the operation."""
    r = g.r
    kw = dict(n_periods=r.randint(1, 3), n_lags=r.randint(1, 3))
    if name in ("thin",) or name.startswith("plot_"):
        kw.update(values=r.choice(["arr_float", "arr_int"]), basis="cum", layout="regular", n_samples=r.choice([3, 5, 8]),
                  n_slices=r.randint(1, 2), fields=["paid_loss", "reported_loss", "earned_premium"])
    elif name == "blend":
        kw.update(values=r.choice(["float", "arr_float", "int"]), n_slices=r.randint(1, 2), layout=r.choice(["regular", "ragged"]))
    elif name in ("aggregate", "summarize", "make_right_triangle", "make_right_diagonal"):
        kw.update(layout=r.choice(["regular", "ragged"]), values=r.choice(["int", "float", "arr_int"]), res=r.choice([1, 3]),
                  fields=["paid_loss", "reported_loss", "earned_premium"][: r.randint(1, 3)])
        if name == "summarize":
            kw.update(fields=["paid_loss", "earned_premium", "earned_exposure"][: r.randint(2, 3)], layout="regular", values=r.choice(["int", "float"]))
            kw.update(n_slices=r.randint(2, 3), slice_diff=r.choice(["per_occurrence_limit", "loss_details", "details"]), basis="cum")
    elif "array_data_frame" in name:
        kw.update(layout="regular", n_slices=1, basis="cum", values="float", res=r.choice([3, 12]))
    elif "csv" in name or "data_frame" in name:
        kw.update(values=r.choice(["float", "int"]), layout=r.choice(["regular", "ragged"]))
    elif name in ("to_incremental", "to_cumulative"):
        kw.update(basis="inc" if (name == "to_cumulative") != (k % 3 == 2) else "cum", layout=r.choice(["regular", "ragged", "holey"]))
    t, info = g.triangle(**kw)
    kw2 = dict(kw)
    kw2["basis"] = info["basis"]
    aux, _ = g.triangle(**kw2)
    return t, aux, info


def run(ctx):
    names = RELEVANT.get(ctx.pid)
    if not names:
        return
    # ---- 1. translator + theorem
    import subprocess
    import sys

    gen = Path(ctx.build) / "GenFactory.v"
    p = subprocess.run([sys.executable, str(ROOT / "translate" / "t_factory.py"), str(REPO)], capture_output=True, text=True)
    ok_t = p.returncode == 0
    ctx.obligation("T-factory: every Triangle.<method> wrapper in bermuda/factory.py has a known shape", ok_t, p.stderr[-800:])
    if ok_t:
        gen.write_text(p.stdout)
        rc, out = ctx.coqc(gen)
        if rc != 0:
            ctx.obligation("GenFactory.v compiles", False, out[-800:])
            ok_t = False
    if ok_t:
        src = (COQ / "GenProps" / "Factory_gen.v").read_text().replace("@NAMES@", "; ".join(f'"{n}"' for n in names))
        pf = Path(ctx.build) / "Factory_gen.v"
        pf.write_text(src)
        ok_t, _ = ctx.prove(pf)
    ctx.assumptions.append("translate/t_factory.py reads the wrapper shapes of bermuda/factory.py faithfully; Python call "
                           "semantics (positional/keyword binding, *args/**kwargs forwarding) as in Model/Factory.v")
    # ---- 2. differential battery (always)
    g = Gen(random.Random(ctx.seed * 9000011 + 17))
    fails = []
    n_recv = 3 if ctx.quick else 12
    for name in names:
        for k in range(n_recv):
            try:
                t, aux, info = receivers(ctx, name, g, k)
            except Exception:  # noqa: BLE001
                continue
            if len(t) == 0:
                continue
            try:
                bat = battery_for(ctx, name, t, g, aux)
            except Exception as ex:  # noqa: BLE001  -- building arguments failed on this receiver (e.g. a refused derive)
                ctx.hist(f"method-form:{name}:battery-not-applicable")
                continue
            for label, m, f, kind in bat.items:
                om, of = outcome(m), outcome(f)
                if kind == "tag":       # unseeded random operation: only "returns / refuses" is comparable
                    om, of = om[:1] + (om[1] if om[0] == "raise" else "",), of[:1] + (of[1] if of[0] == "raise" else "",)
                ctx.count(evaluations=2, traces=1)
                ctx.hist(f"method-form:{name}:{'raise' if of[0] == 'raise' else 'ok'}")
                if len(t) >= 2:
                    ctx.nontriv(("method-form", name, label, ct.canon_tri(t)))
                if om != of:
                    fails.append((name, label, t, aux, om, of, k))
                    break
            if fails and fails[-1][0] == name:
                break
    for name, label, t, aux, om, of, k in fails[:3]:
        def brief(o):
            s = repr(o)
            return s if len(s) < 300 else s[:300] + "..."
        try:
            data = {"kind": "method-form", "method": name, "label": label, "receiver_index": k,
                    "cells": [ct.cell_to_obj(c) for c in t.cells], "aux_cells": [ct.cell_to_obj(c) for c in aux.cells],
                    "method_outcome": brief(om), "function_outcome": brief(of)}
        except Exception:  # noqa: BLE001
            data = {"kind": "method-form", "method": name, "label": label, "method_outcome": brief(om), "function_outcome": brief(of)}
        ctx.violation("impl-violation",
                      f"method form Triangle.{name} [{label}] does not do what the module-level function does on the same "
                      f"receiver and arguments: method -> {brief(om)[:160]} ; function -> {brief(of)[:160]}",
                      data, found_input=True)
    if not ok_t and not fails and not ctx.violations:
        ctx.violation("obligation", "T-factory / Factory_gen.v no longer check and the method-form battery found no difference",
                      {"theorem": "Factory_gen.v:method_forms_wired_as_modelled", "detail": p.stderr[-500:]}, found_input=False)


def replay(ctx, data):
    from bermuda import Triangle

    name, label = data["method"], data["label"]
    if "cells" not in data:
        print("no receiver recorded")
        return 1
    t = Triangle([ct.cell_from_obj(o) for o in data["cells"]])
    aux = Triangle([ct.cell_from_obj(o) for o in data["aux_cells"]])
    g = Gen(random.Random(1))
    bat = battery_for(ctx, name, t, g, aux)
    for lab, m, f, kind in bat.items:
        if lab == label:
            om, of = outcome(m), outcome(f)
            if kind == "tag":
                om, of = om[:1] + (om[1] if om[0] == "raise" else "",), of[:1] + (of[1] if of[0] == "raise" else "",)
            print(f"Triangle.{name} [{label}]: method form -> {repr(om)[:300]}")
            print(f"{' ' * len(name)}           function form -> {repr(of)[:300]}")
            return 0 if om == of else 1
    print("label not found in the battery:", label)
    return 1
