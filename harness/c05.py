"""C05 -- binary (.trib/.tribc) write-then-read returns the identical triangle.

proof      coq/Props/C05.v  (C05_roundtrip under wf + no_0x88_key, C05_roundtrip_refuted = F9,
           dispatch, both flavours with gzip as an oracle)
tie        T-bin (GenBin.v regenerated from /repo, GenProps/C06_bin.v) + correspondence:
           bytes written by the implementation == model `ser`; implementation reading those bytes
           and reader-acceptable variants from the independent encoder == model `parse`
oracles    strict round trip (both flavours, explicit and extension-inferred compression) on every
           generated triangle; F9 probed with directed 137- and 400-key triangles
"""
from __future__ import annotations

import gzip
import random
import time

from harness import bin_common as B
from harness.common import REPO

F9_CLASS = {"kind": "pool_index_low_byte_0x88"}


def gen_cases(ctx, n):
    rng = random.Random(ctx.seed * 1000003 + 5)
    cases = []
    budget = 260_000 if ctx.quick else 1_600_000
    sizes = 0
    forced = [dict(n_slices=0), dict(n_slices=1, kind="Cell"), dict(n_slices=2, kind="CumulativeCell"),
              dict(n_slices=3, kind="IncrementalCell"), dict(n_slices=4), dict(size="big", n_slices=1),
              dict(size="big", n_slices=2, kind="IncrementalCell")] + \
             [dict(n_slices=2, sibling=v) for v in B.SIBLING_VARIANTS] + \
             [dict(n_slices=2, force=("nested",)), dict(n_slices=2, force=("semi", "late")),
              dict(n_slices=3, kind="Cell", force=("farspan",)), dict(n_slices=2, kind="CumulativeCell", force=("farspan",)), dict(n_slices=2, force=("nfc",))]
    i = 0
    while len(cases) < n:
        kw = forced[i] if i < len(forced) else {}
        i += 1
        wt = B.gen_triangle(rng, restate_p=0.15, **kw)
        est = sum(40 + 14 * len(c["values"]) + sum(len(v[3]) // 2 for _, v in c["values"] if v[0] == "arr")
                  for c in wt)
        if sizes + est > budget and i > len(forced):
            # keep the Coq side affordable: only small triangles once the byte budget is spent
            if est > 1500:
                continue
        sizes += est
        cases.append(wt)
    cases.append(B.gen_calendar_triangle(rng, kind="Cell"))
    cases.append(B.gen_calendar_triangle(rng, n=5, kind="IncrementalCell"))
    return cases


def roundtrip_oracle(wt, scratch):
    """Direct oracle on the real implementation.  Returns None or (what, detail)."""
    tri = B.mk_triangle(wt)
    kept = B.canon_triangle(tri)
    if not B.wt_equal(kept, wt, ordered=True):
        return None  # the generator's triangle is not a fixpoint of Triangle(...): not a codec matter
    w = B.safe_write(tri, scratch, compress=False)
    if w[0] != "ok":
        return (f"to_binary raised {w[1]} on a valid triangle", {"flavour": "trib"})
    plain = w[1]
    for explicit in (False, True):
        r = B.impl_read(plain, scratch, compress=False, explicit=explicit)
        if r[0] != "ok":
            return ("reading back an uncompressed file raised " + r[1], {"flavour": "trib", "explicit": explicit})
        if not B.wt_equal(r[1], wt):
            return ("uncompressed round trip changed the triangle: " + B.first_diff(r[1], wt),
                    {"flavour": "trib", "explicit": explicit})
    w = B.safe_write(tri, scratch, compress=True)
    if w[0] != "ok":
        return (f"to_binary(compress=True) raised {w[1]} on a valid triangle", {"flavour": "tribc"})
    comp = w[1]
    try:
        if gzip.decompress(comp) != plain:
            return ("the .tribc file does not decompress to the .trib bytes", {"flavour": "tribc"})
    except Exception as ex:  # noqa: BLE001
        return (f"the .tribc file is not a gzip stream: {type(ex).__name__}", {"flavour": "tribc"})
    for explicit in (False, True):
        r = B.impl_read(comp, scratch, compress=True, explicit=explicit)
        if r[0] != "ok":
            return ("reading back a compressed file raised " + r[1], {"flavour": "tribc", "explicit": explicit})
        if not B.wt_equal(r[1], wt):
            return ("compressed round trip changed the triangle: " + B.first_diff(r[1], wt),
                    {"flavour": "tribc", "explicit": explicit})
    return None


def finding_class_of(wt):
    return F9_CLASS if B.uses_0x88_index(wt) else None


def report_rt_failure(ctx, wt, what, extra, scratch):
    def still(w):
        return roundtrip_oracle(w, scratch) is not None

    small = wt
    if not B.uses_0x88_index(wt):
        try:
            small = B.shrink_wt(wt, still, budget=60)
        except Exception:  # noqa: BLE001
            small = wt
    ctx.violation("impl-violation", what, {"wt": small, **extra}, found_input=True,
                  finding_class=finding_class_of(small))


def variant_streams(rng, wt):
    """Streams a v1 reader must accept although the writer never produces them."""
    out = []
    pool = B.all_keys_sorted(wt)
    shuffled = pool[:]
    rng.shuffle(shuffled)
    out.append(("pool_order", B.ref_encode(wt, pool_order=shuffled)))
    out.append(("always_meta", B.ref_encode(wt, always_meta=True)))
    out.append(("trailer", B.ref_encode(wt, trailer=bytes([rng.choice([0, 1, 0x14, 0x88, 0xFF]), 7, 7]))))
    extra = pool + ["zz_unused_key"]
    out.append(("unused_pool_entry", B.ref_encode(wt, pool_order=extra)))
    return out


def run(ctx):
    B.raise_stack_limit()
    t0 = time.time()
    ctx.rule = ("triangles from harness/bin_common.gen_triangle (seeded): 0-4 slices, three cell classes, "
                "0..136 distinct keys, int/float(incl. nan,inf,-0.0)/bool/None scalars, int64/float64 arrays "
                "0-d..3-d incl. empty, non-ASCII keys/strings, str/bool/int/float/date/None details; "
                "non-trivial = >=2 cells; every case: strict round trip on /repo in both flavours + "
                "write sequences (2-3 triangles sharing Metadata, shifted pool indices, both orders, shared/distinct "
                "objects, both flavours: round trip, layout, equality with a fresh interpreter's bytes) + "
                "ser/parse correspondence in coqc; F9 probed with 137- and 400-key triangles")
    ctx.audit_tree([f for f in B.MY_COQ_FILES if (B.Path("/verif/coq") / f).exists()])
    ok_static, _ = B.prove_static_local(ctx, "Props/C05.v")
    ok_tbin, tbin_diff = B.tbin_obligations(ctx)

    scratch = B.Scratch(ctx.build)
    try:
        n = 140 if ctx.quick else 900
        cases = gen_cases(ctx, n)
        ctx.log(f"generated {len(cases)} triangles in {time.time()-t0:.1f}s")
        rng = random.Random(ctx.seed + 77)

        # ---- direct oracle on every case + material for the Coq side
        records = []
        n_fail = 0
        for i, wt in enumerate(cases):
            s = B.wt_summary(wt)
            ctx.hist(f"slices={s['slices']}")
            ctx.hist(f"kind={'/'.join(s['kinds']) or 'empty'}")
            ctx.hist("keys=" + ("0" if s["keys"] == 0 else "1-8" if s["keys"] <= 8 else "9-60" if s["keys"] <= 60 else "61-136"))
            for vt in s["value_types"]:
                ctx.hist(f"value:{vt}")
            for dt in s["detail_types"]:
                ctx.hist(f"detail:{dt}")
            if len(wt) >= 2:
                ctx.nontriv(repr(wt))
            bad = roundtrip_oracle(wt, scratch)
            ctx.count(evaluations=4, traces=1)
            if bad is not None:
                n_fail += 1
                if n_fail <= 3:
                    report_rt_failure(ctx, wt, bad[0], bad[1], scratch)
            if bad is None and i % 7 == 3:
                bad = B.odd_extension_oracle(wt, scratch)   # explicit compress=True/False, odd extensions (F26)
                ctx.hist("explicit_compress_odd_extension")
                ctx.count(evaluations=5)
                if bad is not None:
                    ctx.violation("impl-violation", bad[0], {"wt": wt, **bad[1]}, found_input=True)
            if bad is None and i % 6 == 0:
                bad = B.coords_oracle(wt, scratch)      # datetime / Timestamp coordinates (family D)
                ctx.hist("datetime_coordinates")
                if bad is not None:
                    ctx.violation("impl-violation", bad[0], {"wt": wt, **bad[1]}, found_input=True)
            if bad is not None:
                continue
            tri = B.mk_triangle(wt)
            b = B.impl_write(tri, scratch)
            rb = B.impl_read(b, scratch)
            variants = []
            if i % 4 == 0 and wt:
                for name, vb in variant_streams(rng, wt):
                    variants.append((name, vb, B.impl_read_stream(vb)))
            records.append((wt, b, rb, variants))
            if i < 3 and wt:
                ctx.sample({"summary": s, "bytes": len(b), "first_cell": wt[0]})

        # ---- write sequences: several triangles written back to back in this process
        n_seq = 6 if ctx.quick else 40
        seqs = [B.gen_write_sequence(rng) for _ in range(n_seq)]
        fresh_all = B.fresh_bytes([wt for sq in seqs for wt in sq])
        pos = 0
        n_seq_bad = 0
        for sq in seqs:
            fresh = fresh_all[pos:pos + len(sq)]
            pos += len(sq)
            bad = B.sequence_oracle(sq, scratch, fresh=fresh)
            ctx.hist("write_sequence")
            ctx.count(evaluations=8 * len(sq), traces=len(sq))
            ctx.nontriv(("seq", repr(sq)))
            if bad is not None:
                n_seq_bad += 1
                if n_seq_bad <= 2:
                    ctx.violation("impl-violation", bad[0], {"sequence": sq, **bad[1]}, found_input=True)
            for wt in sq:  # the model's ser must give each file of the sequence, too
                tri = B.mk_triangle(wt)
                b = B.impl_write(tri, scratch)
                records.append((wt, b, B.impl_read(b, scratch), []))

        # ---- refusals and boundaries (families G, L)
        for what, det in B.boundary_oracle(scratch)[:3]:
            ctx.violation("impl-violation", what, det, found_input=True)
        ctx.hist("boundary_battery")
        ctx.count(evaluations=16)

        # ---- path reuse through the public Triangle.from_binary: a load must reflect the disk
        n_pairs = 4 if ctx.quick else 20
        for k in range(n_pairs):
            pa, pb = B.gen_reuse_pair(rng)
            for compress in (False, True):
                cuts = sorted(set([0, 4, 5, 7] + [rng.randrange(400) for _ in range(25)]))
                bad = B.path_reuse_oracle(pa, pb, scratch, compress=compress, cuts=cuts)
                ctx.hist("path_reuse")
                ctx.count(evaluations=len(cuts) + 3, traces=1)
                if bad is not None and k < 2:
                    ctx.violation("impl-violation", bad[0], {"pair": [pa, pb], **bad[1]}, found_input=True)

        # ---- triangles produced by replace / select / derive_fields, then saved
        multi = [wt for wt, _, _, _ in records if len({repr(c["meta"]) for c in wt}) >= 2 and 3 <= len(wt) <= 40]
        n_der = 0
        for wt in multi[: (5 if ctx.quick else 30)]:
            for op in ("relabel", "restate"):
                bad = B.derived_oracle(wt, scratch, rng, op)
                ctx.hist("derived:" + op)
                ctx.count(evaluations=len(wt) + 10, traces=1)
                if bad is not None:
                    n_der += 1
                    if n_der <= 2:
                        ctx.violation("impl-violation", bad[0], bad[1], found_input=True)

        # ---- LARGE stream (family Q), Python-side oracles only
        early = next(((wt, b) for wt, b, _, _ in records if wt), None)
        B.run_large_stream(ctx, scratch, "c05", early=early)

        # ---- F9 probes (known finding): directed triangles with >= 137 distinct keys
        for nk in (137, 400):
            f9 = B.canon_triangle(B.mk_triangle(B.gen_f9_triangle(nk)))
            bad = roundtrip_oracle(f9, scratch)
            ctx.count(evaluations=4)
            ctx.hist("f9_probe")
            if bad is not None:
                ctx.violation("impl-violation", f"{nk} distinct keys: {bad[0]}",
                              {"wt": f9, **bad[1]}, found_input=True, finding_class=F9_CLASS)
            else:
                ctx.notes.append(f"F9 probe with {nk} keys round-trips: the known finding no longer reproduces")

        # ---- Coq correspondence
        per_file = 18 if ctx.quick else 40
        files = []
        index = []
        for fi in range(0, len(records), per_file):
            chunk = records[fi:fi + per_file]
            lines = [B.COQ_HEADER]
            ser_chk, parse_chk, hyp_chk, var_chk = [], [], [], []
            for j, (wt, b, rb, variants) in enumerate(chunk):
                gi = fi + j
                if not B.wt_in_model_domain(wt):
                    continue
                lines.append(B.coq_triangle_defs(f"t{gi}", wt))
                lines.append(f"Definition b{gi} : bytes := {B.coq_zlist(b)}.")
                ser_chk.append((gi, f"zlist_eqb (ser_py t{gi}) b{gi} && zlist_eqb (ser t{gi}) b{gi}"))
                hyp_chk.append((gi, f"wfb t{gi} && no_0x88_keyb t{gi} && coherentb t{gi} && pyeq_reflb t{gi}"))
                cr = B.coq_result(rb)
                if cr is not None:
                    lines.append(f"Definition r{gi} : result (list cell) := {cr}.")
                    parse_chk.append((gi, f"result_eqb (parse b{gi}) r{gi}"))
                for vi, (name, vb, vr) in enumerate(variants):
                    cr = B.coq_result(vr)
                    if cr is None:
                        continue
                    lines.append(f"Definition v{gi}_{vi} : bytes := {B.coq_zlist(vb)}.")
                    lines.append(f"Definition w{gi}_{vi} : result (list cell) := {cr}.")
                    var_chk.append(((gi, name), f"result_eqb (parse v{gi}_{vi}) w{gi}_{vi}"))
            for nm, chk in (("ser", ser_chk), ("parse", parse_chk), ("hyp", hyp_chk), ("var", var_chk)):
                lines.append(f"Definition chk_{nm} : list bool := [" + ";\n ".join(c for _, c in chk) + "].")
                lines.append(f"Eval vm_compute in failing 0 chk_{nm}.")
            p = ctx.build / f"cases_{fi // per_file}.v"
            p.write_text("\n".join(lines) + "\n")
            files.append(p)
            index.append((ser_chk, parse_chk, hyp_chk, var_chk))
        # ---- directed: ==-equal but non-identical adjacent metadata (writer's `!=` is Python's ==).
        # The implementation collapses them to the first representation; the model (ser_py / rep_py,
        # theorem C05_roundtrip_up_to_pyeq) must predict bytes and read-back exactly.
        n_col = 24 if ctx.quick else 150
        col_records = []
        lines = [B.COQ_HEADER]
        col_chk = []
        for k in range(n_col):
            wt = B.gen_collapse_triangle(rng)
            tri = B.mk_triangle(wt)
            b = B.impl_write(tri, scratch)
            rb = B.impl_read(b, scratch)
            col_records.append((wt, b, rb))
            ctx.hist("pyeq_collapse_probe")
            ctx.count(evaluations=2, traces=1)
            cr = B.coq_result(rb)
            lines.append(B.coq_triangle_defs(f"c{k}", wt))
            lines.append(f"Definition cb{k} : bytes := {B.coq_zlist(b)}.")
            lines.append(f"Definition cr{k} : result (list cell) := {cr or '(RErr EFuel)'}.")
            col_chk.append(f"zlist_eqb (ser_py c{k}) cb{k} && result_eqb (parse cb{k}) cr{k} && "
                           f"result_eqb cr{k} (ROk (rep_py c{k})) && wfb c{k} && no_0x88_keyb c{k}")
        lines.append("Definition chk_col : list bool := [" + ";\n ".join(col_chk) + "].")
        lines.append("Eval vm_compute in failing 0 chk_col.")
        lines.append("Eval vm_compute in failing 0 (map negb [" + "; ".join(f"coherentb c{k}" for k in range(n_col)) + "]).")
        pcol = ctx.build / "cases_collapse.v"
        pcol.write_text("\n".join(lines) + "\n")
        t1 = time.time()
        res = B.coqc_many_retry(ctx, files + [pcol], jobs=16, timeout=1500)
        rc, out = res.pop(pcol)
        vals = B_parse(out) if rc == 0 else []
        ok_col = rc == 0 and len(vals) == 2
        ctx.obligation("cases_collapse.v evaluates", ok_col, "" if ok_col else out[-800:])
        if ok_col:
            ctx.count(evaluations=3 * n_col, traces=n_col)
            n_really = n_col - len(vals[1])
            ctx.notes.append(f"{n_really} of {n_col} directed triangles with ==-equal, non-identical adjacent metadata are "
                             "collapsed by the implementation to the first representation, exactly as ser_py/rep_py predict "
                             "(minor finding reported to the lead; not a check failure)")
            for k in vals[0][:3]:
                wt, b, rb = col_records[k]
                ctx.violation("correspondence",
                              "==-equal adjacent metadata: implementation bytes / read-back differ from the model's "
                              "ser_py / rep_py", {"wt": wt, "check": "collapse", "impl_bytes": b.hex()[:8000],
                                                  "impl_outcome": rb if rb[0] == "err" else ["ok", len(rb[1])]},
                              found_input=False)
        ctx.log(f"coqc on {len(files)} case files: {time.time()-t1:.1f}s")
        n_eval = 0
        mismatches = []
        for p, idx in zip(files, index):
            rc, out = res[p]
            if rc != 0:
                ctx.obligation(f"{p.name} evaluates", False, out)
                continue
            vals = B_parse(out)
            if len(vals) != 4:
                ctx.obligation(f"{p.name} evaluates", False, "unexpected coqc output:\n" + out[-800:])
                continue
            for nm, chk, v in zip(("ser", "parse", "hyp", "var"), idx, vals):
                n_eval += len(chk)
                for k in v:
                    mismatches.append((nm, chk[k][0]))
        ctx.count(evaluations=n_eval, traces=n_eval)
        ctx.obligation("correspondence case files evaluate", all(res[p][0] == 0 for p in files))
        for nm, key in mismatches[:3]:
            gi = key[0] if isinstance(key, tuple) else key
            wt, b, rb, variants = records[gi]
            what = {"ser": "bytes written by the implementation differ from the model's ser",
                    "parse": "implementation reading its own bytes differs from the model's parse",
                    "hyp": "generated triangle falls outside the theorem's hypotheses (wf / no_0x88_key)",
                    "var": f"implementation reading a reader-acceptable variant stream ({key[1] if isinstance(key, tuple) else ''}) differs from the model's parse"}[nm]
            data = {"wt": wt, "check": nm, "impl_bytes": b.hex() if len(b) < 6000 else b[:6000].hex() + "..."}
            if nm == "var":
                for name, vb, vr in variants:
                    if name == key[1]:
                        data["variant"] = name
                        data["variant_bytes"] = vb.hex()
                        data["impl_outcome"] = vr if vr[0] == "err" else ["ok", len(vr[1])]
            ctx.violation("correspondence", what, data, found_input=False)

        # ---- obligations broken but nothing found: say so with the diff
        if not ok_tbin and not ctx.violations:
            ctx.violation("obligation", "T-bin obligations (v1_constants / layout_matches_model) no longer hold; "
                          "round-trip oracle found no failing input", {"tbin_diff": tbin_diff}, found_input=False)
        ctx.extra["tbin_diff"] = tbin_diff
        if not ctx.quick:
            ctx.coqchk("Bermuda.Props.C05")
        ctx.assumptions += [
            "writer's metadata test: Python == modelled at wire level (meta_pyeqb: numbers by value, nan != nan, dicts as "
            "item sets); generated detail floats are NaN-free (identity shortcut on shared objects not modelled); "
            "coherentb is evaluated on every regular case, collapse cases are compared with rep_py",
            "gzip/zlib: decompress(compress(b)) = b (monitored on every case)",
            "strings as opaque UTF-8 byte lists; floats as opaque 8-byte patterns; array payloads as raw bytes",
            "the final Triangle(cells) of _read_triangle is outside the model (checked by the strict round-trip oracle)",
        ]
    finally:
        scratch.cleanup()


def B_parse(out):
    """Values of the `Eval vm_compute in failing ...` commands as lists of ints."""
    from harness.common import parse_coq_eval

    vals = []
    for v in parse_coq_eval(out):
        v = v.strip()
        if not (v.startswith("[") and v.endswith("]")):
            continue
        inner = v[1:-1].strip()
        vals.append([int(x) for x in inner.split(";")] if inner else [])
    return vals


def replay(ctx, data):
    scratch = B.Scratch(ctx.build)
    try:
        if data.get("check") == "derived":
            import random as _r
            bad = B.derived_oracle(data["wt"], scratch, _r.Random(1), data["derive"])
            print("replay:", "PROPERTY FAILS: " + bad[0] if bad else "holds")
            return 1 if bad else 0
        if "large_params" in data:
            return B.replay_large(data, scratch)
        if "boundary" in data:
            bad = [b for b in B.boundary_oracle(scratch) if b[1].get("boundary") == data["boundary"]]
            print(f"replaying boundary case {data['boundary']} on {REPO}:", "PROPERTY FAILS: " + bad[0][0] if bad else "holds")
            return 1 if bad else 0
        if data.get("check") == "odd_ext":
            bad = B.odd_extension_oracle(data["wt"], scratch)
            print("replaying explicit compress with odd extensions:", "PROPERTY FAILS: " + bad[0] if bad else "holds")
            return 1 if bad else 0
        if data.get("check") == "coords":
            bad = B.coords_oracle(data["wt"], scratch)
            print("replaying datetime/Timestamp coordinates:", "PROPERTY FAILS: " + bad[0] if bad else "holds")
            return 1 if bad else 0
        if "pair" in data:
            print(f"replaying a path-reuse sequence on {REPO}")
            return B.replay_reuse(data, scratch)
        if "sequence" in data:
            sq = data["sequence"]
            print(f"replaying a write sequence of {len(sq)} triangles on {REPO} (order {data.get('order')}, "
                  f"shared objects {data.get('share')}, compressed {data.get('compress')})")
            bad = B.sequence_oracle(sq, scratch, orders=[data["order"]] if "order" in data else None)
            if bad is None:
                print("every file of the sequence round-trips, is the layout of its triangle and equals a fresh write")
                return 0
            print("PROPERTY FAILS:", bad[0], bad[1])
            return 1
        wt = data.get("wt")
        if wt is None:
            print("replay: no input recorded (obligation-level failure):", data.get("what"))
            print(data.get("tbin_diff", ""))
            return 1
        print(f"replaying on {REPO}: {B.wt_summary(wt)}")
        bad = roundtrip_oracle(wt, scratch)
        if bad is None:
            print("round trip is exact in both flavours: property holds on this input")
            return 0
        print("PROPERTY FAILS:", bad[0], bad[1])
        return 1
    finally:
        scratch.cleanup()
