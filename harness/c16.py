"""C16 -- blending (bermuda/utils/summarize.py: blend, blend_cells, blend_samples, _linear_blend,
_mixture_blend).

proof      coq/Props/C16.v over the exact-rational model coq/Model/Blend.v: per-coordinate
           decomposition, structure (headers of the first triangle, field sets), weight normalisation
           (None/list/dict global/dict per cell), linear value = weighted sum, convex bounds, equal
           inputs, mixture membership for EVERY index oracle, scalar pass-through, refusals.
tie        correspondence: the model is evaluated inside coqc on the same generated inputs, with the
           recorded np.random.choice draws and the recorded set-iteration order as oracles, and compared
           with the implementation's result (exact for dyadic weights, 1e-9 relative otherwise).
oracles    Python-side direct checks on every case (structure, weighted sum with Fractions, convex
           bounds, equal inputs, mixture membership, pass-through, refusal, seed determinism, F14 probe).
NOT proved "reproducible for a seed" and "follows the weights" are properties of NumPy's generator: only
           monitored (same seed twice => identical result; same (seed, p, S) => same index vector for
           every field of every cell).
"""
from __future__ import annotations

import datetime
import random
import re
import sys
import warnings
from fractions import Fraction

import numpy as np

from harness.common import COQ, audit_coq_sources, coq_comment_strip, parse_coq_eval, parse_print_assumptions, sh
from harness.coqterm import NotRepresentable, cdate, cerr, ckind, cmeta, copt, cstr, ccell, zlit
from harness.gen import Gen

D = datetime.date
TOL = Fraction(1, 10**9)

HEADER = """From Coq Require Import ZArith QArith List Bool.
From Bermuda Require Import Model.Base Model.Blend.
Import ListNotations.
Local Open Scope Z_scope.
"""


# ------------------------------------------------------------------------------------------------
def blend_translation(ctx):
    """T-blend: regenerate the description of summarize.py's blend functions (build/<ID>/GenBlend.v), compute the side
    condition blend_spec_ok for it and instantiate the generic theorems (coq/GenProps/C16_gen.v).
    Returns None, or a dict describing why the tie failed (the caller reports it after its searches)."""
    import difflib
    import shutil

    from harness.common import REPO
    from translate import t_blend

    ctx.audit_tree(["Model/BlendDesc.v", "Proofs/BlendDescP.v", "GenProps/C16_gen.v"])
    name = "T-blend translation of bermuda/utils/summarize.py (blend, blend_cells, blend_samples, _linear_blend, _mixture_blend)"
    try:
        gen = t_blend.translate(REPO)
        ctx.obligation(name, True)
    except Exception as ex:  # noqa: BLE001  -- fail closed: any unrecognised shape is a failed obligation
        ctx.obligation(name, False, repr(ex))
        ctx.log(f"T-blend failed closed: {ex!r}")
        return {"what": f"the translator does not recognise the source: {ex!r}"[:400], "mode": "t-blend", "case": None}
    (ctx.build / "GenBlend.v").write_text(gen)
    rc, out = ctx.coqc(ctx.build / "GenBlend.v", timeout=120)
    ctx.obligation("GenBlend.v compiles", rc == 0, out)
    if rc != 0:
        return {"what": "the generated description does not compile", "mode": "t-blend", "coqc": out[-600:], "case": None}
    shutil.copy(COQ / "GenProps" / "C16_gen.v", ctx.build / "C16_gen.v")
    ok, out = ctx.prove(ctx.build / "C16_gen.v", timeout=300)
    if ok:
        return None
    exp = COQ / "GenExpected" / "GenBlend.v"
    diff = []
    if exp.exists():
        diff = [ln for ln in difflib.unified_diff(exp.read_text().splitlines(), gen.splitlines(), "expected", "generated",
                                                  lineterm="", n=0)][:40]
    ctx.log("description of the blend source differs from the one the theorems need:\n" + "\n".join(diff))
    return {"what": "blend_spec_ok is false for the description extracted from summarize.py (or an instantiation fails)",
            "mode": "t-blend", "description_diff": diff, "coqc": out[-600:], "case": None}


def prove_static_local(ctx, rel, timeout=900):
    """Re-check a static property file; the .vo goes to build/<pid>/ (same base name, as coqc requires)."""
    src = COQ / rel
    txt = coq_comment_strip(src.read_text())
    names = re.findall(r"^\s*(?:Theorem|Corollary)\s+([A-Za-z0-9_']+)", txt, re.M)
    probs = audit_coq_sources([src])
    out_vo = ctx.build / (src.stem + ".vo")
    cmd = ["coqc", "-q", "-Q", str(COQ), "Bermuda", "-o", str(out_vo), str(src)]
    ctx.checker_cmds.append(" ".join(cmd))
    rc, out = sh(cmd, timeout=timeout, cwd=ctx.build)
    ok = rc == 0 and not probs
    assum = parse_print_assumptions(out, re.findall(r"Print\s+Assumptions\s+([A-Za-z0-9_'.]+)\s*\.", txt))
    for n in names:
        ctx.obligation(f"{src.name}:{n}", ok, "" if ok else out[-1200:] + "\n".join(probs), assum.get(n))
    if not ok:
        ctx.log(f"static property file {rel} FAILED:\n{out[-1500:]}" + "\n".join(probs))
    return ok, out


def smod():
    import bermuda  # noqa: F401

    return sys.modules["bermuda.utils.summarize"]


# ------------------------------------------------------------------------------------------------
# JSON exchange format for triangles (replays)
def val_to_json(v):
    if v is None:
        return {"k": "none"}
    if isinstance(v, np.ndarray):
        if v.dtype.kind == "f":
            return {"k": "arr_float", "v": [float(x).hex() for x in v.tolist()]}
        return {"k": "arr_int", "v": [int(x) for x in v.tolist()]}
    if isinstance(v, (bool, np.bool_)):
        return {"k": "bool", "v": bool(v)}
    if isinstance(v, (int, np.integer)):
        return {"k": "int", "v": int(v)}
    return {"k": "float", "v": float(v).hex()}


def val_from_json(j):
    k = j["k"]
    if k == "none":
        return None
    if k == "arr_float":
        return np.array([float.fromhex(x) for x in j["v"]], dtype=np.float64)
    if k == "arr_int":
        return np.array(j["v"], dtype=np.int64)
    if k == "float":
        return float.fromhex(j["v"])
    return j["v"]


def mv_to_json(v):
    if isinstance(v, datetime.date):
        return {"date": v.isoformat()}
    return v


def mv_from_json(v):
    if isinstance(v, dict) and "date" in v:
        return D.fromisoformat(v["date"])
    return v


def meta_to_json(m):
    return {"risk_basis": m.risk_basis, "country": m.country, "currency": m.currency,
            "reinsurance_basis": m.reinsurance_basis, "loss_definition": m.loss_definition,
            "per_occurrence_limit": m.per_occurrence_limit,
            "details": {k: mv_to_json(v) for k, v in m.details.items()},
            "loss_details": {k: mv_to_json(v) for k, v in m.loss_details.items()}}


def meta_from_json(j):
    from bermuda import Metadata

    j = dict(j)
    j["details"] = {k: mv_from_json(v) for k, v in j["details"].items()}
    j["loss_details"] = {k: mv_from_json(v) for k, v in j["loss_details"].items()}
    return Metadata(**j)


def _iso(d):
    return d.date().isoformat() if isinstance(d, datetime.datetime) else d.isoformat()


def as_date_kind(d, kind):
    """a date as the caller might hand it to the Cell constructor"""
    if kind == "timestamp":
        import pandas as pd

        return pd.Timestamp(d)
    if kind == "datetime":
        return datetime.datetime(d.year, d.month, d.day, 13, 45)
    return d


def cell_to_json(c):
    prev = getattr(c, "prev_evaluation_date", None) if type(c).__name__ == "IncrementalCell" else None
    return {"cls": type(c).__name__, "ps": _iso(c.period_start), "pe": _iso(c.period_end),
            "ev": _iso(c.evaluation_date), "prev": _iso(prev) if prev else None,
            "meta": meta_to_json(c.metadata), "values": [[k, val_to_json(v)] for k, v in c.values.items()]}


def cell_from_json(j, date_kind="date"):
    import bermuda

    cls = getattr(bermuda, j["cls"])
    kw = dict(period_start=as_date_kind(D.fromisoformat(j["ps"]), date_kind),
              period_end=as_date_kind(D.fromisoformat(j["pe"]), date_kind),
              evaluation_date=as_date_kind(D.fromisoformat(j["ev"]), date_kind), metadata=meta_from_json(j["meta"]),
              values={k: val_from_json(v) for k, v in j["values"]})
    if j["cls"] == "IncrementalCell":
        kw["prev_evaluation_date"] = D.fromisoformat(j["prev"])
    return cls(**kw)


def tri_to_json(t):
    return [cell_to_json(c) for c in t.cells]


def tri_from_json(j, date_kind="date"):
    from bermuda import Triangle

    with warnings.catch_warnings():
        warnings.simplefilter("ignore")
        return Triangle([cell_from_json(c, date_kind) for c in j])


def w_to_json(w):
    if w is None:
        return {"form": "none"}
    if isinstance(w, list):
        return {"form": "list", "v": [val_to_json(x) for x in w]}
    if isinstance(w, tuple):
        return {"form": "tuple", "v": [val_to_json(x) for x in w]}
    if isinstance(w, dict):
        return {"form": "dict", "v": [[k, val_to_json(np.asarray(v, dtype=float)) if not np.isscalar(v)
                                      else val_to_json(v)] for k, v in w.items()]}
    raise ValueError(type(w))


def w_from_json(j):
    f = j["form"]
    if f == "none":
        return None
    if f == "list":
        return [val_from_json(x) for x in j["v"]]
    if f == "tuple":
        return tuple(val_from_json(x) for x in j["v"])
    return {k: val_from_json(v) for k, v in j["v"]}


# ------------------------------------------------------------------------------------------------
# Coq printing
def cq(x) -> str:
    fr = Fraction(x)
    return f"(Qmake {zlit(fr.numerator)} {fr.denominator})"


def cqlist(xs) -> str:
    return "[" + ";".join(cq(x) for x in xs) + "]"


def chdr(c) -> str:
    prev = getattr(c, "prev_evaluation_date", None) if type(c).__name__ == "IncrementalCell" else None
    return (f"(mkCell {ckind(c)} {cdate(c.period_start)} {cdate(c.period_end)} {cdate(c.evaluation_date)} "
            f"{copt(prev, cdate)} {cmeta(c.metadata)} [])")


def ccell_m(c, m) -> str:
    from harness.coqterm import cdict, cvalue

    prev = getattr(c, "prev_evaluation_date", None) if type(c).__name__ == "IncrementalCell" else None
    return (f"(mkCell {ckind(c)} {cdate(c.period_start)} {cdate(c.period_end)} {cdate(c.evaluation_date)} "
            f"{copt(prev, cdate)} {cmeta(m)} {cdict(c.values, cvalue)})")


def cqval(v) -> str:
    if isinstance(v, np.ndarray):
        if v.ndim != 1 or v.dtype != np.float64 or not np.all(np.isfinite(v)):
            return "QOther"
        return f"(QArr {cqlist(float(x) for x in v.tolist())})"
    if v is None or isinstance(v, (bool, np.bool_)) or not isinstance(v, (int, float)):
        return "QOther"
    from harness.coqterm import cvalue

    if isinstance(v, (np.integer, np.floating)):
        return "QOther"   # the model passes the original Python scalar through, never a NumPy scalar
    try:
        return f"(QKeep {cvalue(v)})"
    except NotRepresentable:
        return "QOther"


def chdr_m(c, m) -> str:
    prev = getattr(c, "prev_evaluation_date", None) if type(c).__name__ == "IncrementalCell" else None
    return (f"(mkCell {ckind(c)} {cdate(c.period_start)} {cdate(c.period_end)} {cdate(c.evaluation_date)} "
            f"{copt(prev, cdate)} {cmeta(m)} [])")


def cqcell(c, rep=None) -> str:
    m = rep.get(meta_key(c.metadata), c.metadata) if rep else c.metadata
    return f"(mkQCell {chdr_m(c, m)} [" + ";".join(f"({cstr(k)},{cqval(v)})" for k, v in c.values.items()) + "])"


def cweights(w) -> str:
    if w is None:
        return "WNone"
    if isinstance(w, list):
        return f"(WList {cqlist(w)})"
    if isinstance(w, dict):
        rows = []
        for v in w.values():
            a = np.atleast_2d(v)
            if a.shape[0] != 1:
                raise NotRepresentable("2-d dict weight")
            rows.append(cqlist(float(x) for x in a[0].tolist()))
        return "(WDict [" + ";".join(rows) + "])"
    return "WOther"


def cmethod(m: str) -> str:
    return {"mixture": "MMixture", "linear": "MLinear"}.get(m.lower(), "MBad")


# ------------------------------------------------------------------------------------------------
class Recorder:
    """Observe, from outside, the index vectors drawn by np.random.choice inside _mixture_blend and the
    cell / field they belong to.  Nothing in /repo is touched."""

    def __init__(self):
        self.S = smod()
        self.draws = []      # (cell index, field, [indices], key) in call order
        self.i = -1
        self.cur = None
        self._last = None

    def __enter__(self):
        S = self.S
        self.o_bc, self.o_mb, self.o_ch = S.blend_cells, S._mixture_blend, np.random.choice

        def bc(cells, *a, **k):
            self.i += 1
            self.cur = cells
            return self.o_bc(cells, *a, **k)

        def mb(values, weights=None, seed=None, *a, **k):
            self._last = None
            field = None
            if self.cur:
                for f, v in self.cur[0].values.items():
                    if v is values[0]:
                        field = f
                        break
            try:
                return self.o_mb(values, weights, seed, *a, **k)
            finally:
                if self._last is not None:
                    key = (tuple(float(x) for x in np.asarray(weights).tolist()), len(self._last))
                    self.draws.append((self.i, field, self._last, key))

        def ch(*a, **k):
            r = self.o_ch(*a, **k)
            self._last = [int(x) for x in np.asarray(r).reshape(-1).tolist()]
            return r

        S.blend_cells, S._mixture_blend, np.random.choice = bc, mb, ch
        return self

    def __exit__(self, *exc):
        S = self.S
        S.blend_cells, S._mixture_blend, np.random.choice = self.o_bc, self.o_mb, self.o_ch
        return False


def run_impl(tris, weights, method, seed):
    """-> (('ok', Triangle) | ('err', exception), recorder)"""
    S = smod()
    with warnings.catch_warnings():
        warnings.simplefilter("ignore")
        with Recorder() as rec:
            try:
                if (len(tris) + (seed or 0)) % 2:       # K: positional and keyword spellings of the same call
                    out = S.blend(list(tris), weights, method, seed)
                else:
                    out = S.blend(triangles=list(tris), seed=seed, method=method, weights=weights)
                return ("ok", out), rec
            except Exception as ex:  # noqa: BLE001
                return ("err", ex), rec


# ------------------------------------------------------------------------------------------------
# generation
DY_CONVEX = {1: [[1.0]],
             2: [[0.5, 0.5], [0.25, 0.75], [0.875, 0.125], [1.0, 0.0], [0.0, 1.0]],
             3: [[0.5, 0.25, 0.25], [0.125, 0.125, 0.75], [0.0, 0.5, 0.5], [0.25, 0.0, 0.75]],
             4: [[0.25, 0.25, 0.25, 0.25], [0.5, 0.125, 0.125, 0.25], [0.0, 0.0, 0.5, 0.5], [0.625, 0.125, 0.0, 0.25]]}


def convex_weights(r, M, dyadic):
    if dyadic:
        w = list(r.choice(DY_CONVEX[M]))
        r.shuffle(w)
        return w
    raw = [r.randint(1, 9) for _ in range(M)]
    s = sum(raw)
    w = [x / s for x in raw]
    return w


def any_weights(r, M):
    """not necessarily convex (linear blending accepts any weights); dyadic"""
    return [r.choice([-0.5, 0.25, 0.5, 1.0, 1.5, 2.0, 0.0, 0.125]) for _ in range(M)]


class CaseGen:
    def __init__(self, seed):
        self.r = random.Random(seed)
        self.g = Gen(self.r)

    def base_cells(self, want_samples=None):
        r = self.r
        layout = r.choice(["regular", "ragged", "holey", "irregular", "single_period", "single_lag"])
        values = want_samples or r.choice(["int", "float", "arr_int", "arr_float", "mixed", "mixed"])
        n_slices = r.choice([1, 1, 2, 3])
        for _ in range(50):
            cells, info = self.g.cells(layout=layout, basis=r.choice(["cum", "cum", "inc"]), n_slices=n_slices,
                                       values=values, n_periods=r.randint(1, 3), n_lags=r.randint(1, 3),
                                       cls=r.choice([None, None, _cell_cls()]), same_fields=r.random() < 0.8)
            if 1 <= len(cells) <= 14:
                return cells, info
        return cells[:6], info

    def revalue(self, cells, method, vary_kind):
        """a coordinate-identical copy with fresh values of the same kind per field (scalars are kept under
        mixture so that they pass through; under linear a field may switch between scalar and samples)"""
        r = self.r
        out = []
        for c in cells:
            vals = {}
            for f, v in c.values.items():
                if isinstance(v, np.ndarray):
                    if method == "linear" and vary_kind and r.random() < 0.3:
                        vals[f] = self.g.num(r.choice(["int", "float"]))
                    else:
                        k = "float" if v.dtype.kind == "f" or r.random() < 0.3 else "int"
                        vals[f] = np.array([self.g.num(k) for _ in range(len(v))],
                                           dtype=np.float64 if k == "float" else np.int64)
                else:
                    if method == "mixture":
                        vals[f] = v
                    elif vary_kind and r.random() < 0.2:
                        vals[f] = np.array([self.g.num("float") for _ in range(3)], dtype=np.float64)
                    else:
                        vals[f] = self.g.num("float" if isinstance(v, float) else "int")
            out.append(c.replace(values=vals))
        return out

    def weights(self, M, n_cells, method, form=None):
        r = self.r
        form = form or r.choice(["none", "list", "list", "dict_global", "dict_cell", "dict_cell"])
        dy = r.random() < 0.7
        if form == "none":
            return None, "none"
        if form == "list":
            if method == "linear" and r.random() < 0.4:
                return any_weights(r, M), "list-any"
            return convex_weights(r, M, dy), "list-convex" + ("" if dy else "-nondyadic")
        # dict keys are only labels: the code pairs the VALUES with the triangles positionally (insertion order).
        # Use names whose insertion order differs from their sorted order (half of the time exactly reversed).
        pool = ["paid", "incurred", "bf", "reported", "zeta", "alpha", "m1", "m0", "Tri", "_x"]
        names = r.sample(pool, M)
        if r.random() < 0.5:
            names = sorted(names, reverse=True)
        if form == "dict_global":
            w = convex_weights(r, M, dy)
            for _ in range(20):
                if M == 1 or len(set(w)) == M:
                    break
                w = convex_weights(r, M, dy and M < 4)     # pairwise different entries (asymmetric)
            if r.random() < 0.5:
                return {n: x for n, x in zip(names, w)}, "dict-global-scalar"
            return {n: np.array([x]) for n, x in zip(names, w)}, "dict-global-array"
        cols = [any_weights(r, M) if (method == "linear" and r.random() < 0.3) else convex_weights(r, M, dy)
                for _ in range(n_cells)]
        return {n: np.array([cols[i][j] for i in range(n_cells)]) for j, n in enumerate(names)}, "dict-per-cell"

    def case(self, kind=None):
        """-> dict(tris=[Triangle], weights, method, seed, tag)"""
        from bermuda import Cell, CumulativeCell, IncrementalCell, Triangle

        r = self.r
        method = r.choice(["linear", "linear", "mixture", "mixture"])
        M = r.choice([1, 2, 2, 3, 3, 4])
        kind = kind or r.choice(["ok"] * 7 + ["err"] * 3)
        want = None
        if method == "mixture" and r.random() < 0.6:
            want = r.choice(["arr_int", "arr_float", "mixed"])
        cells, info = self.base_cells(want)
        lists = [cells] + [self.revalue(cells, method, vary_kind=r.random() < 0.4) for _ in range(M - 1)]
        if kind == "equal":
            lists = [cells for _ in range(M)]
        n = len(cells)
        seed = r.choice([0, 1, 7, 12345, 2**31 - 1])
        tag = "ok"
        form = None
        if kind == "err":
            tag = r.choice(["len", "coord", "celltype", "fields", "samplelen", "scalars", "scalartype", "wlen",
                            "wsum", "wdict_n", "wtuple", "single_list", "method", "wdict_mixed", "wneg", "wempty",
                            "restated"])
            t = r.randrange(1, M) if M > 1 else 0
            L = list(lists[t])
            j = r.randrange(len(L))
            c = L[j]
            if tag == "len" and M > 1:
                if len(L) > 1 and r.random() < 0.5:
                    del L[j]
                else:
                    L.append(c.replace(evaluation_date=c.evaluation_date + datetime.timedelta(days=400)))
            elif tag == "coord" and M > 1:
                how = r.choice(["ev", "meta", "period"])
                if how == "ev":
                    L[j] = c.replace(evaluation_date=c.evaluation_date + datetime.timedelta(days=4000))
                elif how == "meta":
                    L[j] = c.replace(metadata=c.metadata.__class__(**{**meta_kwargs(c.metadata), "country": "ZZ"}))
                else:
                    L[j] = c.replace(period_start=c.period_start - datetime.timedelta(days=1))
            elif tag == "celltype" and M > 1:
                if isinstance(c, IncrementalCell):
                    L = [CumulativeCell(period_start=x.period_start, period_end=x.period_end,
                                        evaluation_date=x.evaluation_date, metadata=x.metadata, values=x.values)
                         for x in L]
                else:
                    k2 = Cell if type(c).__name__ == "CumulativeCell" else CumulativeCell
                    L = [k2(period_start=x.period_start, period_end=x.period_end,
                            evaluation_date=x.evaluation_date, metadata=x.metadata, values=x.values) for x in L]
            elif tag == "fields" and M > 1:
                vals = dict(c.values)
                if len(vals) > 1 and r.random() < 0.5:
                    vals.pop(r.choice(list(vals)))
                else:
                    vals["extra_field"] = 1
                L[j] = c.replace(values=vals)
            elif tag == "samplelen" and M > 1:
                arrs = [f for f, v in c.values.items() if isinstance(v, np.ndarray)]
                if arrs:
                    f = r.choice(arrs)
                    v = c.values[f]
                    L[j] = c.replace(values={**c.values, f: np.concatenate([v, v[:1]]) if r.random() < 0.5 or len(v) < 3 else v[:-1]})
            elif tag == "scalars" and M > 1:
                sc = [f for f, v in c.values.items() if not isinstance(v, np.ndarray)]
                if sc:
                    f = r.choice(sc)
                    L[j] = c.replace(values={**c.values, f: c.values[f] + 1})
            elif tag == "scalartype" and M > 1:
                sc = [f for f, v in c.values.items() if not isinstance(v, np.ndarray)]
                if sc:
                    f = r.choice(sc)
                    v = c.values[f]
                    L[j] = c.replace(values={**c.values, f: float(v) if isinstance(v, int) else int(v)})
            elif tag == "restated":
                # I: the same coordinates twice with other values in EVERY triangle (accepted with a warning); the later
                # cell wins in blend's index.  Compared through the Coq model only.
                jj = r.randrange(len(lists[0]))
                for tt in range(len(lists)):
                    c0 = lists[tt][jj]
                    lists[tt] = list(lists[tt]) + [c0.replace(values={k: (v + 1) for k, v in c0.values.items()})]
                L = list(lists[t])
            lists[t] = L
        date_kinds = ["date"] * len(lists)
        variant = "plain"
        if kind != "err":
            variant = r.choices(["plain", "meta-order", "date-kinds", "flatten-alike", "zeros", "nested-period", "hash-collide"],
                                weights=[36, 16, 16, 8, 8, 6, 10])[0]
            if variant == "meta-order":
                # A: EQUAL metadata written differently in the blended triangles (and, half of the time, inside one slice):
                # detail keys inserted in another order, 7 vs 7.0, True vs 1.  The same coordinates for blend.
                intra = r.random() < 0.5
                lists = [[respell_meta(c, j, i, intra) for i, c in enumerate(L)] for j, L in enumerate(lists)]
            elif variant == "flatten-alike":
                # B: distinct metadata that flatten alike (details vs loss_details, a detail named like an attribute,
                # '' vs None vs missing) replace the slices' metadata: they must stay different coordinates
                specials = flatten_alike_metas()
                r.shuffle(specials)
                seen = []
                for c in lists[0]:
                    if c.metadata not in seen:
                        seen.append(c.metadata)
                lists = [[c.replace(metadata=specials[seen.index(c.metadata) % len(specials)]) for c in L] for L in lists]
            elif variant == "hash-collide":
                # M: sibling slices that differ ONLY by a hash-colliding value (-1 / -2) in a detail, loss detail or limit
                pair = r.choice(hash_colliding_metas())
                if r.random() < 0.5:
                    pair = pair[::-1]
                seen = []
                for c in lists[0]:
                    if c.metadata not in seen:
                        seen.append(c.metadata)
                if len(seen) == 1:      # one slice: clone it into the sibling slice (values shifted by one)
                    lists = [[c.replace(metadata=pair[0]) for c in L]
                             + [c.replace(metadata=pair[1], values={k: v + 1 for k, v in c.values.items()}) for c in L] for L in lists]
                else:
                    lists = [[c.replace(metadata=pair[seen.index(c.metadata)]) if seen.index(c.metadata) < 2 else c for c in L]
                             for L in lists]
            elif variant == "zeros":
                # E: falsy values: one field all zeros (0 / 0.0 / zero arrays) in every triangle
                f0 = r.choice(list(lists[0][0].values))
                lists = [[c.replace(values={**c.values, **({f0: (np.zeros(len(c.values[f0])) if isinstance(c.values[f0], np.ndarray)
                                                                  else type(c.values[f0])(0))} if f0 in c.values else {})})
                          for c in L] for L in lists]
            elif variant == "nested-period":
                # J: nested periods sharing a start: an extra cell whose period extends the first cell's by a month
                lists = [L + [L[0].replace(period_end=L[0].period_end + datetime.timedelta(days=31),
                                           evaluation_date=max(L[0].evaluation_date, L[0].period_end + datetime.timedelta(days=31)))]
                         for L in lists]
            elif variant == "date-kinds":
                # D: some triangles built from pandas.Timestamp / datetime.datetime inputs (the Cell constructor stores dates)
                date_kinds = [r.choice(["date", "timestamp", "datetime"]) for _ in lists]
                if all(k == "date" for k in date_kinds):
                    date_kinds[r.randrange(len(lists))] = r.choice(["timestamp", "datetime"])
                lists = [[rebuild_dates(c, k) for c in L] for L, k in zip(lists, date_kinds)]
        with warnings.catch_warnings():
            warnings.simplefilter("ignore")
            tris = [Triangle(L) for L in lists]
        n = len(tris[0])
        if tag == "wlen":
            weights, wtag = convex_weights(r, M + 1, True), "list-wrong-length"
        elif tag == "wsum":
            weights, wtag = [x * 0.5 for x in convex_weights(r, M, True)], "list-sum-half"
        elif tag == "wneg":
            weights, wtag = ([1.5, -0.5] + [0.0] * (M - 2))[:M] if M > 1 else [1.0], "list-negative-sum1"
        elif tag == "wdict_n":
            k = n + 1 if n != 0 else 2
            weights, wtag = {f"t{j}": np.array([0.5] * k) for j in range(M)}, "dict-wrong-n"
        elif tag == "wdict_mixed":
            weights, wtag = {f"t{j}": (0.5 if j == 0 else np.array([0.5] * (n + 1))) for j in range(max(M, 2))}, "dict-ragged"
        elif tag == "wtuple":
            weights, wtag = tuple(convex_weights(r, M, True)), "tuple"
        elif tag == "wempty":
            weights, wtag = r.choice([[], {}]), "empty-container"
        elif tag == "single_list":
            tris = tris[:1]
            M = 1
            weights, wtag = r.choice([[0.5], [2], [1], [1.0, 0.0]]), "single-list"
        else:
            weights, wtag = self.weights(M, n, method, form)
            if M == 1 and isinstance(weights, list):
                weights, wtag = [1.0], "list-single-1.0"   # the only list the code accepts for one triangle
        if tag == "method":
            method = r.choice(["Linear", "MIXTURE", "average", "mix"])
        return dict(tris=tris, weights=weights, method=method, seed=seed, tag=tag, wtag=wtag,
                    info=f"{info['layout']}/{info['basis']}/{info['n_slices']}sl/{info['values']}",
                    date_kinds=date_kinds, variant=variant)


def _cell_cls():
    from bermuda import Cell

    return Cell


def respell_meta(c, j, i=0, intra=False):
    """the same metadata plus extra (loss_)details, spelled per triangle -- and, with intra, per cell of ONE slice: key
    order differs, 7 vs 7.0, True vs 1, limit 1000 vs 1000.0; falsy detail values ('' / 0 / None) ride along"""
    odd = (j + (i if intra else 0)) % 2
    kw = meta_kwargs(c.metadata)
    extra = [("region", "NY"), ("coverage", "auto"), ("tier", 7.0 if odd else 7), ("flagx", 1 if odd else True),
             ("note", ""), ("zero", 0.0 if odd else 0), ("nothing", None)]
    lextra = [("perilx", "wind"), ("layerx", 2.0 if odd else 2)]
    if odd:
        extra, lextra = extra[::-1], lextra[::-1]
    kw["details"] = dict(extra + list(kw["details"].items())) if odd else dict(list(kw["details"].items()) + extra)
    kw["loss_details"] = dict(lextra + list(kw["loss_details"].items())) if odd else dict(list(kw["loss_details"].items()) + lextra)
    lim = kw["per_occurrence_limit"]
    if lim is not None and float(lim) == int(lim):
        kw["per_occurrence_limit"] = int(lim) if odd else float(lim)
    return c.replace(metadata=c.metadata.__class__(**kw))


def hash_colliding_metas():
    """M: DISTINCT metadata whose only difference is a value with a colliding CPython hash (hash(-1) == hash(-2))"""
    from bermuda import Metadata

    return [[Metadata(details={"development_offset": -1}), Metadata(details={"development_offset": -2})],
            [Metadata(loss_details={"shift": -1.0}), Metadata(loss_details={"shift": -2.0})],
            [Metadata(per_occurrence_limit=-1), Metadata(per_occurrence_limit=-2)],
            [Metadata(details={"k": -2, "j": "x"}), Metadata(details={"j": "x", "k": -1})]]


def flatten_alike_metas():
    """DISTINCT metadata whose flattened forms coincide or nearly so: they are different slices"""
    from bermuda import Metadata

    return [Metadata(details={"k": "v"}), Metadata(loss_details={"k": "v"}), Metadata(details={"currency": "USD"}),
            Metadata(currency="USD"), Metadata(details={"k": ""}), Metadata(details={"k": None}), Metadata()]


def rebuild_dates(c, kind):
    kw = dict(period_start=as_date_kind(c.period_start, kind), period_end=as_date_kind(c.period_end, kind),
              evaluation_date=as_date_kind(c.evaluation_date, kind), metadata=c.metadata, values=c.values)
    if type(c).__name__ == "IncrementalCell":
        kw["prev_evaluation_date"] = c.prev_evaluation_date      # a plain date (see the note in run())
    return type(c)(**kw)


def meta_key(m):
    """Python-equality class of a Metadata: details as a set of items, numbers by value"""
    def nv(v):
        if v is None or isinstance(v, (str, datetime.date)):
            return (type(v).__name__, v)
        return ("num", Fraction(int(v) if isinstance(v, (bool, np.bool_)) else v))

    return (m.risk_basis, m.country, m.currency, m.reinsurance_basis, m.loss_definition, nv(m.per_occurrence_limit),
            frozenset((k, nv(v)) for k, v in m.details.items()), frozenset((k, nv(v)) for k, v in m.loss_details.items()))


def meta_kwargs(m):
    return dict(risk_basis=m.risk_basis, country=m.country, currency=m.currency,
                reinsurance_basis=m.reinsurance_basis, loss_definition=m.loss_definition,
                per_occurrence_limit=m.per_occurrence_limit, details=dict(m.details),
                loss_details=dict(m.loss_details))


def f14_cases(seed):
    """directed inputs for the (repaired) defect F14: a single triangle with weights None / dict"""
    cg = CaseGen(seed)
    out = []
    from bermuda import Triangle

    for method in ("linear", "mixture"):
        for form in ("none", "dict_global", "dict_cell"):
            cells, info = cg.base_cells("mixed" if method == "mixture" else None)
            w, wtag = cg.weights(1, len(cells), method, form)
            out.append(dict(tris=[Triangle(cells)], weights=w, method=method, seed=3, tag="f14", wtag=wtag,
                            info="f14/" + form))
    return out


# ------------------------------------------------------------------------------------------------
# Python-side reference (Fractions) and direct oracles
def samples_of(v):
    if isinstance(v, np.ndarray):
        return [Fraction(float(x)) if v.dtype.kind == "f" else Fraction(int(x)) for x in v.tolist()]
    return [Fraction(v)]


def ref_weight_list(weights, M, n):
    """one weight vector (Fractions) per cell, or None for uniform; mirrors the documented forms"""
    if weights is None:
        return [[Fraction(1, M)] * M for _ in range(n)]
    if isinstance(weights, list):
        return [[Fraction(x) for x in weights] for _ in range(n)]
    rows = [np.atleast_2d(v)[0].tolist() for v in weights.values()]
    k = len(rows[0])
    cols = [[Fraction(float(row[i])) for row in rows] for i in range(k)]
    if k == 1:
        return [cols[0] for _ in range(n)]
    return cols


def strict_hdr(c):
    from harness.coqterm import canon_meta

    prev = getattr(c, "prev_evaluation_date", None)
    return (type(c).__name__, c.period_start, c.period_end, c.evaluation_date, prev, canon_meta(c.metadata, ordered=True))


def close(a: Fraction, b: Fraction, tol: Fraction) -> bool:
    return abs(a - b) <= tol * abs(a)


def direct_oracles(case, res, rec, tol):
    """Evaluate the property clauses directly on the implementation's result.  -> list of failure strings"""
    tris, weights, method, seed = case["tris"], case["weights"], case["method"], case["seed"]
    fails = []
    for j, t in enumerate(tris):
        for c in t.cells:
            for nm in ("period_start", "period_end", "evaluation_date"):
                if type(getattr(c, nm)) is not datetime.date:
                    return [f"triangle {j}: Cell stored {nm} as {type(getattr(c, nm)).__name__}, not datetime.date "
                            f"(constructed from {case.get('date_kinds', ['date'])[j]} inputs)"]
    if case["tag"] not in ("ok", "f14", "equal"):
        # refusal cases: mutated inputs must not produce a triangle, except where the mutation was void
        return fails
    if res[0] != "ok":
        return [f"valid input refused with {type(res[1]).__name__}: {res[1]}"]
    out = res[1]
    t0 = tris[0]
    M, n = len(tris), len(t0)
    if len(out) != n:
        return [f"result has {len(out)} cells, inputs have {n}"]
    wl = ref_weight_list(weights, M, n)
    convex_all = True
    draws = {(i, f): d for i, f, d, _ in rec.draws}
    probs = {(i, f): key[0] for i, f, _, key in rec.draws}
    for i, (o, c0) in enumerate(zip(out.cells, t0.cells)):
        if strict_hdr(o) != strict_hdr(c0):
            fails.append(f"cell {i}: coordinates/metadata differ from the first triangle's cell")
            continue
        if set(o.values) != set(c0.values):
            fails.append(f"cell {i}: field set {sorted(o.values)} != {sorted(c0.values)}")
            continue
        cs = [t.cells[i] for t in tris]
        w = wl[i]
        convex = all(x >= 0 for x in w) and abs(sum(w) - 1) <= Fraction(1, 10**12)
        convex_all &= convex
        for f in c0.values:
            vs = [samples_of(c.values[f]) for c in cs]
            got = o.values[f]
            if method.lower() == "linear":
                S = max(len(v) for v in vs)
                if not (isinstance(got, np.ndarray) and got.shape == (S,) and got.dtype == np.float64):
                    fails.append(f"cell {i} field {f}: linear result is not a float64 array of length {S}")
                    continue
                for k in range(S):
                    xs = [v[0] if len(v) == 1 else v[k] for v in vs]
                    want = sum(wi * x for wi, x in zip(w, xs))
                    g = Fraction(float(got[k]))
                    if not close(want, g, tol):
                        fails.append(f"cell {i} field {f} sample {k}: {float(g)!r} is not the weighted sum {float(want)!r} "
                                     f"of {[float(x) for x in xs]} with weights {[float(x) for x in w]}")
                        break
                    if convex and not (min(xs) * (1 - tol) <= g <= max(xs) * (1 + tol)):
                        fails.append(f"cell {i} field {f} sample {k}: {float(g)!r} outside [min, max] of the inputs for convex weights")
                        break
                    if convex and min(xs) == max(xs) and not close(xs[0], g, tol):
                        fails.append(f"cell {i} field {f} sample {k}: equal inputs {float(xs[0])!r} blended to {float(g)!r}")
                        break
            else:
                v0 = c0.values[f]
                if not isinstance(v0, np.ndarray):
                    if not (type(got) is type(v0) and got == v0):
                        fails.append(f"cell {i} field {f}: scalar {v0!r} not passed through (got {got!r})")
                    continue
                S = len(v0)
                if not (isinstance(got, np.ndarray) and got.shape == (S,)):
                    fails.append(f"cell {i} field {f}: mixture result has wrong shape")
                    continue
                d = draws.get((i, f))
                p = probs.get((i, f))
                if p is not None and (len(p) != M or any(abs(Fraction(a) - b) > Fraction(1, 10**12) for a, b in zip(p, w))):
                    fails.append(f"cell {i} field {f}: the generator was given probabilities {list(p)} but the weights of the "
                                 f"triangles (in list order) are {[float(x) for x in w]}")
                    continue
                for k in range(S):
                    g = Fraction(float(got[k]))
                    cand = [v[k] for v in vs]
                    if g not in cand:
                        fails.append(f"cell {i} field {f} sample {k}: {float(g)!r} is no input's sample at index {k}")
                        break
                    if d is not None and (len(d) != S or not (0 <= d[k] < M) or cand[d[k]] != g):
                        fails.append(f"cell {i} field {f} sample {k}: not the sample of the drawn input {d[k] if len(d) == S else d}")
                        break
    return fails


def seed_monitor(case, res, rec):
    """NumPy-determinism monitor (not a theorem): same seed twice => identical result; for a fixed seed the
    index vector is a function of (weights, sample count) only, i.e. every field of every cell with the same
    weights uses the same draw (joint samples stay joint)."""
    fails = []
    if res[0] != "ok" or case["method"].lower() != "mixture":
        return fails
    seen = {}
    for i, f, d, key in rec.draws:
        if key in seen and seen[key][2] != d:
            fails.append(f"seed {case['seed']}: cell {seen[key][0]} field {seen[key][1]} and cell {i} field {f} drew "
                         f"different index vectors for the same weights and sample count")
            break
        seen.setdefault(key, (i, f, d))
    before = canon_out(res[1])
    res2, _ = run_impl(case["tris"], case["weights"], case["method"], case["seed"])
    if res2[0] != "ok" or canon_out(res2[1]) != before:
        fails.append(f"seed {case['seed']}: two runs with the same seed differ")
    _MON["n"] += 1
    if _MON["n"] % 4 == 0:
        fails += edited_result_monitor(case, res, before)
    return fails


_MON = {"n": 0}


def edited_result_monitor(case, res, before):
    """H: the caller edits the arrays of an earlier result in place; the same call must still give the same answer"""
    if res[0] != "ok":
        return []
    inputs_before = [canon_out(t) for t in case["tris"]]
    first, _ = run_impl(case["tris"], case["weights"], case["method"], case["seed"])   # a result of our own to edit
    if first[0] != "ok":
        return ["the same call a second time raised " + type(first[1]).__name__]
    for c in first[1].cells:
        for v in c.values.values():
            if isinstance(v, np.ndarray) and v.flags.writeable:
                v += 1
    if [canon_out(t) for t in case["tris"]] != inputs_before:
        return []        # the result shares arrays with the arguments (mixture passes scalars/objects through): C03's subject
    res3, _ = run_impl(case["tris"], case["weights"], case["method"], case["seed"])
    if res3[0] != "ok" or canon_out(res3[1]) != before:
        return ["the same call after the caller edited an earlier result gives a different answer"]
    return []


def canon_out(t):
    from harness.coqterm import canon_tri

    return canon_tri(t, ordered=True)


# ------------------------------------------------------------------------------------------------
def case_to_coq(case, res, rec, tol):
    tris = case["tris"]
    fo_tbl = {}
    for c in tris[0].cells:
        ks = tuple(c.values.keys())
        if ks not in fo_tbl:
            fo_tbl[ks] = list(set(c.values.keys()))
    fo = "[" + ";".join("([" + ";".join(cstr(k) for k in ks) + "],[" + ";".join(cstr(k) for k in o) + "])"
                        for ks, o in fo_tbl.items()) + "]"
    dt = "[" + ";".join(f"(({i}%nat,{cstr(f)}),[" + ";".join(f"{x}%nat" for x in d) + "])"
                        for i, f, d, _ in rec.draws if f is not None) + "]"
    # Metadata that are Python-equal but spelled differently (detail order, 7 vs 7.0) are ONE coordinate for blend; the
    # model compares coordinates structurally, so every cell is printed with the first spelling seen (triangle 0 first).
    # That the implementation really treats them as equal is checked by the direct oracle (valid input not refused).
    rep = {}
    for t in tris:
        for c in t.cells:
            rep.setdefault(meta_key(c.metadata), c.metadata)
    ts = "[" + ";\n ".join("[" + ";\n  ".join(ccell_m(c, rep[meta_key(c.metadata)]) for c in t.cells) + "]" for t in tris) + "]"
    if res[0] == "ok":
        impl = "(Ok [" + ";\n  ".join(cqcell(c, rep) for c in res[1].cells) + "])"
    else:
        impl = f"(Err {cerr(res[1])})"
    return (f"(({ts},\n {cweights(case['weights'])}, {cmethod(case['method'])}),\n ({fo}, {dt}, {cq(tol)}),\n {impl})")


CHECK_DEF = """
Definition check (c : (list (list cell) * weights * method)
                      * (list (list str * list str) * list (nat * str * list nat) * Q)
                      * result (list qcell)) : bool :=
  let '((tris, w, m), (ft, dt, tol), impl) := c in
  qresult_close tol (blend (fo_table ft) (draw_table dt) tris w m) impl.
"""


def case_tol(case):
    """0 when every weight is a small dyadic (binary64 linear blending is then exact), else 1e-9"""
    w = case["weights"]
    M = len(case["tris"])
    if w is None:
        ws = [1.0 / M]
    elif isinstance(w, (list, tuple)):
        ws = list(w)
    else:
        ws = [float(x) for v in w.values() for x in np.atleast_1d(v).tolist()]
    for x in ws:
        fr = Fraction(x)
        if fr.denominator > 1024 or fr.denominator & (fr.denominator - 1):
            return TOL
    return Fraction(0)


def case_json(case):
    return {"tris": [tri_to_json(t) for t in case["tris"]], "weights": w_to_json(case["weights"]),
            "method": case["method"], "seed": case["seed"], "tag": case["tag"], "wtag": case.get("wtag"),
            "info": case.get("info"), "date_kinds": case.get("date_kinds"), "variant": case.get("variant")}


def case_from_json(j):
    kinds = j.get("date_kinds") or ["date"] * len(j["tris"])
    return dict(tris=[tri_from_json(t, k) for t, k in zip(j["tris"], kinds)], weights=w_from_json(j["weights"]),
                date_kinds=kinds, variant=j.get("variant"),
                method=j["method"], seed=j["seed"], tag=j.get("tag", "ok"), wtag=j.get("wtag"), info=j.get("info"))


def is_f14(case, res):
    return (len(case["tris"]) == 1 and not isinstance(case["weights"], list) and res[0] == "err"
            and isinstance(res[1], (TypeError, KeyError)))


def run(ctx):
    ctx.rule = (
        "cases: 1-4 coordinate-identical triangles built from harness.gen (regular/ragged/holey/irregular/"
        "single-period/single-lag; cumulative and incremental; 1-3 slices; int, dyadic-float, int64/float64-sample "
        "and mixed values; under linear blending a field may be scalar in one triangle and samples in another), "
        "weights None / list (convex dyadic, convex non-dyadic, arbitrary dyadic incl. negative) / dict of scalars / "
        "dict of 1-element arrays / dict of per-cell arrays (asymmetric columns), methods linear and mixture, seeds "
        "{0,1,7,12345,2^31-1}; 30% refusal cases (length, coordinate, cell type, field set, sample length, unequal "
        "scalars, scalar type, weight length/sum/sign/shape/type, single triangle with a list, unknown method). "
        "non-trivial = distinct case with >= 2 cells in total or an error branch.")
    ctx.assumptions += [
        "NumPy's generator is an oracle: np.random.choice results are recorded in the harness process and fed to the "
        "model; 'reproducible for a seed' and 'follows the weights' are monitored (same seed twice => identical; same "
        "(seed, weights, sample count) => same index vector), not proved",
        "Python set iteration order (blend_cells loops over set(keys)) is an oracle recorded by the harness",
        "float rounding of matched_values @ weights is outside the model: exact comparison for dyadic weights, 1e-9 "
        "relative to the model's exact rational otherwise",
        "metadata equality in the coordinate index is modelled as strict structural equality (the generator never "
        "produces Python-equal but structurally different metadata); Triangle(...) of the blended cells keeps the "
        "first triangle's canonical order (C01)",
    ]
    ctx.audit_tree(["Model/Blend.v", "Proofs/BlendP.v", "Proofs/BlendQ.v", "Proofs/BlendTop.v", "Props/C16.v"])
    prove_static_local(ctx, "Props/C16.v")
    tie_failure = blend_translation(ctx)

    n_cases = 420 if ctx.quick else 4000
    cg = CaseGen(ctx.seed * 7919 + 16)
    cases = f14_cases(ctx.seed + 5)
    while len(cases) < n_cases:
        kind = "equal" if len(cases) % 9 == 0 else None
        try:
            cases.append(cg.case(kind))
        except Exception:  # a mutated input that bermuda itself refuses to build: skip
            continue
    records = []   # (case, res, rec, tol, coq_text)
    direct_fail = []
    for case in cases:
        tol = case_tol(case)
        res, rec = run_impl(case["tris"], case["weights"], case["method"], case["seed"])
        ctx.hist(f"method:{case['method'].lower()}")
        ctx.hist(f"weights:{case['wtag']}")
        ctx.hist(f"tag:{case['tag']}")
        ctx.hist(f"variant:{case.get('variant', 'plain')}")
        ctx.hist(f"n_triangles:{len(case['tris'])}")
        ctx.hist("result:" + ("ok" if res[0] == "ok" else type(res[1]).__name__))
        fails = direct_oracles(case, res, rec, tol if tol else Fraction(0))
        fails += seed_monitor(case, res, rec)
        if res[0] == "ok" and case["method"].lower() == "linear" and len(records) % 6 == 0:
            c_before = canon_out(res[1])
            r2, _ = run_impl(case["tris"], case["weights"], case["method"], case["seed"])
            if r2[0] != "ok" or canon_out(r2[1]) != c_before:
                fails.append("linear: the same call twice gives different results")
            fails += edited_result_monitor(case, res, c_before)
        if fails:
            direct_fail.append((case, fails, res))
        try:
            txt = case_to_coq(case, res, rec, tol)
        except NotRepresentable:
            ctx.hist("skipped:not-representable")
            continue
        records.append((case, res, rec, tol, txt))
        if sum(len(t) for t in case["tris"]) >= 2 or res[0] == "err":
            ctx.nontriv(txt)
    ctx.count(evaluations=len(cases), traces=len(records))
    for case, res, rec, tol, _ in records[6:9]:
        ctx.sample({"case": {k: case[k] for k in ("method", "seed", "tag", "wtag", "info")},
                    "weights": w_to_json(case["weights"]), "n_triangles": len(case["tris"]),
                    "cells_per_triangle": len(case["tris"][0]),
                    "result": "ok" if res[0] == "ok" else type(res[1]).__name__,
                    "draws": [(i, f, d) for i, f, d, _ in rec.draws[:3]]})

    # direct-oracle failures are violations with a concrete input
    for case, fails, res in direct_fail[:5]:
        fc = {"kind": "blend_single_triangle_non_list_weights"} if is_f14(case, res) else None
        ctx.violation("impl-violation", "blend: " + fails[0], {"case": case_json(case), "failures": fails[:5]},
                      found_input=True, finding_class=fc)

    # correspondence
    per = 30
    files = []
    for k in range(0, len(records), per):
        chunk = records[k:k + per]
        f = ctx.build / f"cases_{k // per}.v"
        f.write_text(HEADER + CHECK_DEF + "Definition cases := [\n" + ";\n".join(r[4] for r in chunk) + "].\n"
                     "Eval vm_compute in failing (map check cases).\n")
        files.append((f, chunk))
    res_c = ctx.coqc_many([f for f, _ in files], jobs=16, timeout=900)
    mism = []
    broken = []
    for f, chunk in files:
        rc, out = res_c[f]
        vals = parse_coq_eval(out) if rc == 0 else []
        if rc != 0 or not vals:
            broken.append((f.name, out[-800:]))
            continue
        idx = [int(x) for x in re.findall(r"\d+", vals[-1])]
        for i in idx:
            mism.append(chunk[i])
    ctx.obligation("correspondence: model blend (recorded draws / set order as oracles) = implementation", not mism and not broken,
                   repr([(m[0]["tag"], m[0]["wtag"], m[0]["method"]) for m in mism[:8]]) + repr(broken[:2]))
    ctx.log(f"cases {len(cases)}, compared in Coq {len(records)}, mismatches {len(mism)}, broken files {len(broken)}, "
            f"direct-oracle failures {len(direct_fail)}")
    hardening(ctx)
    early = [(r_[0], r_[1]) for r_ in records[:40] if r_[1][0] == "ok" and r_[0]["seed"] is not None][:8]
    large_stream(ctx, early)
    if (mism or broken) and not direct_fail:
        # search: the mismatching cases are valid-input cases whose direct oracles passed, or refusal cases whose
        # error class / acceptance differs from the model
        reported = False
        for case, res, rec, tol, _ in mism:
            if case["tag"] not in ("ok", "f14", "equal") and res[0] == "ok" and refusal_expected(case):
                ctx.violation("impl-violation",
                              f"blend accepted an input the property says is refused ({case['tag']})",
                              {"case": case_json(case)}, found_input=True)
                reported = True
                break
        if not reported:
            data = {"mismatching_cases": [case_json(m[0]) for m in mism[:2]], "broken_files": broken[:2],
                    "case": case_json(mism[0][0]) if mism else None}
            ctx.violation("correspondence", "model and implementation of blend disagree "
                          f"({len(mism)} cases; first: tag={mism[0][0]['tag'] if mism else '-'}, "
                          f"weights={mism[0][0]['wtag'] if mism else '-'})", data, found_input=False)
    # the description of the source no longer satisfies the side condition of the generic theorems and none of the
    # searches above produced a concrete failing input
    if tie_failure and not ctx.violations:
        ctx.violation("obligation", "T-blend: " + tie_failure["what"], tie_failure, found_input=False)


# ------------------------------------------------------------------------------------------------
# LARGE stream (family Q of notes/HARDENING.md): big inputs judged by Python-side oracles only (no Coq literals: the
# theorems are size-independent, the correspondence samples small cases).  Replays record generator parameters.
def big_cells(n_slices=2, n_periods=24, n_evals=13, fields=("paid_loss",), samples=0, vseed=0, holes=(), start_year=1990,
              res=12, ev_step=3, slice_sizes=None, big_ints=False):
    """a ragged-free rectangle of CumulativeCells: slice k has country 'S%03d' % k; value of (slice, period, eval, field) is a
    deterministic small dyadic (or an integer beyond 2**53).  holes: (slice, period, eval) index triples left out.
    slice_sizes: optional number of cells kept per slice (prefix in period/eval order)."""
    from bermuda import CumulativeCell, Metadata
    from harness.gen import add_m, month_end

    rng = np.random.RandomState(vseed)
    cells = []
    holes = set(holes)
    for k in range(n_slices):
        m = Metadata(country="S%03d" % k)
        kept = 0
        for p in range(n_periods):
            y, mo = add_m(start_year, 1, p * res)
            ps = D(y, mo, 1)
            pe = month_end(*add_m(y, mo, res - 1))
            for e in range(n_evals):
                if (k, p, e) in holes:
                    continue
                if slice_sizes is not None and kept >= slice_sizes[k]:
                    continue
                ev_ = month_end(*add_m(y, mo, res - 1 + e * ev_step))
                vals = {}
                for f in fields:
                    if samples:
                        vals[f] = rng.randint(0, 40000, size=samples) / 8.0
                    elif big_ints:
                        vals[f] = int(2**53 + 1 + 2 * rng.randint(0, 1000))
                    else:
                        vals[f] = float(rng.randint(0, 40000)) / 8.0
                cells.append(CumulativeCell(period_start=ps, period_end=pe, evaluation_date=ev_, metadata=m, values=vals))
                kept += 1
    return cells


def big_triangle(**kw):
    from bermuda import Triangle

    with warnings.catch_warnings():
        warnings.simplefilter("ignore")
        return Triangle(big_cells(**kw))


def coord_key(c):
    return (c.metadata.country, c.period_start, c.period_end, c.evaluation_date)


def large_case(name, tier_quick=True):
    """-> dict(tris, weights, method, seed, expect) built from parameters only (so that a replay can rebuild it)"""
    scale = 1 if tier_quick else 2
    if name == "linear-2100-cells":
        # two slices of 1024 cells (a slice boundary at a multiple of 256) + a third of 76: 2124 cells, per-cell dict weights
        kw = dict(n_slices=3, n_periods=32 * scale, n_evals=32, slice_sizes=[1024 * scale, 1024 * scale, 76])
        a, b = big_triangle(vseed=1, **kw), big_triangle(vseed=2, **kw)
        n = len(a)
        w0 = ((np.arange(n) * 7) % 17) / 16.0
        return dict(tris=[a, b], weights={"first": w0, "second": 1.0 - w0}, method="linear", seed=None, expect="linear")
    if name == "linear-5000-samples":
        kw = dict(n_slices=1, n_periods=3, n_evals=2, samples=5000 if tier_quick else 100000)
        a, b = big_triangle(vseed=3, **kw), big_triangle(vseed=4, **kw)
        # the second triangle holds reversed / Fortran-ordered views of its sample arrays
        with warnings.catch_warnings():
            warnings.simplefilter("ignore")
            from bermuda import Triangle

            b = Triangle([c.replace(values={f: np.asfortranarray(v[::-1])[::-1] for f, v in c.values.items()}) for c in b.cells])
        return dict(tris=[a, b], weights=[0.25, 0.75], method="linear", seed=None, expect="linear")
    if name == "linear-big-ints":
        kw = dict(n_slices=2, n_periods=10, n_evals=15, big_ints=True)
        a = big_triangle(vseed=5, **kw)
        return dict(tris=[a, a], weights=[0.5, 0.5], method="linear", seed=None, expect="linear")
    if name == "mixture-630-cells-per-cell-weights":
        # more than 256 distinct (seed, sample count, weights) combinations in one call; every weight vector has a zero entry
        kw = dict(n_slices=2, n_periods=21 * scale, n_evals=15, samples=6)
        tris = [big_triangle(vseed=10 + j, **kw) for j in range(3)]
        n = len(tris[0])
        i = np.arange(n)
        a = (1 + (i * 37) % 1021) / 1024.0
        cols = np.zeros((3, n))
        for j in range(3):
            z = (i % 3 == j)                       # component j has weight 0 for the cells with i % 3 == j
            cols[(j + 1) % 3, z] = a[z]
            cols[(j + 2) % 3, z] = 1.0 - a[z]
        return dict(tris=tris, weights={"t0": cols[0], "t1": cols[1], "t2": cols[2]}, method="mixture", seed=11,
                    expect="mixture-zero-weight")
    if name == "holes-600-cells-refused":
        # >= 512 cells; both triangles have the same slices, periods, evaluation dates and length but a hole at another place
        kw = dict(n_slices=2, n_periods=24 * scale, n_evals=13)
        a = big_triangle(vseed=20, holes=[(0, 3, 4)], **kw)
        b = big_triangle(vseed=21, holes=[(0, 7, 2)], **kw)
        return dict(tris=[a, b], weights=[0.5, 0.5], method="linear", seed=None, expect="refused")
    if name == "row-of-70-evaluations":
        kw = dict(n_slices=1, n_periods=5, n_evals=70, ev_step=1)
        a, b = big_triangle(vseed=30, **kw), big_triangle(vseed=31, **kw)
        return dict(tris=[a, b], weights=None, method="linear", seed=None, expect="linear")
    raise KeyError(name)


LARGE_QUICK = ["linear-2100-cells", "linear-5000-samples", "linear-big-ints", "mixture-630-cells-per-cell-weights",
               "holes-600-cells-refused", "row-of-70-evaluations"]


def large_oracle(lc, res):
    """vectorised Python-side oracle for a large case -> list of failure strings"""
    tris, w, method = lc["tris"], lc["weights"], lc["method"]
    if lc["expect"] == "refused":
        if res[0] == "ok":
            return [f"triangles with different coordinate sets ({len(tris[0])} cells each, a hole at different places) were blended "
                    "instead of refused"]
        return [] if isinstance(res[1], ValueError) else [f"refusal raised {type(res[1]).__name__} instead of ValueError"]
    if res[0] != "ok":
        return [f"valid large input refused: {type(res[1]).__name__}: {res[1]}"]
    out, t0 = res[1], tris[0]
    n, M = len(t0), len(tris)
    if len(out) != n:
        return [f"result has {len(out)} cells, inputs have {n}"]
    idx = [{coord_key(c): c for c in t.cells} for t in tris]
    if isinstance(w, dict):
        rows = [np.atleast_1d(np.asarray(v, dtype=float)) for v in w.values()]
        W = np.stack([r_ if len(r_) == n else np.repeat(r_, n) for r_ in rows])          # M x n
    elif w is None:
        W = np.full((M, n), 1.0 / M)
    else:
        W = np.repeat(np.asarray(w, dtype=float)[:, None], n, axis=1)
    for i, (o, c0) in enumerate(zip(out.cells, t0.cells)):
        k = coord_key(c0)
        if coord_key(o) != k or type(o) is not type(c0) or set(o.values) != set(c0.values):
            return [f"cell {i}: coordinates / type / fields differ from the first triangle's cell {k}"]
        for f in c0.values:
            vs = [np.atleast_1d(np.asarray(ix[k].values[f])) for ix in idx]
            got = np.atleast_1d(np.asarray(o.values[f], dtype=float))
            if lc["expect"] == "linear":
                if any(v.dtype.kind in "iu" and np.abs(v).max() > 2**53 for v in vs):
                    want = [float(sum(Fraction(float(W[j, i])) * int(vs[j][0]) for j in range(M)))]
                    ok = len(got) == 1 and got[0] == want[0]
                else:
                    want = sum(W[j, i] * vs[j].astype(float) for j in range(M))
                    ok = got.shape == np.shape(want) and np.allclose(got, want, rtol=1e-12, atol=0)
                if not ok:
                    return [f"cell {i} {k} field {f}: {got[:3].tolist()} is not the weighted sum {np.asarray(want)[:3].tolist()} "
                            f"(weights {W[:, i].tolist()})"]
            else:
                # mixture: every sample is the same-index sample of an input whose weight in THIS cell is positive
                allowed = [j for j in range(M) if W[j, i] > 0]
                okmask = np.zeros(len(got), dtype=bool)
                for j in allowed:
                    okmask |= (got == vs[j].astype(float))
                if got.shape != vs[0].shape or not okmask.all():
                    bad = int(np.argmin(okmask))
                    return [f"cell {i} {k} field {f} sample {bad}: {got[bad]!r} is not the sample of any input with positive weight "
                            f"(weights {W[:, i].tolist()}, inputs {[float(v[bad]) for v in vs]})"]
    return []


def large_run(lc):
    res, _ = run_impl(lc["tris"], lc["weights"], lc["method"], lc["seed"])
    fails = large_oracle(lc, res)
    if not fails and res[0] == "ok" and lc["method"] == "mixture":
        # the same seeded call again: identical, and still inside the zero-weight constraint
        res2, _ = run_impl(lc["tris"], lc["weights"], lc["method"], lc["seed"])
        fails = large_oracle(lc, res2)
        if not fails and canon_out(res2[1]) != canon_out(res[1]):
            fails = ["two runs of the same seeded call differ"]
    return fails


def large_stream(ctx, early):
    """run the large cases, then re-check the early small cases (process-wide state: caches, pools)"""
    names = LARGE_QUICK
    for name in names:
        lc = large_case(name, ctx.quick)
        fails = large_run(lc)
        ctx.count(evaluations=1)
        ctx.hist(f"large:{name}", sum(len(t) for t in lc["tris"]))
        ctx.nontriv(("large", name))
        if fails:
            ctx.violation("impl-violation", f"blend (large case {name}): " + fails[0],
                          {"large": name, "quick": ctx.quick, "case": None, "failures": fails}, found_input=True)
    for case, res0 in early:
        res1, _ = run_impl(case["tris"], case["weights"], case["method"], case["seed"])
        if (res0[0], res1[0]) != ("ok", "ok") and res0[0] != res1[0] or \
                (res0[0] == "ok" and res1[0] == "ok" and canon_out(res0[1]) != canon_out(res1[1])):
            ctx.violation("impl-violation", "blend: an early small case gives a different result when repeated after the large work "
                          "(state kept between calls)", {"case": case_json(case), "recheck": True, "quick": ctx.quick}, found_input=True)
    ctx.notes.append("large stream: %d big cases judged by Python-side oracles only (no Coq literals; the theorems are "
                     "size-independent, the correspondence samples small cases)" % len(names))


NUMPY_FLOAT_MIX = {"kind": "blend_mixture_numpy_float_vs_float_refused"}


def hardening(ctx):
    """small directed streams (families F, G of notes/HARDENING.md) that run on every quick run"""
    from bermuda import CumulativeCell, Triangle

    q = dict(period_start=D(2020, 1, 1), period_end=D(2020, 3, 31), evaluation_date=D(2020, 3, 31))

    def tri(v):
        return Triangle([CumulativeCell(**q, values=v)])

    def run(tris, w, method, seed=1):
        return run_impl(tris, w, method, seed)[0]

    # G (valid, must work): narrow array dtypes, NumPy float scalars, size-1 arrays against scalars
    good = [
        ("float32 + int32 arrays", [tri({"x": np.array([1, 2], dtype=np.float32)}), tri({"x": np.array([3, 5], dtype=np.int32)})],
         [0.5, 0.5], "linear", [2.0, 3.5]),
        ("int16 arrays, weights 0.25/0.75", [tri({"x": np.array([4, 8], dtype=np.int16)}), tri({"x": np.array([8, 16], dtype=np.int16)})],
         [0.25, 0.75], "linear", [7.0, 14.0]),
        ("np.float64 scalars", [tri({"x": np.float64(4)}), tri({"x": np.float64(8)})], [0.5, 0.5], "linear", [6.0]),
        ("size-1 array against scalar", [tri({"x": np.array([4.0])}), tri({"x": 8.0})], [0.5, 0.5], "linear", [6.0]),
        ("bool array (mixture picks samples)", [tri({"x": np.array([True, False, True])}), tri({"x": np.array([True, False, True])})],
         None, "mixture", [1.0, 0.0, 1.0]),
        ("np.int64 scalars (F30, repaired)", [tri({"x": np.int64(4)}), tri({"x": np.int64(8)})], [0.5, 0.5], "linear", [6.0]),
        ("0-d arrays (F30, repaired)", [tri({"x": np.array(4.0)}), tri({"x": np.array(8.0)})], [0.25, 0.75], "linear", [7.0]),
        ("np.int64 beyond 2**53", [tri({"x": np.int64(2**53 + 2)}), tri({"x": np.int64(2**53 + 2)})], [0.5, 0.5], "linear",
         [float(2**53 + 2)]),
        ("strided view", [tri({"x": np.arange(8.0)[::2]}), tri({"x": np.arange(8.0)[::2] * 3})], [0.5, 0.5], "linear",
         [0.0, 4.0, 8.0, 12.0]),
    ]
    for name, tris, w, method, want in good:
        res = run(tris, w, method)
        ctx.count(evaluations=1)
        ctx.hist("hardening:numpy-valid")
        ok = res[0] == "ok" and len(res[1]) == 1 and np.asarray(res[1].cells[0]["x"], dtype=float).reshape(-1).tolist() == want
        if not ok:
            got = repr(res[1]) if res[0] == "err" else repr(res[1].cells[0].values)
            ctx.violation("impl-violation", f"blend ({name}, {method}): expected {want}, got {got[:120]}",
                          {"probe": "numpy-valid", "name": name, "case": None}, found_input=True)
    # known finding B1: EQUAL scalars typed np.float64 in the first triangle and float in a later one are refused by mixture
    res = run([tri({"x": np.float64(4)}), tri({"x": 4.0})], [0.5, 0.5], "mixture")
    ctx.count(evaluations=1)
    if res[0] == "err":
        ctx.violation("impl-violation", "mixture blend of equal scalars typed np.float64 (first triangle) and float (second) is "
                      f"refused: {type(res[1]).__name__}: {res[1]}", {"probe": "numpy-float-mix", "name": "np.float64", "case": None},
                      found_input=True, finding_class=NUMPY_FLOAT_MIX)
    elif not (len(res[1]) == 1 and float(res[1].cells[0]["x"]) == 4.0):
        ctx.violation("impl-violation", "mixture blend of equal scalars np.float64 / float does not pass the scalar through",
                      {"probe": "numpy-float-mix", "name": "np.float64", "case": None}, found_input=True)
    # F: empty triangles.  A single empty triangle blends to the empty triangle; two empty triangles raise IndexError
    # (tri.cells[0]) -- outside C16's quantifier (triangles WITH coordinates; lead's decision), mirrored by the model
    # (Model/Blend.v: `n = 0` with more than one triangle -> Err IndexError); recorded as a note, never as a violation.
    r1 = run([Triangle([])], None, "linear")
    if r1[0] != "ok" or len(r1[1]) != 0:
        ctx.violation("impl-violation", "blend([empty triangle]) does not return the empty triangle", {"probe": "empty-1", "case": None},
                      found_input=True)
    r2 = run([Triangle([]), Triangle([])], None, "linear")
    ctx.count(evaluations=2)
    ctx.notes.append("blend([empty, empty]) -> " + ("empty triangle" if r2[0] == "ok" else type(r2[1]).__name__)
                     + " (outside the quantifier; modelled as Err IndexError)")


def replay_probe(data):
    """re-run the hardening probes; 1 if the recorded one still fails"""
    from harness.common import Ctx

    c = Ctx("C16", "quick", 1)
    got = []
    c.violation = lambda kind, what, d, found_input, finding_class=None: got.append((what, d))   # nothing is written
    hardening(c)
    hit = [w for w, d in got if d.get("name") == data.get("name") and d.get("probe") == data.get("probe")]
    for w in hit:
        print("  FAIL:", w)
    return 1 if hit else 0


def refusal_expected(case):
    """the refusal clauses named by the property: different coordinate sets, cell types, lengths, unequal scalars
    under mixture (only when the mutation really took effect)"""
    tris = case["tris"]
    if len(tris) < 2:
        return False
    t0 = tris[0]
    tag = case["tag"]
    if tag == "len":
        return any(len(t) != len(t0) for t in tris[1:])
    if tag == "celltype":
        return any(type(t.cells[0]) is not type(t0.cells[0]) for t in tris[1:])
    if tag == "coord":
        k0 = {strict_hdr(c)[1:] for c in t0.cells}
        return any({strict_hdr(c)[1:] for c in t.cells} != k0 for t in tris[1:])
    if tag == "scalars" and case["method"].lower() == "mixture":
        for i, c0 in enumerate(t0.cells):
            for f, v in c0.values.items():
                if not isinstance(v, np.ndarray) and any(t.cells[i].values.get(f) != v for t in tris[1:]):
                    return True
    return False


def replay(ctx, data):
    if data.get("mode") == "t-blend":
        # no concrete input: re-run the translator and the generated obligations on the current source
        r = blend_translation(ctx)
        print("T-blend / blend_spec_ok on the current source:", "ok" if r is None else r["what"])
        for ln in (r or {}).get("description_diff", [])[:20]:
            print("  ", ln)
        return 0 if r is None else 1
    if data.get("recheck"):
        # a small case, the large work, the small case again: the two results must agree
        case = case_from_json(data["case"])
        r0, _ = run_impl(case["tris"], case["weights"], case["method"], case["seed"])
        for name in LARGE_QUICK:
            lc = large_case(name, data.get("quick", True))
            run_impl(lc["tris"], lc["weights"], lc["method"], lc["seed"])
        r1, _ = run_impl(case["tris"], case["weights"], case["method"], case["seed"])
        same = r0[0] == r1[0] and (r0[0] != "ok" or canon_out(r0[1]) == canon_out(r1[1]))
        print("small case before / after the large work:", "identical" if same else "DIFFERENT")
        return 0 if same else 1
    if data.get("large"):
        lc = large_case(data["large"], data.get("quick", True))
        fails = large_run(lc)
        print("large case", data["large"])
        for f in fails[:5]:
            print("  FAIL:", f)
        return 1 if fails else 0
    if data.get("probe"):
        return replay_probe(data)
    case = case_from_json(data["case"])
    res, rec = run_impl(case["tris"], case["weights"], case["method"], case["seed"])
    print("blend(", len(case["tris"]), "triangles, weights =", case["weights"], ", method =", case["method"],
          ", seed =", case["seed"], ") ->", "Triangle" if res[0] == "ok" else repr(res[1]))
    tol = case_tol(case)
    fails = direct_oracles(case, res, rec, tol) + seed_monitor(case, res, rec)
    if case["tag"] not in ("ok", "f14", "equal") and res[0] == "ok" and refusal_expected(case):
        fails.append("accepted an input that must be refused")
    for f in fails[:10]:
        print("  FAIL:", f)
    if res[0] == "ok":
        for c in res[1].cells[:4]:
            print("  ", c.period_start, c.evaluation_date, {k: (v.tolist() if isinstance(v, np.ndarray) else v) for k, v in c.values.items()})
    return 1 if fails else 0
