"""C10 -- join / merge / coalesce / period_merge / add_statics.

translate (T-pred, join part) -> GenPred.v; theorems (coq/Props/C10.v static, coq/GenProps/C10_Gen.v
against the generated descriptions); correspondence real operation vs model inside coqc:
exhaustively over all pairs (triples for coalesce) of sub-triangles (the empty one included) of a
5-cell universe (left / right / third operands carry different values and field sets at the same
coordinates) x 6 join types x every `on` subset of a 3-attribute set, cumulative and incremental, plus
random larger pairs; executable specifications on the implementation's outputs; direct Python oracles
(set-operation key sets, one pair per key, original cells, right bias, first wins, only requested fields
copied, counts and coordinates unchanged) on every case."""
from __future__ import annotations

import datetime
import itertools
import random
import shutil
import time
import warnings

from harness import coqterm as ct
from harness import join_common as jc
from harness.c11 import meta_key, norm_mval
from harness.common import COQ, REPO
from harness.gen import Gen

D = datetime.date
JOIN_TYPES = ["full", "inner", "left", "right", "left_anti", "right_anti"]
ON_ATTRS = ["country", "lob", "per_occurrence_limit"]   # a str attribute, a details key, the numeric attribute
HEADER = r"""From Bermuda Require Import Model.Select Model.Join.
From Gen Require Import GenPred.
Definition o_none : option (list str) := None.
Definition o_empty : option (list str) := Some [].
Definition a_country : str := [99;111;117;110;116;114;121].
Definition a_lob : str := [108;111;98].
Definition a_limit : str := s_per_occurrence_limit.
Definition code (m s : bool) : nat := if m then (if s then 0 else 2) else (if s then 1 else 3).
Definition known_jt (jt : str) : bool :=
  str_mem jt [s_full; s_left; s_right; s_inner; s_left_anti; s_right_anti].
Definition chk_join jt on a b (out : result (list (option cell * option cell))) : nat :=
  code (result_eqb (perm_eqb pair_seqb) (join gen_join jt on a b) out)
       (match out with
        | Ok o => negb (kinds_clash a b) && known_jt jt && join_spec_b jt on a b o
        | Err e => err_eqb e ValueError && (kinds_clash a b || negb (known_jt jt))
        end).
Definition chk_merge jt on a b (out : result (list cell)) : nat :=
  code (result_eqb (perm_eqb cell_seqb) (merge gen_join gen_merge jt on a b) out)
       (match out with
        | Ok o => negb (kinds_clash a b) && known_jt jt && merge_spec_b jt on a b o
        | Err e => err_eqb e ValueError && (kinds_clash a b || negb (known_jt jt))
        end).
Definition chk_coalesce (ts : list (list cell)) (out : list cell) : nat :=
  code (perm_eqb cell_seqb (coalesce gen_merge ts) out) (coalesce_spec_b ts out).
Definition chk_statics fields t s (out : list cell) : nat :=
  code (perm_eqb cell_seqb (add_statics fields t s) out) (statics_spec_b fields t s out).
Definition pm_matches (c : cell) (t2 : list cell) : list cell :=
  filter (fun r => ckey_eqb (pm_key c) (pm_key r)) t2.
Definition pm_spec_b (sfx : option str) (t1 t2 out : list cell) : bool :=
  list_eqb (fun c o => match pm_matches c t2 with
                       | [] => cell_seqb o c
                       | [r] => cell_seqb o (overwrite_values sfx c r)
                       | _ => false
                       end) t1 out.
Definition chk_pm sfx a b (out : result (list cell)) : nat :=
  code (result_eqb (perm_eqb cell_seqb) (period_merge sfx a b) out)
       (match out with
        | Ok o => negb (kinds_clash a b) && pm_spec_b sfx a b o
        | Err e => err_eqb e ValueError
                   && (kinds_clash a b || existsb (fun c => (2 <=? length (pm_matches c b))%nat) a)
        end).
"""
FALLBACK = ("From Bermuda Require Import Model.Base Model.Select Model.Join.\nImport ListNotations.\n"
            "Definition gen_join : join_desc := mkJoinDesc [KMeta; KPs; KPe; KEv] [KMeta; KPs; KPe; KEv; KPrev] "
            "SUnion expected_join_table.\n"
            "Definition gen_merge : merge_desc := mkMergeDesc true true [KMeta; KPs; KPe; KEv] true.\n")


# =============================================================================== universes
def universes(basis):
    """three 5-cell universes with the same coordinates/metadata and different values / field sets.
    Metadata differ in country, details['lob'], currency so that every `on` subset merges some."""
    b = jc.bermuda()
    A = dict(country="US", per_occurrence_limit=1000, details={"lob": "auto", "n": 1})
    B = dict(country="US", per_occurrence_limit=1000, details={"lob": "home", "n": 1})
    C = dict(country="DE", currency="EUR", per_occurrence_limit=2500.5, details={"lob": "auto", "n": 2}, loss_details={"cov": "x"})
    P1 = (D(2020, 1, 1), D(2020, 3, 31))
    P2 = (D(2020, 4, 1), D(2020, 6, 30))
    E1, E2 = D(2020, 3, 31), D(2020, 6, 30)
    coords = [(A, P1, E1), (A, P1, E2), (B, P1, E1), (C, P1, E1), (A, P2, E2)]
    # None is a valid field value: on the right it must override a left value / appear as a right-only
    # field (merge, period_merge, add_statics sources); on the left it must be overridden
    vals = [
        [{"paid": 1, "prem": 10}, {"paid": 2, "rep": None}, {"paid": 3, "rep": 7}, {"rep": 4.5, "paid": 9}, {"prem": 5}],
        [{"prem": 11, "paid": None, "extra": 1.5, "only_r": None}, {"rep": 20, "paid": None}, {"paid": 30, "rep": None},
         {"paid": 0, "rep": 0.0}, {"prem": None, "paid": 50}],
        [{"paid": None}, {"paid": 2000, "prem": 7}, {"z": 0, "paid": None}, {}, {"prem": 6.25}],
    ]
    out = []
    for ui, vs in enumerate(vals):
        cells = []
        for ci, ((mk, (s, e), ev), v) in enumerate(zip(coords, vs)):
            mk = dict(mk)
            if ui == 1 and isinstance(mk.get("per_occurrence_limit"), int):
                mk["per_occurrence_limit"] = float(mk["per_occurrence_limit"])   # 1000 == 1000.0: the same slice
            # Python-equal metadata written differently INSIDE one operand and ACROSS operands: the detail
            # keys filled in another order, n as 1 / 1.0 / True
            d = mk["details"]
            variant = (ui + ci) % 3
            if variant == 1:
                mk["details"] = {"n": float(d["n"]), "lob": d["lob"]}
            elif variant == 2:
                mk["details"] = {"n": (True if d["n"] == 1 else d["n"]), "lob": d["lob"]}
            m = b.Metadata(**{k: (dict(x) if isinstance(x, dict) else x) for k, x in mk.items()})
            if basis == "inc":
                prev = s - datetime.timedelta(days=1) if ev == E1 or (s, e) == P2 else E1
                cells.append(b.IncrementalCell(period_start=s, period_end=e, prev_evaluation_date=prev,
                                               evaluation_date=ev, values=dict(v), metadata=m))
            else:
                cells.append(b.CumulativeCell(period_start=s, period_end=e, evaluation_date=ev, values=dict(v), metadata=m))
        out.append(cells)
    if basis == "inc":
        # same (metadata, period, evaluation date), another prev_evaluation_date: distinct join key,
        # same coalesce key
        for u in out:
            c = u[1]
            u[4] = b.IncrementalCell(period_start=c.period_start, period_end=c.period_end,
                                     prev_evaluation_date=c.period_start - datetime.timedelta(days=1),
                                     evaluation_date=c.evaluation_date, values=dict(u[4].values), metadata=c.metadata)
    return out


def sub(u, mask):
    return jc.mk_triangle([u[i] for i in range(len(u)) if mask >> i & 1])


# =============================================================================== python oracles
def red_meta_key(m, on):
    if not on:
        return meta_key(m)
    g = lambda a: getattr(m, a) if a in on else None        # noqa: E731
    return (g("risk_basis"), g("country"), g("currency"), g("reinsurance_basis"), g("loss_definition"),
            norm_mval(m.per_occurrence_limit if "per_occurrence_limit" in on else None),
            tuple(sorted((k, norm_mval(v)) for k, v in m.details.items() if k in on)),
            tuple(sorted((k, norm_mval(v)) for k, v in m.loss_details.items() if k in on)))


def red_canon(c, on):
    """strict canonical form of the cell with metadata reduced to `on` (what the pair must carry)"""
    cc = ct.canon_cell(c, ordered=True)
    if not on:
        return cc
    m = c.metadata
    g = lambda a: getattr(m, a) if a in on else None        # noqa: E731
    cm = (g("risk_basis"), g("country"), g("currency"), g("reinsurance_basis"), g("loss_definition"),
          ct.canon_mval(m.per_occurrence_limit if "per_occurrence_limit" in on else None),
          tuple((k, ct.canon_mval(v)) for k, v in m.details.items() if k in on),
          tuple((k, ct.canon_mval(v)) for k, v in m.loss_details.items() if k in on))
    return cc[:5] + (cm,) + cc[6:]


def is_inc(c):
    return type(c).__name__ == "IncrementalCell"


def ckey(c, on, inc):
    k = (red_meta_key(c.metadata, on), c.period_start, c.period_end, c.evaluation_date)
    return k + ((c.prev_evaluation_date,) if inc else ())


def clash(t1, t2):
    return len(t1) > 0 and len(t2) > 0 and type(t1.cells[0]) is not type(t2.cells[0])


WANT = {"full": lambda l, r: l or r, "inner": lambda l, r: l and r, "left": lambda l, r: l,
        "right": lambda l, r: r, "left_anti": lambda l, r: l and not r, "right_anti": lambda l, r: r and not l}


def index(t, on, inc):
    d = {}
    for c in t.cells:
        d[ckey(c, on, inc)] = c          # last wins
    return d


def union_vals(v1, v2):
    return tuple((k, ct.canon_value(v)) for k, v in {**v1, **v2}.items())


def oracle_join(t1, t2, jt, on, res, merged=False):
    probs = []
    exc = res if isinstance(res, BaseException) else None
    bad_in = clash(t1, t2) or jt not in WANT
    what = "merge" if merged else "join"
    if bad_in:
        if not isinstance(exc, ValueError):
            probs.append(f"{what}: mismatching cell types / unknown join type did not raise ValueError")
        return probs
    if exc is not None:
        return [f"{what}({jt}, on={on}) raised {type(exc).__name__}: {exc} "
                f"(left {len(t1)} cells, right {len(t2)} cells)"]
    inc = len(t1) > 0 and is_inc(t1.cells[0])
    d1, d2 = index(t1, on, inc), index(t2, on, inc)
    want = {k for k in set(d1) | set(d2) if WANT[jt](k in d1, k in d2)}
    got = {}
    items = [(o, None) for o in res.cells] if merged else res
    for p in items:
        present = [c for c in p if c is not None]
        if not present:
            probs.append("join: a pair of two Nones")
            continue
        k = ckey(present[0], None, inc)
        if k in got:
            probs.append(f"{what}({jt}): two results for the same coordinates")
        got[k] = p
    if set(got) != want:
        probs.append(f"{what}({jt}, on={on}): result coordinates are not the {jt} combination of the operands' "
                     f"coordinates ({len(got)} vs {len(want)}; left {len(d1)}, right {len(d2)})")
        return probs
    for k, p in got.items():
        c1, c2 = d1.get(k), d2.get(k)
        if merged:
            o = ct.canon_cell(p[0], ordered=True)
            if c1 is not None and c2 is not None:
                w = red_canon(c1, on)[:6] + (union_vals(c1.values, c2.values),)
                if o != w:
                    probs.append("merge: a matched coordinate does not carry the left cell with the union of the "
                                 f"fields, right winning: got {o[6]}, want {w[6]}")
            elif o != red_canon(c1 if c1 is not None else c2, on):
                probs.append("merge: an unmatched cell was changed")
        else:
            for side, c, o in (("left", c1, p[0]), ("right", c2, p[1])):
                if (c is None) != (o is None):
                    probs.append(f"join({jt}): the {side} cell of a pair is {'missing' if o is None else 'unexpected'}")
                elif c is not None and ct.canon_cell(o, ordered=True) != red_canon(c, on):
                    probs.append(f"join({jt}): the {side} cell of a pair is not the original cell (metadata reduced to on)")
    return probs


def oracle_coalesce(ts, res):
    if isinstance(res, BaseException):
        return [f"coalesce raised {type(res).__name__}: {res}"]
    first = {}
    for t in ts:
        for c in t.cells:
            first.setdefault((meta_key(c.metadata), c.period, c.evaluation_date), c)
    probs = []
    got = {}
    for o in res.cells:
        k = (meta_key(o.metadata), o.period, o.evaluation_date)
        if k in got:
            probs.append("coalesce: two cells for one coordinate")
        got[k] = o
    if set(got) != set(first):
        probs.append(f"coalesce: {len(got)} coordinates, the operands have {len(first)}")
        return probs
    for k, o in got.items():
        if ct.canon_cell(o, ordered=True) != ct.canon_cell(first[k], ordered=True):
            probs.append("coalesce: a coordinate does not carry the unmodified cell of the first triangle holding it")
            break
    return probs


def oracle_statics(t, src, fields, res):
    if isinstance(res, BaseException):
        return [f"add_statics raised {type(res).__name__}: {res}"]
    probs = []
    if len(res.cells) != len(t.cells):
        return [f"add_statics changed the number of cells ({len(t.cells)} -> {len(res.cells)})"]
    rows = {}           # (slice, period) -> source cells in source order
    for s_ in src.cells:
        rows.setdefault((meta_key(s_.metadata), s_.period), []).append(s_)
    for c, o in zip(t.cells, res.cells):
        cc, co = ct.canon_cell(c, ordered=True), ct.canon_cell(o, ordered=True)
        if cc[:6] != co[:6]:
            probs.append("add_statics changed class, coordinates or metadata of a cell")
            break
        row = rows.get((meta_key(c.metadata), c.period), [])
        if row:
            mx = max(s.evaluation_date for s in row)
            s = [x for x in row if x.evaluation_date == mx][-1]
            w = union_vals(c.values, {k: v for k, v in s.values.items() if k in fields})
        else:
            w = cc[6]
        if co[6] != w:
            probs.append(f"add_statics({fields}): cell values {co[6]}, expected {w} "
                         "(only the requested fields, from the latest source cell of the slice and period)")
            break
    return probs


def oracle_pm(t1, t2, sfx, res):
    exc = res if isinstance(res, BaseException) else None
    idx = {}
    for c in t2.cells:
        idx.setdefault((c.period_start, c.period_end, meta_key(c.metadata)), []).append(c)
    multi = any(len(idx.get((c.period_start, c.period_end, meta_key(c.metadata)), [])) > 1 for c in t1.cells)
    if clash(t1, t2) or multi:
        return [] if isinstance(exc, ValueError) else ["period_merge: ambiguous / mismatching operands did not raise ValueError"]
    if exc is not None:
        return [f"period_merge raised {type(exc).__name__}: {exc}"]
    if len(res.cells) != len(t1.cells):
        return [f"period_merge changed the number of cells ({len(t1.cells)} -> {len(res.cells)})"]
    for c, o in zip(t1.cells, res.cells):
        cc, co = ct.canon_cell(c, ordered=True), ct.canon_cell(o, ordered=True)
        if cc[:6] != co[:6]:
            return ["period_merge changed class, coordinates or metadata of a cell"]
        m = idx.get((c.period_start, c.period_end, meta_key(c.metadata)), [])
        w = union_vals(c.values, {(k + sfx if sfx else k): v for k, v in m[0].values.items()}) if m else cc[6]
        if co[6] != w:
            return [f"period_merge(suffix={sfx!r}): cell values {co[6]}, expected {w}"]
    return []


# =============================================================================== running + Coq terms
ANAME = {"country": "a_country", "lob": "a_lob", "per_occurrence_limit": "a_limit"}
JNAME = {"full": "s_full", "inner": "s_inner", "left": "s_left", "right": "s_right",
         "left_anti": "s_left_anti", "right_anti": "s_right_anti"}


def con(on):
    if on is None:
        return "o_none"
    if not on:
        return "o_empty"
    return "(Some [" + ";".join(ANAME.get(a) or ct.cstr(a) for a in on) + "])"


def cjt(jt):
    return JNAME.get(jt) or ct.cstr(jt)


def call(f):
    try:
        with warnings.catch_warnings():
            warnings.simplefilter("ignore")
            return f()
    except ct.NotRepresentable:
        raise
    except Exception as ex:  # noqa: BLE001
        return ex


class Runner:
    def __init__(self, ctx, cases):
        self.ctx, self.cases = ctx, cases
        self.fails = []
        self.n = 0

    def record(self, data, probs, nontriv):
        self.n += 1
        if probs:
            self.fails.append((data, probs))
        if nontriv:
            self.ctx.nontriv(repr(sorted(data.items(), key=lambda kv: kv[0]))[:2000])

    def pairs_term(self, res):
        f = lambda c: "None" if c is None else f"(Some {self.cases.lit(c)})"     # noqa: E731
        return "[" + ";".join(f"({f(a)},{f(b)})" for a, b in res) + "]"

    def res_term(self, res, printer):
        if isinstance(res, BaseException):
            return f"(Err {ct.cerr(res)})"
        return f"(Ok {printer(res)})"

    def join_merge(self, t1, t2, a, b, jt, on, data, do_join=True, do_merge=True, coq=True):
        """a, b: Coq terms of the operands; data: JSON-able description for the replay"""
        bm = jc.bermuda()
        cs = self.cases
        nt = len(t1) + len(t2) >= 2
        if do_join:
            res = call(lambda: bm.utils.join(t1, t2, jt, on))
            self.ctx.hist(f"join:{jt}" + (":raised" if isinstance(res, BaseException) else ""))
            self.record({**data, "op": "join"}, oracle_join(t1, t2, jt, on, res), nt)
            cs.begin_case()
            coq and cs.add(f"chk_join {cjt(jt)} {con(on)} {a} {b} {self.res_term(res, self.pairs_term)}",
                   {**data, "op": "join"})
        if do_merge:
            res = call(lambda: t1.merge(t2, join_type=jt, on=on))
            self.ctx.hist(f"merge:{jt}" + (":raised" if isinstance(res, BaseException) else ""))
            self.record({**data, "op": "merge"}, oracle_join(t1, t2, jt, on, res, merged=True), nt)
            cs.begin_case()
            coq and cs.add(f"chk_merge {cjt(jt)} {con(on)} {a} {b} {self.res_term(res, lambda r: cs.lits(r.cells))}",
                   {**data, "op": "merge"})

    def coalesce(self, ts, terms, data, coq=True):
        res = call(lambda: ts[0].coalesce(ts[1:]))
        self.ctx.hist("coalesce" + (":raised" if isinstance(res, BaseException) else ""))
        self.record({**data, "op": "coalesce"}, oracle_coalesce(ts, res), sum(len(t) for t in ts) >= 2)
        if not coq:
            return
        self.cases.begin_case()
        out = "[]" if isinstance(res, BaseException) else self.cases.lits(res.cells)
        self.cases.add(("1%nat" if isinstance(res, BaseException) else
                        f"chk_coalesce [{';'.join(terms)}] {out}"), {**data, "op": "coalesce"})

    def statics(self, t, src, a, b, fields, data, coq=True):
        res = call(lambda: t.add_statics(src, statics=fields))
        self.ctx.hist("add_statics" + (":raised" if isinstance(res, BaseException) else ""))
        self.record({**data, "op": "add_statics"}, oracle_statics(t, src, fields, res), len(t) + len(src) >= 2)
        if not coq:
            return
        self.cases.begin_case()
        self.cases.add(("1%nat" if isinstance(res, BaseException) else
                        f"chk_statics {jc.cstrs(fields)} {a} {b} {self.cases.lits(res.cells)}"),
                       {**data, "op": "add_statics"})

    def pm(self, t1, t2, a, b, sfx, data, coq=True):
        res = call(lambda: t1.period_merge(t2, suffix=sfx))
        self.ctx.hist("period_merge" + (":raised" if isinstance(res, BaseException) else ""))
        self.record({**data, "op": "period_merge"}, oracle_pm(t1, t2, sfx, res), len(t1) + len(t2) >= 2)
        if not coq:
            return
        self.cases.begin_case()
        s = "None" if sfx is None else f"(Some {ct.cstr(sfx)})"
        self.cases.add(f"chk_pm {s} {a} {b} {self.res_term(res, lambda r: self.cases.lits(r.cells))}",
                       {**data, "op": "period_merge"})


def on_variants():
    out = [None, []]
    for r in range(1, len(ON_ATTRS) + 1):
        out += [list(s) for s in itertools.combinations(ON_ATTRS, r)]
    return out


def exhaustive(ctx, run: Runner, basis, full_coq, masks=32):
    """The REAL operations and the python oracles run on the full product (all pairs x 6 join types x
    every `on` variant; all triples).  Inside coqc: the full product when `full_coq` (thorough tier);
    otherwise (quick tier) every pair x every join type with on=None plus ONE rotating other `on`
    variant per pair (cumulative), a rotating third of that for incremental, and the triples of the
    16 sub-triangles of the first four cells plus a sample of the others."""
    ul, ur, u3 = universes(basis)
    pre = basis[0]
    cs = run.cases
    shared = [(f"Definition {pre}ul : list cell :=\n  {ct.ccells(ul)}.", 5),
              (f"Definition {pre}ur : list cell :=\n  {ct.ccells(ur)}.", 5),
              (f"Definition {pre}u3 : list cell :=\n  {ct.ccells(u3)}.", 5)]
    tris = {}
    for name, u in (("l", ul), ("r", ur), ("c", u3)):
        for m in range(masks):
            t = sub(u, m)
            tris[name, m] = t
            shared.append((f"Definition {pre}{name}{m} : list cell := "
                           f"{jc.out_cells_term(t.cells, u, pre + 'u' + ('3' if name == 'c' else name))}.", 0))
    cs.shared = shared
    cs._new()
    inc = basis == "inc"
    ons = on_variants() if full_coq or not inc else [None, ["country"], ["lob", "per_occurrence_limit"]]
    others = [o for o in ons if o is not None]
    fls = ([], ["prem"], ["paid", "rep"], ["prem", "paid", "rep", "extra", "only_r", "nope"])
    for m1 in range(masks):
        for m2 in range(masks):
            t1, t2 = tris["l", m1], tris["r", m2]
            a, b = f"{pre}l{m1}", f"{pre}r{m2}"
            pid = m1 * masks + m2
            for ji, jt in enumerate(JOIN_TYPES):
                for oi, on in enumerate(ons):
                    if full_coq:
                        coq = True
                    elif not inc:
                        coq = on is None or others[pid % len(others)] == on
                    else:
                        coq = (pid + ji) % 3 == 0 and (on is None or others[pid % len(others)] == on)
                    run.join_merge(t1, t2, a, b, jt, on, {"basis": basis, "left": m1, "right": m2, "jt": jt, "on": on},
                                   coq=coq)
            for si, sfx in enumerate((None, "_x")):
                run.pm(t1, t2, a, b, sfx, {"basis": basis, "left": m1, "right": m2, "suffix": sfx},
                       coq=full_coq or (not inc) or (pid + si) % 2 == 0)
            for fi, fields in enumerate(fls):
                run.statics(t1, t2, a, b, list(fields), {"basis": basis, "left": m1, "right": m2, "fields": list(fields)},
                            coq=full_coq or (pid + fi) % (4 if inc else 2) == 0)
    # merge t t = t
    for m1 in range(masks):
        t = tris["l", m1]
        res = call(lambda: t.merge(t))
        same = (not isinstance(res, BaseException)) and jc.canon_seq(res.cells) == jc.canon_seq(t.cells)
        run.record({"basis": basis, "left": m1, "op": "merge_self"}, [] if same else ["merge(t, t) is not t"], len(t) >= 2)
    # coalesce: triples
    rng = random.Random(ctx.seed * 31 + (1 if inc else 0))
    for x in range(masks):
        for y in range(masks):
            for z in range(masks):
                coq = full_coq or (max(x, y, z) < 16 and not inc) or rng.random() < (0.03 if not inc else 0.06)
                if inc and not coq and (x + y + z) % 4:
                    continue        # quick tier, incremental: a quarter of the triples
                run.coalesce([tris["l", x], tris["r", y], tris["c", z]], [f"{pre}l{x}", f"{pre}r{y}", f"{pre}c{z}"],
                             {"basis": basis, "masks": [x, y, z]}, coq=coq)
    for x in range(0, masks, 5):        # one and two operands
        run.coalesce([tris["l", x]], [f"{pre}l{x}"], {"basis": basis, "masks": [x]})
        run.coalesce([tris["r", x], tris["l", masks - 1 - x]], [f"{pre}r{x}", f"{pre}l{masks - 1 - x}"],
                     {"basis": basis, "masks_rl": [x, masks - 1 - x]})


def derive_second(t, rng, g: Gen):
    """a second triangle sharing some coordinates with t: a random part of t's cells with other
    values / field sets, plus cells at other evaluation dates"""
    cells = []
    for c in t.cells:
        r = rng.random()
        if r < 0.55:
            vals = {}
            for k, v in c.values.items():
                if rng.random() < 0.7:
                    vals[k] = g.value(rng.choice(["int", "float"]))
            if rng.random() < 0.5:
                vals["added_field"] = g.value("int")
            if vals and rng.random() < 0.4:           # a None overriding a left value
                vals[rng.choice(sorted(vals))] = None
            if rng.random() < 0.3:                    # a right-only None field
                vals["none_field"] = None
            items = list(vals.items())
            rng.shuffle(items)
            cells.append(jc.with_values(c, dict(items)))
        elif r < 0.7 and not is_inc(c):
            ev = c.evaluation_date + datetime.timedelta(days=rng.choice([1, 31, 400]))
            try:
                cells.append(type(c)(period_start=c.period_start, period_end=c.period_end, evaluation_date=ev,
                                     values={"paid_loss": g.value("int")}, metadata=c.metadata))
            except ValueError:
                pass
    rng.shuffle(cells)
    return jc.mk_triangle(cells)


def random_pairs(ctx, run: Runner, n):
    rng = random.Random(ctx.seed * 4409 + 10)
    g = Gen(rng)
    cs = run.cases
    cs.shared = []
    cs._new()
    for k in range(n):
        basis = "inc" if k % 3 == 1 else "cum"
        with warnings.catch_warnings():
            warnings.simplefilter("ignore")
            cells, info = g.cells(basis=basis, n_slices=[1, 2, 3][k % 3], values=["int", "float", "mixed"][k % 3],
                                  n_periods=rng.randint(1, 3), n_lags=rng.randint(1, 3), same_fields=(k % 2 == 0),
                                  slice_diff=rng.choice(["country", "currency", "details", "several", "loss_details",
                                                         "per_occurrence_limit"]))
        if len(cells) > 14:
            cells = cells[:14]
        if k % 2 == 1 and cells:      # >= 2 detail keys, so that another insertion order exists
            cache = {}
            cells = [jc.with_meta(c, cache.setdefault(id(c.metadata), jc.at_least_two_details(c.metadata))) for c in cells]
            # ... and written differently on some cells of the LEFT operand itself
            for i in rng.sample(range(len(cells)), max(1, len(cells) // 4)):
                cells[i] = jc.with_meta(cells[i], jc.alias_meta(cells[i].metadata, rng))
        t1 = jc.mk_triangle(cells)
        t2 = derive_second(t1, rng, g)
        if k % 2 == 1 and t2.cells:   # equal metadata written differently on the right operand
            t2 = jc.mk_triangle([jc.with_meta(c, jc.alias_meta(c.metadata, rng)) for c in t2.cells])
        if k % 6 == 4 and t2.cells:   # the right operand's metadata differ only in WHERE a key lives
            mvd = {}
            for c in t2.cells:
                if id(c.metadata) not in mvd:
                    mv, base = jc.moved_meta(c.metadata)
                    mvd[id(c.metadata)] = mv if base is c.metadata else c.metadata
            t2 = jc.mk_triangle([jc.with_meta(c, mvd[id(c.metadata)]) for c in t2.cells])
        if k % 7 == 6:                # disjoint coordinates
            t2 = jc.mk_triangle([c for c in t2.cells if ckey(c, None, False) not in {ckey(x, None, False) for x in t1.cells}])
        try:
            la, lb = ct.ccells(t1.cells), ct.ccells(t2.cells)
        except ct.NotRepresentable:
            ctx.hist("skipped:not-representable")
            continue
        cs.hold = False
        cs.begin_case()
        cs.add_def(f"a{k}", la, len(t1))
        cs.hold = True
        cs.add_def(f"b{k}", lb, len(t2))
        ctx.hist(f"random-pair:{basis}/slices={info['n_slices']}/{info['slice_diff']}")
        j1, j2 = jc.tri_to_json(t1), jc.tri_to_json(t2)
        attrs = ["country", "currency", "risk_basis", "per_occurrence_limit"] + \
            sorted({x for c in t1.cells for x in list(c.metadata.details) + list(c.metadata.loss_details)})
        for jt in JOIN_TYPES:
            on = rng.choice([None, None, rng.sample(attrs, rng.randint(1, min(3, len(attrs))))])
            run.join_merge(t1, t2, f"a{k}", f"b{k}", jt, on, {"t1": j1, "t2": j2, "jt": jt, "on": on})
        run.join_merge(t2, t1, f"b{k}", f"a{k}", rng.choice(JOIN_TYPES), None,
                       {"t1": j2, "t2": j1, "jt": "full", "on": None}, do_join=False) if False else None
        if k % 5 == 0:        # always some joins on the numeric attribute
            for jt in ("full", "inner", "left_anti"):
                run.join_merge(t1, t2, f"a{k}", f"b{k}", jt, ["per_occurrence_limit"],
                               {"t1": j1, "t2": j2, "jt": jt, "on": ["per_occurrence_limit"]})
        fields = sorted({x for c in t2.cells for x in c.values})
        for fs in ([], fields[:1], rng.sample(fields, min(2, len(fields))), fields + ["nope"]):
            run.statics(t1, t2, f"a{k}", f"b{k}", fs, {"t1": j1, "t2": j2, "fields": fs})
        for sfx in (None, "", "_src"):
            run.pm(t1, t2, f"a{k}", f"b{k}", sfx, {"t1": j1, "t2": j2, "suffix": sfx})
        run.coalesce([t2, t1], [f"b{k}", f"a{k}"], {"ts": [j2, j1]})
        run.coalesce([t1, t2, t1], [f"a{k}", f"b{k}", f"a{k}"], {"ts": [j1, j2, j1]})
        res = call(lambda: t1.merge(t1))
        dup = len({ckey(c, None, is_inc(c)) for c in t1.cells}) != len(t1.cells)
        same = (not isinstance(res, BaseException)) and jc.canon_seq(res.cells) == jc.canon_seq(t1.cells)
        run.record({"t1": j1, "op": "merge_self"}, [] if same or dup else ["merge(t, t) is not t"], len(t1) >= 2)
        # select-then-merge recombination: splitting the fields and merging the parts gives the cells back
        fs1 = sorted({x for c in t1.cells for x in c.values})
        if not dup and fs1:
            fa, fb = fs1[::2], fs1[1::2]
            res = call(lambda: t1.select(fa).merge(t1.select(fb)))
            run.record({"t1": j1, "op": "select_merge", "fa": fa, "fb": fb}, oracle_select_merge(t1, res), len(t1) >= 2)
    cs.hold = False


def oracle_select_merge(t, res):
    if isinstance(res, BaseException):
        return [f"select/merge raised {type(res).__name__}: {res}"]
    if ct.canon_tri(res) != ct.canon_tri(t):        # field order inside a cell is not compared here
        return ["t.select(A).merge(t.select(B)) with A, B a split of the fields is not t"]
    return []


def canon_result(res):
    if isinstance(res, BaseException):
        return ("raised", type(res).__name__)
    if hasattr(res, "cells"):
        return ("tri", tuple(jc.canon_seq(res.cells)))
    f = lambda c: None if c is None else ct.canon_cell(c, ordered=True)      # noqa: E731
    return ("pairs", tuple(sorted(((f(a), f(b_)) for a, b_ in res), key=repr)))


def hardening(ctx, run: Runner):
    """small directed operand pairs on every run (notes/HARDENING.md families B, D, E, F, G, H, I, J, K, L)"""
    import numpy as np
    import pandas as pd

    bm = jc.bermuda()
    cs = run.cases
    cs.hold = False
    cs.shared = []
    cs._new()
    P1, P2, PY = (D(2021, 1, 1), D(2021, 3, 31)), (D(2021, 10, 1), D(2021, 12, 31)), (D(2021, 1, 1), D(2021, 12, 31))
    E1, E2 = D(2021, 12, 31), D(2022, 3, 31)

    def tri(specs, dt=None):
        """specs: (metadata, period, evaluation date, values)"""
        cells = []
        for m, (s0, e0), ev, v in specs:
            if dt:
                s0, e0, ev = dt(s0), dt(e0), dt(ev)
            cells.append(bm.CumulativeCell(period_start=s0, period_end=e0, evaluation_date=ev, values=dict(v), metadata=m))
        return jc.mk_triangle(cells)

    M = bm.Metadata
    m0 = M(country="US", details={"lob": "auto"})
    T = {}
    # E: falsy values on the right override / arrive as right-only fields
    T["vals"] = tri([(m0, P1, E1, {"paid": 5, "rep": 7.5, "x": 1}), (m0, P2, E1, {"paid": 6})])
    T["falsy"] = tri([(m0, P1, E1, {"paid": 0, "rep": 0.0, "x": None, "only_r": 0}), (m0, P2, E2, {"paid": 0.0})])
    # B: None vs "" vs missing; limit 0 vs None; only loss_details differ
    T["c_none"] = tri([(M(country=None), P1, E1, {"paid": 1})])
    T["c_empty"] = tri([(M(country=""), P1, E1, {"paid": 2})])
    T["lim0"] = tri([(M(country="", per_occurrence_limit=0), P1, E1, {"paid": 3})])
    T["lim0f"] = tri([(M(country="", per_occurrence_limit=0.0), P1, E1, {"rep": 4})])
    T["ld_x"] = tri([(M(country="US", loss_details={"cov": "x"}), P1, E1, {"paid": 5}),
                     (M(country="US", loss_details={"cov": "y"}), P1, E1, {"paid": 6})])
    T["ld_y"] = tri([(M(country="DE", loss_details={"cov": "y"}), P1, E1, {"rep": 7}),
                     (M(country="US", loss_details={"cov": "y", "peril": "w"}), P1, E1, {"rep": 8})])
    # M: operands / sibling slices whose ONLY difference is a pair of values with colliding CPython hashes
    T["hc_a"] = tri([(M(details={"v": -1}), P1, E1, {"paid": 1}), (M(loss_details={"w": -1.0}), P1, E1, {"paid": 2}),
                     (M(per_occurrence_limit=0), P1, E1, {"paid": 3}), (M(details={"v": -2}), P2, E1, {"paid": 4})])
    T["hc_b"] = tri([(M(details={"v": -2}), P1, E1, {"rep": 10}), (M(loss_details={"w": -2.0}), P1, E1, {"rep": 20}),
                     (M(per_occurrence_limit=2 ** 61 - 1), P1, E1, {"rep": 30}), (M(details={"v": -2.0}), P2, E1, {"rep": 40})])
    # I: restated cells (same coordinates, other values) inside an operand
    T["restated_l"] = tri([(m0, P1, E1, {"paid": 1}), (m0, P1, E1, {"paid": 2, "rep": 3}), (m0, P2, E1, {"paid": 4})])
    T["restated_r"] = tri([(m0, P1, E1, {"paid": 10}), (m0, P1, E1, {"rep": 30, "paid": None})])
    # J: nested periods sharing a start / an end inside one slice
    T["nested_l"] = tri([(m0, P1, E1, {"paid": 1}), (m0, PY, E1, {"paid": 2}), (m0, P2, E1, {"paid": 3}), (m0, PY, E2, {"paid": 4})])
    T["nested_r"] = tri([(m0, PY, E2, {"prem": 100}), (m0, P1, D(2021, 6, 30), {"prem": 25}), (m0, P1, E2, {"prem": 26})])
    T["nested_r1"] = tri([(m0, PY, E2, {"prem": 100}), (m0, P2, E2, {"prem": 26})])
    # G: NumPy corner types (values must be carried unchanged)
    a6 = np.arange(6, dtype=np.int64)
    T["np_l"] = tri([(m0, P1, E1, {"big": np.int64(2 ** 53 + 1), "a32": np.array([1.5, 2.5], dtype=np.float32), "s1": np.array([5])}),
                     (m0, P2, E1, {"f64": np.float64(0.5)})])
    T["np_r"] = tri([(m0, P1, E1, {"big": np.int64(2 ** 53 + 3), "i32": np.array([1, 2], dtype=np.int32), "strided": a6[::2]}),
                     (m0, P2, E2, {"s1": np.array([7.0])})])
    T["np_py"] = tri([(m0, P1, E1, {"flag": True, "z0": np.array(5), "bools": np.array([True, False])})])
    # D: operands built from datetimes with a time of day
    T["dt_l"] = tri([(m0, P1, E1, {"paid": 1}), (m0, P2, E1, {"paid": 2})], dt=lambda d: datetime.datetime(d.year, d.month, d.day, 13, 5))
    T["dt_r"] = tri([(m0, P1, E1, {"rep": 3}), (m0, P2, E2, {"rep": 4})], dt=lambda d: pd.Timestamp(d.year, d.month, d.day, 23, 59))
    # F: one cell / empty
    T["one"] = tri([(m0, P1, E1, {"paid": 1})])
    T["none"] = jc.mk_triangle([])
    ok = {}
    for name, t in T.items():
        try:
            cs.add_def(f"h_{name}", ct.ccells(t.cells), len(t))
            ok[name] = True
        except ct.NotRepresentable:
            ok[name] = False
    cs.hold = True
    J = {k: jc.tri_to_json(t) for k, t in T.items()}
    pairs = [("vals", "falsy"), ("falsy", "vals"), ("c_none", "c_empty"), ("c_empty", "lim0"), ("lim0", "lim0f"),
             ("ld_x", "ld_y"), ("ld_y", "ld_x"), ("restated_l", "restated_r"), ("restated_r", "restated_l"),
             ("nested_l", "nested_r"), ("nested_l", "nested_r1"), ("nested_r", "nested_l"), ("np_l", "np_r"),
             ("np_r", "np_l"), ("np_py", "np_l"), ("np_l", "np_py"), ("dt_l", "dt_r"), ("dt_r", "dt_l"),
             ("one", "vals"), ("vals", "one"), ("one", "none"), ("none", "one"), ("hc_a", "hc_b"), ("hc_b", "hc_a")]
    for x, y in pairs:
        coq = ok[x] and ok[y]
        a, b_ = f"h_{x}", f"h_{y}"
        ons = [None, ["v"], ["w", "per_occurrence_limit"]] if x.startswith("hc_") else \
              [None, ["cov"], ["country", "cov", "peril"]] if x.startswith("ld_") else \
              [None, ["per_occurrence_limit"], ["country"]] if x.startswith(("c_", "lim")) else [None, ["lob"]]
        for jt in JOIN_TYPES:
            for on in ons:
                run.join_merge(T[x], T[y], a, b_, jt, on, {"t1": J[x], "t2": J[y], "jt": jt, "on": on}, coq=coq)
        for sfx in (None, "", "_r"):
            run.pm(T[x], T[y], a, b_, sfx, {"t1": J[x], "t2": J[y], "suffix": sfx}, coq=coq)
        fs = sorted({k for c in T[y].cells for k in c.values})
        for fields in ([], fs[:1], fs, ["only_r", "x", "nope"]):
            run.statics(T[x], T[y], a, b_, fields, {"t1": J[x], "t2": J[y], "fields": fields}, coq=coq)
        run.coalesce([T[x], T[y]], [a, b_], {"ts": [J[x], J[y]]}, coq=coq)
        run.coalesce([T[y], T[x], T[y]], [b_, a, b_], {"ts": [J[y], J[x], J[y]]}, coq=coq)
        # H: the same call twice, and again after the caller emptied the first result; K: spellings
        t1, t2 = T[x], T[y]
        before = (jc.canon_seq(t1.cells), jc.canon_seq(t2.cells))
        calls = {
            "join": [lambda: bm.utils.join(t1, t2, "left", None), lambda: bm.utils.join(tri1=t1, tri2=t2, join_type="left", on=None),
                     lambda: bm.utils.join(t1, t2, "left")],
            "merge": [lambda: t1.merge(t2, "inner", ["lob"]), lambda: t1.merge(tri2=t2, join_type="inner", on=["lob"]),
                      lambda: bm.utils.merge(t1, t2, join_type="inner", on=["lob"])],
            "merge-default": [lambda: t1.merge(t2), lambda: t1.merge(t2, "full"), lambda: bm.utils.merge(t1, t2, "full", None)],
            "coalesce": [lambda: t1.coalesce([t2]), lambda: bm.utils.coalesce([t1, t2]), lambda: bm.utils.coalesce(triangles=[t1, t2])],
            "add_statics": [lambda: t1.add_statics(t2, fs), lambda: t1.add_statics(source=t2, statics=fs),
                            lambda: bm.utils.add_statics(t1, t2, statics=fs)],
            "period_merge": [lambda: t1.period_merge(t2, "_r"), lambda: t1.period_merge(tri2=t2, suffix="_r"),
                             lambda: bm.utils.period_merge(t1, t2, suffix="_r")],
        }
        for name, fns in calls.items():
            ctx.hist("state+spelling:" + name)
            r1 = call(fns[0])
            c1 = canon_result(r1)
            if hasattr(r1, "_cells"):
                r1._cells.clear()
            elif isinstance(r1, list):
                r1.clear()
            probs = []
            for i, f in enumerate(fns):
                if canon_result(call(f)) != c1:
                    probs.append(f"{name}: spelling {i} / a repeated call (after the caller emptied the first result) "
                                 "gives another result")
            if (jc.canon_seq(t1.cells), jc.canon_seq(t2.cells)) != before:
                probs.append(f"{name}: an operand changed")
            run.record({"t1": J[x], "t2": J[y], "op": "state", "which": name}, probs, True)
    cs.hold = False
    # L: coalesce refuses what is not a list; a list of one triangle is fine
    r = call(lambda: bm.utils.coalesce((T["vals"], T["falsy"])))
    run.record({"op": "refusal", "which": "coalesce(tuple)"},
               [] if isinstance(r, ValueError) else ["coalesce of a tuple did not raise ValueError"], True)
    r = call(lambda: bm.utils.coalesce([T["vals"]]))
    run.record({"op": "refusal", "which": "coalesce([t])"},
               [] if (not isinstance(r, BaseException)) and jc.canon_seq(r.cells) == jc.canon_seq(T["vals"].cells)
               else ["coalesce([t]) is not t"], True)


def large_stream(ctx, run: Runner):
    """family Q: a handful of big operand pairs per run, python oracles only (no Coq literals); process-wide
    state is probed by re-checking the first pair after the large work"""
    bm = jc.bermuda()

    def src_for(t, fields=("prem", "expo"), per_period=1, shift=0):
        seen, cells = {}, []
        for c in t.cells:
            k = (id(c.metadata), c.period)
            if seen.get(k, 0) < per_period:
                seen[k] = seen.get(k, 0) + 1
                ev = jc.add_months_end(c.period_end, 12 + seen[k])
                kw = dict(period_start=c.period_start, period_end=c.period_end, evaluation_date=ev, metadata=c.metadata,
                          values={f: 5 * len(cells) + i + shift for i, f in enumerate(fields)})
                if is_inc(c):
                    kw["prev_evaluation_date"] = c.period_start - datetime.timedelta(days=1)
                cells.append(type(c)(**kw))
        return jc.mk_triangle(cells)

    def pair(name, t1, t2, ons=(None,), jts=JOIN_TYPES, statics=(["prem"],), pm=True, coal=True):
        d = {"large": name, "cells": [len(t1), len(t2)]}
        for jt in jts:
            for on in ons:
                for op, f, merged in (("join", lambda: bm.utils.join(t1, t2, jt, on), False),
                                      ("merge", lambda: t1.merge(t2, join_type=jt, on=on), True)):
                    ctx.hist(f"large:{name}")
                    run.record({**d, "op": "large", "operation": f"{op}({jt}, on={on})"},
                               oracle_join(t1, t2, jt, on, call(f), merged=merged), True)
        for fs in statics:
            ctx.hist(f"large:{name}")
            run.record({**d, "op": "large", "operation": f"add_statics({fs})"},
                       oracle_statics(t1, t2, fs, call(lambda: t1.add_statics(t2, statics=fs))), True)
        if pm:
            ctx.hist(f"large:{name}")
            run.record({**d, "op": "large", "operation": "period_merge"},
                       oracle_pm(t1, t2, "_s", call(lambda: t1.period_merge(t2, suffix="_s"))), True)
        if coal:
            ctx.hist(f"large:{name}")
            run.record({**d, "op": "large", "operation": "coalesce"},
                       oracle_coalesce([t1, t2, t1], call(lambda: t1.coalesce([t2, t1]))), True)

    def first_pairs(tag):
        # a slice boundary exactly at sorted cell index 256; sources keyed by slice and period
        a = jc.big_triangle(slice_sizes=[256, 44])
        pair(f"boundary-at-256{tag}", a, src_for(a), statics=(["prem"], ["prem", "expo", "nope"]))
        pair(f"boundary-at-256{tag}/reverse", src_for(a), a, jts=["full", "inner"])
        b_ = jc.big_triangle(slice_sizes=[256, 256, 1], inc=True)
        pair(f"boundaries-256-256-1-incremental{tag}", b_, src_for(b_, per_period=2), statics=(["expo"],))

    with warnings.catch_warnings():
        warnings.simplefilter("ignore")
        first_pairs("")
        # ~1100 cells each, overlapping coordinates, other fields, integers beyond 2**53, equal metadata re-spelled
        t1 = jc.big_triangle(slice_sizes=[600, 500], fields=("paid", "prem"), value_shift=2 ** 53)
        t2 = jc.big_triangle(slice_sizes=[600, 300, 40], fields=("rep", "paid"), value_shift=2 ** 53 + 1, alias_every=3)
        pair("1100x940", t1, t2, ons=(None, ["lob"], ["country", "grp"]), statics=(["paid", "rep"],))
        # 300 cells collapse onto ONE coordinate under on=['country'] (last wins); 2200 distinct Metadata
        many = jc.big_triangle(slice_sizes=[1] * (2200 if ctx.quick else 4300), limit=2 ** 53)
        many2 = jc.big_triangle(slice_sizes=[1] * (2200 if ctx.quick else 4300), limit=2 ** 53, value_shift=3, fields=("rep",))
        pair("2200-slices", many, many2, ons=(None, ["per_occurrence_limit"], ["country"]), jts=["full", "inner", "left_anti"])
        # ... and 2200 OTHER Metadata: more than 4096 distinct ones have now gone through this process
        other = jc.big_triangle(slice_sizes=[1] * 2200, start=(2010, 1))
        pair("2200-other-slices", other, jc.big_triangle(slice_sizes=[1] * 1100, start=(2010, 1), value_shift=1, fields=("rep",)),
             jts=["full", "right_anti"], statics=(["rep"],), pm=False, coal=False)
        # 260 triangles holding the same coordinate: the first one wins
        singles = [jc.mk_triangle([jc.with_values(many.cells[0], {"paid": i})]) for i in range(260)]
        ctx.hist("large:coalesce-260")
        run.record({"large": "coalesce-260", "op": "large", "operation": "coalesce of 260 one-cell triangles"},
                   oracle_coalesce(singles, call(lambda: singles[0].coalesce(singles[1:]))), True)
        if not ctx.quick:
            big = jc.big_triangle(slice_sizes=[1024, 1024, 1024, 100])
            pair("3172-cells", big, src_for(big), jts=["full", "inner"])
        # process-wide state: the first pairs again after the large work
        first_pairs(" (re-check after the large work)")


def directed(ctx, run: Runner):
    """error branches and the repaired defect F13 (empty left operand)"""
    bm = jc.bermuda()
    cs = run.cases
    cs.shared = []
    cs._new()
    ulc, urc, _ = universes("cum")
    uli, _, _ = universes("inc")
    plain = [bm.Cell(period_start=c.period_start, period_end=c.period_end, evaluation_date=c.evaluation_date,
                     values=dict(c.values), metadata=c.metadata) for c in ulc[:2]]
    T = {"cum": jc.mk_triangle(ulc[:3]), "cum2": jc.mk_triangle(urc[1:4]), "inc": jc.mk_triangle(uli[:3]),
         "cell": jc.mk_triangle(plain), "empty": jc.mk_triangle([])}
    # operands whose metadata differ only in WHERE a key lives (same flattened content): never a match
    def at(meta_kw, vals_shift):
        m = bm.Metadata(**meta_kw)
        return jc.mk_triangle([bm.CumulativeCell(period_start=c.period_start, period_end=c.period_end,
                                                 evaluation_date=c.evaluation_date,
                                                 values={"paid": 10 * i + vals_shift, f"f{vals_shift}": i}, metadata=m)
                               for i, c in enumerate(ulc[:2] + ulc[4:])])
    T["det"] = at(dict(details={"coverage": "BI", "state": "NY"}), 1)
    T["ldet"] = at(dict(details={"state": "NY"}, loss_details={"coverage": "BI"}), 2)
    T["attr"] = at(dict(currency="USD", details={"state": "NY"}), 3)
    T["attr_as_detail"] = at(dict(details={"state": "NY", "currency": "USD"}), 4)
    for name, t in T.items():
        cs.add_def(f"d_{name}", ct.ccells(t.cells), len(t))
    cs.hold = True
    J = {k: jc.tri_to_json(t) for k, t in T.items()}
    for x, y in [("det", "ldet"), ("ldet", "det"), ("attr", "attr_as_detail"), ("attr_as_detail", "attr")]:
        for jt in JOIN_TYPES:
            for on in (None, ["coverage", "state", "currency"]):
                run.join_merge(T[x], T[y], f"d_{x}", f"d_{y}", jt, on if x in ("det", "ldet") or on is None else None,
                               {"t1": J[x], "t2": J[y], "jt": jt, "on": on if x in ("det", "ldet") or on is None else None})
        for sfx in (None, "_r"):
            run.pm(T[x], T[y], f"d_{x}", f"d_{y}", sfx, {"t1": J[x], "t2": J[y], "suffix": sfx})
        run.statics(T[x], T[y], f"d_{x}", f"d_{y}", ["paid", "f1", "f2", "f3", "f4"],
                    {"t1": J[x], "t2": J[y], "fields": ["paid", "f1", "f2", "f3", "f4"]})
        run.coalesce([T[x], T[y]], [f"d_{x}", f"d_{y}"], {"ts": [J[x], J[y]]})
    for x, y in [("cum", "inc"), ("inc", "cum"), ("cell", "cum"), ("cum", "cell"), ("empty", "inc"), ("inc", "empty"),
                 ("empty", "cum"), ("cum", "empty"), ("empty", "empty"), ("cum", "cum2")]:
        for jt in JOIN_TYPES + ["outer", ""]:
            run.join_merge(T[x], T[y], f"d_{x}", f"d_{y}", jt, None, {"t1": J[x], "t2": J[y], "jt": jt, "on": None})
        run.pm(T[x], T[y], f"d_{x}", f"d_{y}", None, {"t1": J[x], "t2": J[y], "suffix": None})
    cs.hold = False
    # F13 (repaired): an empty left operand is an ordinary operand
    for jt in JOIN_TYPES:
        res = call(lambda: bm.utils.join(T["empty"], T["cum"], jt))
        if isinstance(res, BaseException):
            ctx.violation("impl-violation",
                          f"join(<empty triangle>, t, {jt!r}) raises {type(res).__name__} (F13: empty left operand)",
                          {"t1": [], "t2": J["cum"], "jt": jt, "on": None, "op": "join",
                           "problems": [f"raised {type(res).__name__}: {res}"]},
                          found_input=True, finding_class={"kind": "join_empty_left_operand"})
            break


# =============================================================================== the check
def prepare(ctx):
    from translate import t_pred

    for pat in ("*.vo", "*.glob", "cases_*.v", ".*.aux", "*.vok", "*.vos"):
        for f in ctx.build.glob(pat):
            f.unlink()
    translated = True
    name = "T-pred translation of join / _merge_cell_pair / coalesce"
    try:
        gen = t_pred.translate(REPO, parts=("join",))
        ctx.obligation(name, True)
    except t_pred.Unsupported as ex:
        translated = False
        ctx.obligation(name, False, str(ex))
        ctx.log(f"translator failed closed: {ex}")
    except Exception as ex:  # noqa: BLE001
        translated = False
        ctx.obligation(name, False, repr(ex))
    pre = ct.COQ_HEADER.split("From Bermuda")[0]
    if not translated:
        gen = pre + FALLBACK
    (ctx.build / "GenPred.v").write_text(gen)
    exp = COQ / "GenExpected" / "GenPred_join.v"
    if translated and exp.exists() and exp.read_text() != gen:
        import difflib

        d = "".join(difflib.unified_diff(exp.read_text().splitlines(1), gen.splitlines(1), "expected", "generated"))
        ctx.notes.append("generated GenPred.v differs from the snapshot:\n" + d[:3000])
        ctx.extra["generated_diff"] = d[:6000]
    rc, out = ctx.coqc(ctx.build / "GenPred.v", timeout=300)
    ctx.obligation("GenPred.v compiles (generated descriptions are well-typed)", rc == 0, out)
    if rc != 0:
        (ctx.build / "GenPred.v").write_text(pre + FALLBACK)
        ctx.coqc(ctx.build / "GenPred.v", timeout=300)
        translated = False
    return translated


def theorems(ctx, translated):
    ctx.audit_tree(["Model/Join.v", "Proofs/JoinP.v", "Proofs/JoinCanon.v", "Props/C10.v"])
    ctx.prove_static("Props/C10.v", timeout=900)
    gp = ctx.build / "C10_Gen.v"
    shutil.copy(COQ / "GenProps" / "C10_Gen.v", gp)
    if translated:
        ctx.prove(gp, timeout=600)
    else:
        ctx.obligation("C10_Gen.v (theorems about the generated descriptions)", False, "no translated description")


def correspond(ctx):
    cases = jc.Cases(ctx, "cases", HEADER, per_file_cells=200, per_file_cases=2600)
    cases.codes = True
    run = Runner(ctx, cases)
    directed(ctx, run)
    hardening(ctx, run)
    t_large = time.time()
    large_stream(ctx, run)
    ctx.notes.append(f"large stream (family Q): python-side oracles only, no Coq literals -- the theorems are "
                     f"size-independent, the correspondence samples small operands; {time.time() - t_large:.1f} s")
    for basis in ("cum", "inc"):       # family O: objects that crossed a process boundary
        probs, err = jc.cross_process_probe(ctx, basis)
        ctx.hist("cross-process probe (pickled under another PYTHONHASHSEED)")
        ctx.obligation(f"cross-process probe runs ({basis})", err is None, err or "")
        run.record({"op": "cross_process", "basis": basis}, probs, True)
    exhaustive(ctx, run, "cum", full_coq=not ctx.quick)
    exhaustive(ctx, run, "inc", full_coq=not ctx.quick)
    random_pairs(ctx, run, 60 if ctx.quick else 400)
    ctx.log(f"{run.n} operations, {cases.total()} Coq cases in {len(cases.files)} files; "
            f"python oracles: {len(run.fails)} failing")
    bad, errs = cases.run(timeout=1200 if ctx.quick else 3000)
    ctx.count(evaluations=run.n + cases.total(), traces=cases.total())
    ctx.obligation("correspondence files compile", not errs, repr(errs[:2]))
    model_bad = [b for b in bad if b["code"] in (1, 3)]
    spec_bad = [b for b in bad if b["code"] in (2, 3)]
    ctx.obligation("correspondence: model = implementation on every case (as multisets)", not model_bad,
                   repr([{k: v for k, v in b.items() if k not in ("t1", "t2", "ts")} for b in model_bad[:5]]))
    ctx.obligation("executable specification holds on every implementation output", not spec_bad,
                   repr([{k: v for k, v in b.items() if k not in ("t1", "t2", "ts")} for b in spec_bad[:5]]))
    ctx.log(f"coq: {len(model_bad)} model mismatches, {len(spec_bad)} spec failures, {len(errs)} file errors")
    seen = set()
    for data, probs in run.fails:
        key = (data.get("op"), probs[0][:50])
        if key in seen or len(seen) >= 6:
            continue
        seen.add(key)
        ctx.violation("impl-violation", probs[0], {**expand(data), "problems": probs}, found_input=True)
    if not run.fails and not ctx.violations:
        for b in (spec_bad + model_bad)[:3]:
            is_spec = b["code"] in (2, 3)
            what = (f"executable specification of {b['op']} fails on the implementation's output" if is_spec
                    else f"model and implementation differ on {b['op']}")
            brief = {k: v for k, v in b.items() if k not in ("t1", "t2", "ts")}
            ctx.violation("impl-violation" if is_spec else "correspondence", f"{what}: {brief}", expand(b),
                          found_input=is_spec)
        for name, out in errs[:1]:
            ctx.violation("obligation", f"cases file {name} does not compile", {"output": out}, found_input=False)
    for d in run.fails[:2]:
        ctx.sample({"failing": {k: v for k, v in d[0].items() if k not in ("t1", "t2", "ts")}})
    ctx.sample({"universe": "5 cells: (A,P1,E1) (A,P1,E2) (B,P1,E1) (C,P1,E1) (A,P2,E2); A/B share country and limit, A/C share lob; right operand has None values",
                "example_case": {"basis": "cum", "left": 0b10011, "right": 0b00111, "jt": "left_anti", "on": ["country"]}})


def expand(data):
    """replay data: operands as cell lists (sub-triangles of the universes are rebuilt from masks)"""
    d = dict(data)
    if "basis" in d:
        ul, ur, u3 = universes(d["basis"])
        if "left" in d:
            d["t1"] = jc.tri_to_json(sub(ul, d["left"]))
        if "right" in d:
            d["t2"] = jc.tri_to_json(sub(ur, d["right"]))
        if "masks" in d:
            us = [ul, ur, u3]
            d["ts"] = [jc.tri_to_json(sub(us[i], m)) for i, m in enumerate(d["masks"])]
        if "masks_rl" in d:
            d["ts"] = [jc.tri_to_json(sub(ur, d["masks_rl"][0])), jc.tri_to_json(sub(ul, d["masks_rl"][1]))]
    return d


def run(ctx):
    ctx.rule = (
        "exhaustive: all 32x32 pairs of sub-triangles (incl. empty) of a 5-cell universe (operands carry different "
        "values/field sets at equal coordinates, including None values that override / are right-only; metadata differ "
        "in country / details.lob / currency / per_occurrence_limit; equal metadata are written differently inside each "
        "operand and across operands: detail keys in another order, n = 1 / 1.0 / True, limit 1000 / 1000.0) x 6 join types x {None, [], every non-empty subset of [country, lob, per_occurrence_limit]} for join and merge, x suffixes for period_merge, "
        "x 4 field lists for add_statics; all 32^3 triples for coalesce; cumulative and incremental (incremental with "
        "a prev_evaluation_date-only difference).  The real operations and the Python oracles run on that full product "
        "(quick tier, incremental: 3 `on` variants, a quarter of the triples); inside coqc the thorough tier evaluates "
        "the full product, the quick tier every pair x every join type with on=None plus one rotating `on` variant per "
        "pair, the 16^3 triples of the first four cells plus a sample; directed error "
        "branches (cell-type clash, unknown join type, empty operands) and operands whose metadata differ only in "
        "where a key lives (details vs loss_details, attribute vs detail key of that name); a LARGE stream judged by python "
        "oracles only (slice boundaries at sorted index 256, 1100x940-cell pairs with integers beyond 2**53, 2200 slices, "
        "300 cells collapsing onto one coordinate, 260-way coalesce, first pairs re-checked after the large work); "
        "a hardening stream (falsy "
        "values, None vs '' vs 0 metadata, `on` with loss_detail keys, restated cells, nested periods, NumPy corner "
        "types, operands built from datetimes, one cell / empty, repeated calls, positional / keyword / function "
        "spellings, coalesce refusal); random larger pairs from harness/gen.py with "
        "overlapping/disjoint coordinates, differing field sets, equal-but-differently-written metadata.  Non-trivial: "
        "operands with >= 2 cells in total or an error branch.")
    ctx.assumptions += [
        "translate/t_pred.py reads the Python AST faithfully (index keys, set operation, join-type conditions, "
        "merge precedence, coalesce pick)",
        "results are compared as multisets / coordinate-keyed maps: the order of join's pairs is a Python set order, "
        "the order of the other results is Triangle(...)'s (property C01)",
        "Triangle(...) used by _select_metadata is a stable sort for which cells with equal join keys compare "
        "equal, so the last cell of a key in the original order is the one the index dictionary keeps",
        "loose_period_merge and the warning text of coalesce are not modelled",
    ]
    translated = prepare(ctx)
    theorems(ctx, translated)
    correspond(ctx)


def replay(ctx, data):
    bm = jc.bermuda()
    op = data.get("op")
    t1 = jc.tri_from_json(data["t1"]) if "t1" in data else None
    t2 = jc.tri_from_json(data["t2"]) if "t2" in data else None
    if op in ("join", "merge"):
        jt, on = data["jt"], data.get("on")
        res = call((lambda: bm.utils.join(t1, t2, jt, on)) if op == "join" else (lambda: t1.merge(t2, join_type=jt, on=on)))
        probs = oracle_join(t1, t2, jt, on, res, merged=(op == "merge"))
    elif op == "merge_self":
        res = call(lambda: t1.merge(t1))
        probs = [] if (not isinstance(res, BaseException)) and jc.canon_seq(res.cells) == jc.canon_seq(t1.cells) \
            else ["merge(t, t) is not t"]
    elif op == "select_merge":
        res = call(lambda: t1.select(data["fa"]).merge(t1.select(data["fb"])))
        probs = oracle_select_merge(t1, res)
    elif op == "coalesce":
        ts = [jc.tri_from_json(j) for j in data["ts"]]
        res = call(lambda: ts[0].coalesce(ts[1:]))
        probs = oracle_coalesce(ts, res)
    elif op == "add_statics":
        res = call(lambda: t1.add_statics(t2, statics=data["fields"]))
        probs = oracle_statics(t1, t2, data["fields"], res)
    elif op == "period_merge":
        res = call(lambda: t1.period_merge(t2, suffix=data.get("suffix")))
        probs = oracle_pm(t1, t2, data.get("suffix"), res)
    elif op == "large":
        class _Ctx:                 # re-run the large stream (generator parameters are in the code, not in the file)
            quick = True
            def hist(self, *a): pass
            def nontriv(self, *a): pass
        class _Run:
            def __init__(self): self.fails = []
            def record(self, d, probs, nt):
                if probs: self.fails.append((d, probs))
        rr = _Run()
        large_stream(_Ctx(), rr)
        mine = [f for f in rr.fails if f[0].get("large") == data.get("large")] or rr.fails
        for d_, pr in mine[:6]:
            print(f"PROBLEM: [{d_['large']}, cells {d_.get('cells')}] {d_['operation']}: {pr[0][:300]}")
        if not rr.fails:
            print("the property holds on the large stream")
        return 1 if rr.fails else 0
    elif op == "cross_process":
        probs, err = jc.cross_process_probe(ctx, data.get("basis", "cum"))
        res = RuntimeError(err) if err else []
        t1 = t2 = None
        print("a triangle hashed + pickled under PYTHONHASHSEED=101, unpickled under PYTHONHASHSEED=202 and combined "
              "with locally built equal cells (universe of harness/c10.py)")
        if err:
            probs = [err]
    elif op == "state":
        class _R:       # re-run the whole small stream and report what fails
            pass
        probs = [f"re-run `./check C10` (state/spelling stream, call {data.get('which')}); operands are in this file"]
        res = None
        fs = sorted({k for c in t2.cells for k in c.values})
        fns = {"join": lambda: bm.utils.join(t1, t2, "left"), "merge": lambda: t1.merge(t2, "inner", ["lob"]),
               "merge-default": lambda: t1.merge(t2), "coalesce": lambda: t1.coalesce([t2]),
               "add_statics": lambda: t1.add_statics(t2, fs), "period_merge": lambda: t1.period_merge(t2, "_r")}
        f = fns[data["which"]]
        r1 = call(f)
        c1 = canon_result(r1)
        if hasattr(r1, "_cells"):
            r1._cells.clear()
        elif isinstance(r1, list):
            r1.clear()
        res = call(f)
        probs = [] if canon_result(res) == c1 else [f"{data['which']}: a repeated call gives another result"]
    else:
        print("replay data:", {k: v for k, v in data.items() if k not in ("t1", "t2", "ts")})
        return 1
    print(f"operation {op}", {k: v for k, v in data.items() if k in ("jt", "on", "fields", "suffix", "basis", "left", "right", "masks")})
    print("left operand:", len(t1) if t1 is not None else "-", "cells; right operand:", len(t2) if t2 is not None else "-", "cells")
    print("result:", repr(res) if isinstance(res, BaseException) else
          (f"{len(res)} pairs" if isinstance(res, list) else f"{len(res.cells)} cells"))
    for p in probs:
        print("PROBLEM:", p)
    if not probs:
        print("the property holds on this input")
    return 1 if probs else 0
