"""C03 -- the argument-fingerprint monitor.

    fp = fingerprint(obj)        deep, identity-aware fingerprint of an argument
    diff(fp_before, fp_after)    path of the first difference (None if equal)
    monitored(f, args, kwargs)   call f, report every argument whose fingerprint changed -- whether f
                                 returned or raised
    OPS                          catalogue: every public operation of the Triangle / Cell / Metadata API,
                                 bermuda.utils, the bermuda.io writers and bermuda.plot.build_plot_data
    run_case(case)               one generated triangle, one operation sequence, every position watched

The fingerprint records: structure, Python types, dict insertion order, value kinds, array
dtype/shape/bytes and the id() of every container (Triangle, its cell list, every Cell, values dict,
Metadata, details dicts, arrays) -- so rebinding `cell._values` to an equal dict, reordering keys, an
in-place `+=` on an array, turning an int into a float or appending a cell are all visible.
Caches (`functools.cached_property` entries in Triangle.__dict__) are not fingerprinted by identity;
instead every Triangle argument's accessors (fields, periods, evaluation_dates, dev_lags(), metadata,
slices keys, field counts, num_samples, is_incremental, common_metadata, repr, ...) are read BEFORE the call
and compared BY VALUE after it (`observables`), which catches a cached list/dict extended in place."""
from __future__ import annotations

import dataclasses
import datetime
import hashlib
import io
import random
import warnings

import numpy as np

SCALARS = (int, float, bool, str, bytes, type(None), complex)


def _arr(a: np.ndarray):
    try:
        raw = a.tobytes() if a.dtype != object else repr(a.tolist()).encode()
    except Exception:  # noqa: BLE001
        raw = repr(a).encode()
    return ("ndarray", id(a), str(a.dtype), tuple(a.shape), hashlib.blake2b(raw, digest_size=12).hexdigest(),
            bool(a.flags.writeable))


def fingerprint(o, _depth=0, _memo=None):
    """Deep fingerprint as nested tuples.  Shared sub-objects are expanded once per fingerprint call."""
    if _memo is None:
        _memo = {}
    if isinstance(o, (bool, np.bool_)):
        return (type(o).__name__, bool(o))
    if isinstance(o, (int, np.integer)):
        return (type(o).__name__, int(o))
    if isinstance(o, (float, np.floating)):
        return (type(o).__name__, float(o).hex())
    if o is None or isinstance(o, (str, bytes, complex)):
        return (type(o).__name__, o)
    if isinstance(o, (datetime.date, datetime.timedelta)):
        return (type(o).__name__, repr(o))
    if isinstance(o, np.ndarray):
        return _arr(o)
    if id(o) in _memo:
        return ("seen", id(o))
    if _depth > 12:
        return ("deep", type(o).__name__, id(o))
    _memo[id(o)] = True
    tn = type(o).__name__
    mod = type(o).__module__ or ""
    d = _depth + 1
    if mod.startswith("bermuda"):
        if tn in ("Triangle", "TriangleSlice"):
            cells = o.__dict__.get("_cells")
            return (tn, id(o), ("_cells", id(cells), tuple(fingerprint(c, d, _memo) for c in (cells or []))))
        if tn in ("Cell", "CumulativeCell", "IncrementalCell"):
            return (tn, id(o), tuple((k, fingerprint(v, d, _memo)) for k, v in o.__dict__.items()))
        if tn == "Metadata":
            return (tn, id(o), tuple((f.name, fingerprint(getattr(o, f.name), d, _memo))
                                     for f in dataclasses.fields(o)))
        if dataclasses.is_dataclass(o):
            return (tn, id(o), tuple((f.name, fingerprint(getattr(o, f.name), d, _memo))
                                     for f in dataclasses.fields(o)))
        if hasattr(o, "__dict__"):
            return (tn, id(o), tuple((k, fingerprint(v, d, _memo)) for k, v in o.__dict__.items()
                                     if not callable(v)))
    if isinstance(o, dict):
        return (tn, id(o), tuple((fingerprint(k, d, _memo), fingerprint(v, d, _memo)) for k, v in o.items()))
    if isinstance(o, (list, tuple)):
        return (tn, id(o), tuple(fingerprint(x, d, _memo) for x in o))
    if isinstance(o, (set, frozenset)):
        return (tn, id(o), tuple(sorted(repr(fingerprint(x, d, _memo)) for x in o)))
    if mod.startswith("pandas"):
        try:
            buf = o.to_json(date_format="iso", double_precision=15, default_handler=str)
        except Exception:  # noqa: BLE001
            buf = repr(o)
        return (tn, id(o), hashlib.blake2b(buf.encode(), digest_size=12).hexdigest())
    if isinstance(o, (io.IOBase,)) or callable(o):
        return (tn, id(o))
    return (tn, id(o), repr(o)[:200])


def diff(a, b, path="arg"):
    """Path (string) to the first difference between two fingerprints, or None."""
    if a == b:
        return None
    if type(a) is not type(b) or not isinstance(a, tuple):
        return f"{path}: {a!r} -> {b!r}"
    if len(a) != len(b):
        return f"{path}: length {len(a)} -> {len(b)} ({_short(a)} -> {_short(b)})"
    for i, (x, y) in enumerate(zip(a, b)):
        if x != y:
            label = f"{path}/{a[0]}" if i > 0 and isinstance(a[0], str) else path
            if isinstance(x, tuple) and isinstance(y, tuple):
                return diff(x, y, f"{label}[{i}]")
            return f"{label}[{i}]: {x!r} -> {y!r}"
    return f"{path}: differs"


def _short(t):
    s = repr(t)
    return s if len(s) < 160 else s[:157] + "..."


# ------------------------------------------------------------------ triangle-level observable accessors
ACCESSORS = ["fields", "periods", "evaluation_dates", "evaluation_date", "metadata", "common_metadata",
             "metadata_differences", "field_cell_counts", "field_slice_counts", "num_samples", "is_incremental",
             "is_multi_slice", "is_empty", "experience_gaps", "eval_date_resolution", "period_resolution",
             "has_consistent_currency", "has_consistent_risk_basis", "is_disjoint", "is_slicewise_disjoint"]


def value_fp(o, depth=0):
    """Fingerprint BY VALUE (no ids): what a caller reads off an accessor."""
    if isinstance(o, (bool, np.bool_)):
        return ("bool", bool(o))
    if isinstance(o, (int, np.integer)):
        return ("int", int(o))
    if isinstance(o, (float, np.floating)):
        return ("float", float(o).hex())
    if o is None or isinstance(o, (str, bytes)):
        return (type(o).__name__, o)
    if isinstance(o, (datetime.date, datetime.timedelta)):
        return (type(o).__name__, repr(o))
    if isinstance(o, np.ndarray):
        return ("ndarray", str(o.dtype), tuple(o.shape), hashlib.blake2b(
            o.tobytes() if o.dtype != object else repr(o.tolist()).encode(), digest_size=12).hexdigest())
    if depth > 8:
        return ("deep", type(o).__name__)
    d = depth + 1
    if isinstance(o, dict):
        return (type(o).__name__, tuple((value_fp(k, d), value_fp(v, d)) for k, v in o.items()))
    if isinstance(o, (list, tuple)):
        return (type(o).__name__, tuple(value_fp(x, d) for x in o))
    if isinstance(o, (set, frozenset)):
        return (type(o).__name__, tuple(sorted(repr(value_fp(x, d)) for x in o)))
    if dataclasses.is_dataclass(o) and not isinstance(o, type):
        return (type(o).__name__, tuple((f.name, value_fp(getattr(o, f.name), d)) for f in dataclasses.fields(o)))
    tn = type(o).__name__
    if tn in ("Triangle", "TriangleSlice"):
        return (tn, len(o))
    return (tn, repr(o)[:200])


def observables(t):
    """What the accessors of a Triangle report, by value.  Taken BEFORE a call (which also fills the
    functools.cached_property caches, as in real use) and again after it: a list or dict handed out by a cached
    accessor that a callee extends in place shows up here even though no cell, values dict or metadata changed."""
    out = []

    def grab(name, thunk):
        try:
            v = thunk()
            if hasattr(v, "__next__"):
                v = list(v)
            out.append((name, value_fp(v)))
        except Exception as ex:  # noqa: BLE001
            out.append((name, ("raised", type(ex).__name__)))

    with warnings.catch_warnings():
        warnings.simplefilter("ignore")
        for name in ACCESSORS:
            grab(name, lambda name=name: getattr(t, name))
        grab("dev_lags()", lambda: t.dev_lags())
        grab("slices.keys", lambda: list(t.slices.keys()))
        grab("len", lambda: len(t))
        grab("repr", lambda: repr(t))
    return tuple(out)


def _triangles_in(o, depth=0):
    tn = type(o).__name__
    if tn in ("Triangle", "TriangleSlice") and (type(o).__module__ or "").startswith("bermuda"):
        return [o]
    if depth < 2 and isinstance(o, (list, tuple)):
        return [t for x in o for t in _triangles_in(x, depth + 1)]
    if depth < 2 and isinstance(o, dict):
        return [t for x in o.values() for t in _triangles_in(x, depth + 1)]
    return []


def monitored(f, args=(), kwargs=None, extra_watch=()):
    """Call f(*args, **kwargs).  Returns (result | None, exception | None, changes) where changes lists
    (label, path-of-first-difference) for every argument (and every object of extra_watch) whose
    fingerprint differs after the call."""
    kwargs = kwargs or {}
    watch = [(f"arg{i}", a) for i, a in enumerate(args)] + [(f"kw:{k}", v) for k, v in kwargs.items()]
    watch += [(f"live{i}", w) for i, w in enumerate(extra_watch)]
    tris, seen_t = [], set()
    for label, w in watch:
        for j, t in enumerate(_triangles_in(w)):
            if id(t) not in seen_t:
                seen_t.add(id(t))
                tris.append((f"{label}.triangle{j}", t))
    obs_before = [observables(t) for _, t in tris]
    before = [fingerprint(w) for _, w in watch]
    res, exc = None, None
    with warnings.catch_warnings():
        warnings.simplefilter("ignore")
        with np.errstate(all="ignore"):
            try:
                res = f(*args, **kwargs)
                if hasattr(res, "__next__"):
                    res = list(res)
            except Exception as ex:  # noqa: BLE001
                exc = ex
    changes, seen = [], set()
    for (label, w), b in zip(watch, before):
        d = diff(b, fingerprint(w), label)
        if d is not None:
            tail = d.split(": ", 1)[-1]          # the same object reached through two watched roots
            if tail in seen:
                continue
            seen.add(tail)
            changes.append((label, d))
    for (label, t), ob in zip(tris, obs_before):
        oa = observables(t)
        if oa != ob:
            for (name, x), (_, y) in zip(ob, oa):
                if x != y:
                    changes.append((label, f"{label}: accessor {name} reported {_short(x)} before the call and {_short(y)} after it"))
                    break
    return res, exc, changes


# ================================================================================ catalogue
class Env:
    """What an operation builder may use: the current triangle, helpers for a second triangle, a PRNG,
    a temp directory."""

    def __init__(self, t, root, rng: random.Random, tmp, mk_other):
        self.t, self.root, self.rng, self.tmp, self._mk_other = t, root, rng, tmp, mk_other
        self.n = 0

    def other(self):
        """A second triangle: the same object, an earlier triangle of the sequence, a derived one."""
        r = self.rng.random()
        t = self.t
        with warnings.catch_warnings():
            warnings.simplefilter("ignore")
            try:
                if r < 0.25:
                    return t
                if r < 0.4:
                    return self.root
                if r < 0.55:
                    return t.right_edge
                if r < 0.7 and len(t) > 1:
                    return t[: max(1, len(t) // 2)]
                if r < 0.85:
                    return t.derive_fields(earned_premium=7)
            except Exception:  # noqa: BLE001
                pass
        return self._mk_other(self.rng)

    def cell(self, t=None):
        t = t or self.t
        return t.cells[self.rng.randrange(len(t))]

    def fields(self):
        fs = list(self.t.fields)
        return self.rng.sample(fs, self.rng.randint(1, len(fs))) if fs else ["paid_loss"]

    def path(self, ext):
        self.n += 1
        return str(self.tmp / f"w{self.rng.randrange(10**9)}_{self.n}.{ext}")

    def date(self):
        ds = self.t.evaluation_dates
        return self.rng.choice(ds) if ds else datetime.date(2020, 12, 31)


def _ops():
    import bermuda
    from bermuda import utils as U
    from bermuda.base.metadata import common_metadata, metadata_diff
    from bermuda.io import matrix as iom, rich_matrix as iorm
    from bermuda.plot import build_plot_data
    import importlib

    S = importlib.import_module("bermuda.utils.summarize")
    F = importlib.import_module("bermuda.utils.fields")

    Triangle = bermuda.Triangle
    ops = {}

    def op(name):
        def deco(fn):
            ops[name] = fn
            return fn
        return deco

    # ---- Triangle protocol
    op("tri.len")(lambda e: (len, (e.t,), {}))
    op("tri.iter")(lambda e: (lambda t: list(iter(t)), (e.t,), {}))
    op("tri.contains")(lambda e: (lambda t, c: c in t, (e.t, e.cell(e.other())), {}))
    op("tri.eq")(lambda e: (lambda a, b: a == b, (e.t, e.other()), {}))
    op("tri.hash")(lambda e: (hash, (e.t,), {}))
    op("tri.repr")(lambda e: (repr, (e.t,), {}))
    op("tri.repr_html")(lambda e: (lambda t: t._repr_html_(), (e.t,), {}))
    op("tri.getitem_int")(lambda e: (lambda t, i: t[i], (e.t, e.rng.randrange(-1, len(e.t) + 1)), {}))
    op("tri.getitem_slice")(lambda e: (lambda t, a, b: t[a:b], (e.t, e.rng.randrange(0, 3), e.rng.randrange(1, len(e.t) + 2)), {}))
    op("tri.getitem_3")(lambda e: (lambda t, d: t[:, d, :], (e.t, e.date()), {}))
    op("tri.getitem_3m")(lambda e: (lambda t, d, m: t[:, :d, m], (e.t, e.date(), e.cell().metadata), {}))
    op("tri.getitem_cell")(lambda e: (lambda t, c: t[c.period_start, c.evaluation_date, c.metadata], (e.t, e.cell()), {}))
    op("tri.add")(lambda e: (lambda a, b: a + b, (e.t, e.other()), {}))
    op("tri.sum")(lambda e: (lambda a, b: sum([a, b]), (e.t, e.other()), {}))
    op("tri.and")(lambda e: (lambda a, b: a & b, (e.t, e.other()), {}))
    op("tri.or")(lambda e: (lambda a, b: a | b, (e.t, e.other()), {}))
    op("tri.sub")(lambda e: (lambda a, b: a - b, (e.t, e.other()), {}))
    op("tri.xor")(lambda e: (lambda a, b: a ^ b, (e.t, e.other()), {}))
    op("tri.le")(lambda e: (lambda a, b: a <= b, (e.t, e.other()), {}))
    op("tri.isdisjoint")(lambda e: (lambda a, b: a.isdisjoint(b), (e.t, e.other()), {}))
    for prop in ["cells", "slices", "metadata", "eval_date_resolution", "period_resolution", "common_metadata",
                 "metadata_differences", "num_samples", "period_rows", "slice_period_rows", "periods",
                 "experience_gaps", "evaluation_dates", "evaluation_date", "fields", "field_cell_counts",
                 "field_slice_counts", "is_empty", "is_disjoint", "is_slicewise_disjoint",
                 "has_consistent_currency", "has_consistent_risk_basis", "is_incremental", "is_multi_slice",
                 "has_consistent_values_shapes", "right_edge", "is_right_edge_ragged"]:
        def mk(prop=prop):
            def get(t):
                v = getattr(t, prop)
                return list(v) if hasattr(v, "__next__") else v
            return lambda e: (get, (e.t,), {})
        ops[f"tri.{prop}"] = mk()
    op("tri.dev_lags")(lambda e: (lambda t, u: t.dev_lags(u), (e.t, e.rng.choice(["month", "day", "timedelta"])), {}))
    op("tri.is_semi_regular")(lambda e: (lambda t: t.is_semi_regular(), (e.t,), {}))
    op("tri.is_regular")(lambda e: (lambda t: t.is_regular(), (e.t,), {}))
    op("tri.remove_static_details")(lambda e: (lambda t: t.remove_static_details(), (e.t,), {}))
    op("tri.derive_fields_const")(lambda e: (lambda t, v: t.derive_fields(reported_loss=v), (e.t, e.rng.choice([3, 2.5])), {}))
    op("tri.derive_fields_fn")(lambda e: (lambda t, f: t.derive_fields(**{"paid_loss": lambda c: c[f] * 2, "x_new": lambda c: c[f]}), (e.t, e.fields()[0]), {}))
    op("tri.derive_fields_alias")(lambda e: (lambda t, f: t.derive_fields(alias=lambda c: c[f]), (e.t, e.fields()[0]), {}))
    op("tri.derive_metadata")(lambda e: (lambda t: t.derive_metadata(country="FR", lob=lambda c: "x"), (e.t,), {}))
    op("tri.derive_metadata_details")(lambda e: (lambda t: t.derive_metadata(details=lambda c: {**c.metadata.details, "k": 1}), (e.t,), {}))
    op("tri.replace_values")(lambda e: (lambda t: t.replace(values=lambda c: {**c.values, "paid_loss": 1}), (e.t,), {}))
    op("tri.replace_same_values")(lambda e: (lambda t: t.replace(values=lambda c: c.values), (e.t,), {}))
    op("tri.replace_bad_date")(lambda e: (lambda t: t.replace(evaluation_date=datetime.date(1900, 1, 1)), (e.t,), {}))
    op("tri.select")(lambda e: (lambda t, ks: t.select(ks), (e.t, e.fields()), {}))
    op("tri.clip")(lambda e: (lambda t, d, k: t.clip(max_eval=d, min_dev=k), (e.t, e.date(), e.rng.choice([None, 0, 3])), {}))
    op("tri.clip_period")(lambda e: (lambda t, c: t.clip(min_period=c.period_start, max_period=c.period_end), (e.t, e.cell()), {}))
    op("tri.filter")(lambda e: (lambda t, d: t.filter(lambda c: c.evaluation_date <= d), (e.t, e.date()), {}))
    op("tri.extract_field")(lambda e: (lambda t, f: t.extract(f), (e.t, e.fields()[0]), {}))
    op("tri.extract_fn")(lambda e: (lambda t: t.extract(lambda c: c.values), (e.t,), {}))
    op("tri.to_data_frame")(lambda e: (lambda t: t.to_data_frame(), (e.t,), {}))
    # ---- Cell / Metadata
    op("cell.replace_values")(lambda e: (lambda c: c.replace(values={**c.values, "z": 1}), (e.cell(),), {}))
    op("cell.replace_date")(lambda e: (lambda c, d: c.replace(evaluation_date=d), (e.cell(), e.date()), {}))
    op("cell.replace_bad")(lambda e: (lambda c: c.replace(period_end=datetime.date(1800, 1, 1)), (e.cell(),), {}))
    op("cell.base_replace")(lambda e: (lambda c: c._base_replace(metadata=c.metadata), (e.cell(),), {}))
    op("cell.select")(lambda e: (lambda c, ks: c.select(ks), (e.cell(), e.fields()), {}))
    op("cell.derive_fields")(lambda e: (lambda c: c.derive_fields(a=1, b=lambda x: x["a"] + 1), (e.cell(),), {}))
    op("cell.derive_fields_raise")(lambda e: (lambda c: c.derive_fields(a=1, b=lambda x: x["nope"]), (e.cell(),), {}))
    op("cell.derive_metadata")(lambda e: (lambda c: c.derive_metadata(currency="GBP", extra=3), (e.cell(),), {}))
    op("cell.add_statics")(lambda e: (lambda c, s, f: c.add_statics(s, f), (e.cell(), e.cell(e.other()), e.fields()), {}))
    op("cell.to_record")(lambda e: (lambda c: c.to_record(), (e.cell(),), {}))
    op("cell.eq_hash_lt")(lambda e: (lambda a, b: (a == b, hash(a), a < b), (e.cell(), e.cell(e.other())), {}))
    op("cell.repr")(lambda e: (lambda c: (repr(c), c._repr_html_()), (e.cell(),), {}))
    op("cell.accessors")(lambda e: (lambda c: (c.dev_lag(), c.dev_lag("day"), c.period_length, c.coordinates, c.period,
                                               c.values, c.metadata, c.details, c.loss_details, "paid_loss" in c), (e.cell(),), {}))
    op("cell.getitem")(lambda e: (lambda c, f: c[f], (e.cell(), e.rng.choice(e.fields() + ["nope"])), {}))
    op("meta.api")(lambda e: (lambda m, n: (m.as_dict(), m.as_flat_dict(), hash(m), m == n, m < n,
                                            common_metadata(m, n), metadata_diff(m, n),
                                            dataclasses.replace(m, country="ZZ")),
                              (e.cell().metadata, e.cell(e.other()).metadata), {}))
    # ---- bermuda.utils
    res = [(1, "month"), (3, "month"), (6, "month"), (1, "year"), (2, "year")]
    op("utils.aggregate")(lambda e: (U.aggregate, (e.t,), {"period_resolution": e.rng.choice(res + [None]),
                                                            "eval_resolution": e.rng.choice(res + [None, None]),
                                                            "summarize_premium": e.rng.random() < 0.7}))
    op("utils.summarize")(lambda e: (U.summarize, (e.t,), {"summarize_premium": e.rng.random() < 0.6}))
    op("utils.summarize_fns")(lambda e: (U.summarize, (e.t,), {"summary_fns": {"paid_loss": lambda vd: S._conforming_sum(vd["paid_loss"])}}))
    op("utils.summarize_cell_values")(lambda e: (U.summarize_cell_values, ([e.cell(), e.cell(), e.cell(e.other())],), {"summarize_premium": e.rng.random() < 0.5}))
    op("utils.blend")(lambda e: (U.blend, ([e.t, e.other()],), {"weights": e.rng.choice([None, [0.5, 0.5], [0.25, 0.75]]),
                                                                 "method": e.rng.choice(["mixture", "linear"]), "seed": e.rng.randrange(100)}))
    op("utils.blend_self")(lambda e: (lambda t: t.blend([t, t], method="linear"), (e.t,), {}))
    op("utils.blend_cells")(lambda e: (U.blend_cells, ([e.cell(), e.cell(e.other())], [0.5, 0.5], e.rng.choice(["mixture", "linear"]), 1), {}))
    op("utils.blend_samples")(lambda e: (U.blend_samples, ([list(e.cell().values.values())[0], list(e.cell().values.values())[0]],), {"method": "linear"}))
    op("utils.split")(lambda e: (U.split, (e.t, e.rng.choice([["lob"], ["state", "n"], []])), {}))
    jt = ["full", "inner", "left", "right", "left_anti", "right_anti"]
    op("utils.join")(lambda e: (U.join, (e.t, e.other()), {"join_type": e.rng.choice(jt)}))
    op("utils.merge")(lambda e: (U.merge, (e.t, e.other()), {"join_type": e.rng.choice(jt)}))
    op("utils.merge_on")(lambda e: (U.merge, (e.t, e.other()), {"on": ["country"]}))
    op("utils.period_merge")(lambda e: (U.period_merge, (e.t, e.other().right_edge), {"suffix": e.rng.choice([None, "_r"])}))
    op("utils.loose_period_merge")(lambda e: (U.loose_period_merge, (e.t, e.other().right_edge), {"suffix": e.rng.choice([None, "_r"])}))
    op("utils.coalesce")(lambda e: (U.coalesce, ([e.t, e.other(), e.root],), {}))
    op("utils.to_incremental")(lambda e: (U.to_incremental, (e.t,), {}))
    op("utils.to_cumulative")(lambda e: (U.to_cumulative, (e.t,), {}))
    op("utils.add_statics")(lambda e: (U.add_statics, (e.t, e.other()), {"statics": e.fields()}))
    op("utils.make_right_triangle")(lambda e: (U.make_right_triangle, (e.t,), {"dev_lags": e.rng.choice([None, [0, 3, 6, 12]])}))
    op("utils.make_right_diagonal")(lambda e: (U.make_right_diagonal, (e.t, [e.date() + datetime.timedelta(days=400), e.date()]), {"include_historic": e.rng.random() < 0.5}))
    op("utils.make_pred_triangle_complement")(lambda e: (U.make_pred_triangle_complement, (e.t,), {"static_fields": e.rng.choice([None, ["earned_premium"]])}))
    op("utils.make_pred_triangle_with_init")(lambda e: (U.make_pred_triangle_with_init, (e.t,), {"max_dev_lag": (24, "months"), "eval_resolution": e.rng.choice([(3, "months"), (12, "months"), None])}))
    op("utils.make_pred_triangle_with_init_pred")(lambda e: (U.make_pred_triangle_with_init, (e.t, e.other()), {}))
    op("utils.thin")(lambda e: (U.thin, (e.t, e.rng.choice([1, 2, 3, 5])), {"seed": e.rng.randrange(50)}))
    op("utils.bootstrap")(lambda e: (U.bootstrap, (e.t, e.rng.choice([1, 2])), {"seed": e.rng.randrange(50), "field": e.rng.choice([None, e.fields()[0]])}))
    op("utils.moment_match")(lambda e: (U.moment_match, (e.t, e.fields(), e.rng.choice(["normal", "lognormal", "gamma"])), {}))
    op("utils.backfill")(lambda e: (U.backfill, (e.t,), {"static_fields": e.rng.choice([["earned_premium"], e.fields()])}))
    op("utils.fill_forward_gaps")(lambda e: (U.fill_forward_gaps, (e.t,), {"fill_with_none": e.rng.random() < 0.5}))
    op("utils.shift_origin")(lambda e: (U.shift_origin, (e.t, e.other()), {}))
    op("utils.convert_to_dollars")(lambda e: (U.convert_to_dollars, (e.t,), {"exchange_rates": e.rng.choice([None, {"EUR": 1.2, "USD": 1.0}])}))
    op("utils.convert_currency")(lambda e: (U.convert_currency, (e.t, "EUR", {"EUR": 1.0, "USD": 0.9}), {}))
    op("utils.disaggregate")(lambda e: (U.disaggregate, (e.t,), {"resolution_exp_months": e.rng.choice([1, 3]), "resolution_dev_months": e.rng.choice([1, 3]), "fields": e.rng.choice([None, e.fields()])}))
    op("utils.disaggregate_experience")(lambda e: (U.disaggregate_experience, (e.t, e.rng.choice([1, 3, 6])), {"period_weights": e.rng.choice([None, [0.5, 0.5], [0.25, 0.25, 0.5]]), "fields": e.fields()}))
    op("utils.disaggregate_development")(lambda e: (U.disaggregate_development, (e.t, e.rng.choice([1, 3])), {"fields": e.fields(), "extrapolate_first_period": e.rng.random() < 0.5}))
    op("utils.accident_quarter_to_policy_year")(lambda e: (U.accident_quarter_to_policy_year, (e.t,), {"continuous_issuance": e.rng.random() < 0.5}))
    op("utils.array_from_field")(lambda e: (F.array_from_field, (e.t, e.fields()[0]), {}))
    op("utils.array_sizes")(lambda e: (lambda t: (F.array_sizes(t), F.array_size(t)), (e.t,), {}))
    def claims(t):
        # the Berquist-Sherman adjustments need claim-count fields
        return t.derive_fields(open_claims=lambda c: c["paid_loss"] * 0 + 4, cwp_claims=lambda c: c["paid_loss"] * 0 + 6,
                               reported_claims=lambda c: c["paid_loss"] * 0 + 10, reported_loss=lambda c: c["paid_loss"] * 2 + 10)

    op("utils.paid_bs_adjustment")(lambda e: (U.paid_bs_adjustment, (claims(e.t), claims(e.t).right_edge.derive_fields(reported_claims_ult=12)), {}))
    op("utils.paid_bs_adjustment_raw")(lambda e: (U.paid_bs_adjustment, (e.t, e.other()), {}))
    op("utils.reported_bs_adjustment")(lambda e: (U.reported_bs_adjustment, (claims(e.t),), {"annual_severity_trend": 0.05}))
    op("utils.reported_bs_adjustment_raw")(lambda e: (U.reported_bs_adjustment, (e.t,), {"annual_severity_trend": 0.05}))
    # composition (round 8): the receiver is itself the output of the operation and already carries the weight column
    op("utils.weight_geometric_decay_on_weighted")(lambda e: (U.weight_geometric_decay, (U.weight_geometric_decay(e.t, 0.9), 0.8),
                                                               {"weight_as_field": e.rng.random() < 0.3,
                                                                "basis": e.rng.choice(["evaluation", "experience"])}))
    op("utils.weight_geometric_decay_on_weighted_explicit_fields")(lambda e: (
        U.weight_geometric_decay, (U.weight_geometric_decay(e.t, 0.9), 0.8),
        {"weight_as_field": False, "tri_fields": list(U.weight_geometric_decay(e.t, 0.9).fields)}))
    op("utils.weight_geometric_decay")(lambda e: (U.weight_geometric_decay, (e.t, 0.9), {"basis": e.rng.choice(["evaluation", "experience"]), "weight_as_field": e.rng.random() < 0.5}))
    op("utils.slice_roundtrip")(lambda e: (lambda t: U.slice_to_triangle(U.triangle_to_slice(t)), (e.t,), {}))
    # ---- writers
    op("io.to_binary")(lambda e: (lambda t, p, c: t.to_binary(p, compress=c), (e.t, e.path("trib"), e.rng.random() < 0.5), {}))
    op("io.to_json_file")(lambda e: (lambda t, p: t.to_json(p), (e.t, e.path("json")), {}))
    op("io.to_json_str")(lambda e: (lambda t: t.to_json(), (e.t,), {}))
    op("io.to_dict")(lambda e: (lambda t: t.to_dict(), (e.t,), {}))
    op("io.to_long_csv")(lambda e: (lambda t, p: t.to_long_csv(p), (e.t, e.path("csv")), {}))
    op("io.to_wide_csv")(lambda e: (lambda t, p: t.to_wide_csv(p), (e.t, e.path("csv")), {}))
    op("io.to_long_data_frame")(lambda e: (lambda t: t.to_long_data_frame(), (e.t,), {}))
    op("io.to_wide_data_frame")(lambda e: (lambda t: t.to_wide_data_frame(), (e.t,), {}))
    op("io.to_array_data_frame")(lambda e: (lambda t, f: t.to_array_data_frame(f), (e.t, e.fields()[0]), {}))
    op("io.to_right_edge_data_frame")(lambda e: (lambda t: t.to_right_edge_data_frame(), (e.t,), {}))
    op("io.to_chain_ladder")(lambda e: (lambda t: t.to_chain_ladder(), (e.t,), {}))
    op("io.triangle_to_matrix")(lambda e: (iom.triangle_to_matrix, (e.t,), {"fields": e.rng.choice([None, e.fields()])}))
    op("io.triangle_to_rich_matrix")(lambda e: (iorm.triangle_to_rich_matrix, (e.t,), {"fields": e.rng.choice([None, e.fields()])}))
    # ---- plot data
    op("plot.build_plot_data")(lambda e: (build_plot_data, (e.t,), {"flat": e.rng.random() < 0.5, "keep_samples": e.rng.random() < 0.5,
                                                                   "remove_empties": e.rng.random() < 0.7}))
    # ---- argument spellings / falsy-but-valid arguments / datetime-like coordinates (HARDENING D, E, K)
    import pandas as pd

    class _DT(datetime.datetime):
        pass

    def dt(d, h=13):
        return datetime.datetime(d.year, d.month, d.day, h, 45)

    op("tri.clip_datetime")(lambda e: (lambda t, d: t.clip(max_eval=dt(d), min_period=pd.Timestamp(t.periods[0][0]) if t.periods else None), (e.t, e.date()), {}))
    op("tri.filter_none")(lambda e: (lambda t: t.filter(lambda c: 0), (e.t,), {}))
    op("tri.select_empty")(lambda e: (lambda t: t.select([]), (e.t,), {}))
    op("tri.dev_lags_upper")(lambda e: (lambda t, u: t.dev_lags(u), (e.t, e.rng.choice(["Months", "DAY", "Month"])), {}))
    op("tri.derive_fields_falsy")(lambda e: (lambda t: t.derive_fields(zero=0, none=None, fzero=0.0, off=False), (e.t,), {}))
    op("tri.derive_metadata_falsy")(lambda e: (lambda t: t.derive_metadata(per_occurrence_limit=0, country="", note=None, flag=False), (e.t,), {}))
    op("cell.replace_datetime")(lambda e: (lambda c, d: c.replace(evaluation_date=_DT(d.year, d.month, d.day, 23, 59), period_end=pd.Timestamp(c.period_end)), (e.cell(), e.date()), {}))
    op("utils.make_right_diagonal_ts")(lambda e: (U.make_right_diagonal, (e.t, [pd.Timestamp(e.date() + datetime.timedelta(days=400)), dt(e.date())]), {}))
    op("utils.blend_zero_weight")(lambda e: (U.blend, ([e.t, e.other()],), {"weights": [0.0, 1.0], "method": e.rng.choice(["mixture", "Mixture", "LINEAR"]), "seed": 0}))
    op("utils.thin_positional_seed0")(lambda e: (U.thin, (e.t, e.rng.choice([1, 2, 3]), 0), {}))
    op("utils.bootstrap_positional")(lambda e: (U.bootstrap, (e.t, 1, 0, e.rng.choice([[], None, e.fields()[:1]])), {}))
    op("utils.merge_upper")(lambda e: (U.merge, (e.t, e.other(), e.rng.choice(["FULL", "Inner", "full"])), {}))
    op("utils.add_statics_empty")(lambda e: (U.add_statics, (e.t, e.other(), []), {}))
    op("utils.aggregate_positional")(lambda e: (U.aggregate, (e.t, e.rng.choice([(1, "Year"), (1, "year"), (12, "months")]), None), {"summarize_premium": e.rng.choice([0, 1])}))
    op("utils.summarize_falsy_kw")(lambda e: (U.summarize, (e.t, None, 0), {}))
    op("utils.moment_match_empty")(lambda e: (U.moment_match, (e.t, [], "normal"), {}))
    op("utils.split_empty")(lambda e: (U.split, (e.t, ()), {}))
    op("io.to_binary_kw")(lambda e: (bermuda.io.triangle_to_binary, (), {"triangle": e.t, "filename": e.path("tribc"), "compress": 1}))
    # ---- plotting entry points (chart construction only; nothing is rendered)
    for nm in ["plot_right_edge", "plot_data_completeness", "plot_heatmap", "plot_atas", "plot_growth_curve",
               "plot_mountain", "plot_ballistic", "plot_broom", "plot_drip", "plot_hose", "plot_sunset", "plot_histogram"]:
        def mkp(nm=nm):
            return lambda e: (getattr(Triangle, nm), (e.t,), {})
        ops[f"plot.{nm}"] = mkp()
    return ops


_OPS = None


def ops():
    global _OPS
    if _OPS is None:
        _OPS = _ops()
    return _OPS


# ================================================================================ cases
SHAPES = [(v, b, s) for v in ("scalar", "array") for b in ("cum", "inc") for s in (1, 2)]


def gen_triangle(rng: random.Random, shape=None):
    """A valid triangle of the requested class: (scalar|array valued, cum|inc, single|multi slice)."""
    from harness.gen import Gen

    v, b, s = shape or rng.choice(SHAPES)
    g = Gen(rng)
    values = rng.choice(["int", "float"]) if v == "scalar" else rng.choice(["arr_float", "arr_float", "arr_int", "mixed"])
    layout = rng.choice(["regular", "regular", "ragged", "ragged", "holey", "single_period", "single_lag", "irregular", "daily"])
    n_slices = 1 if s == 1 else rng.choice([2, 3])
    fields = rng.sample(["paid_loss", "reported_loss", "earned_premium", "incurred_loss"], rng.randint(1, 3))
    if rng.random() < 0.6 and "earned_premium" not in fields:
        fields.append("earned_premium")
    t, info = g.triangle(layout=layout, basis=b, n_slices=n_slices, values=values, fields=fields,
                         res=rng.choice([3, 3, 12, 1, 6]), n_periods=rng.randint(1, 4), n_lags=rng.randint(1, 4),
                         n_samples=rng.choice([3, 5]), same_fields=rng.random() < 0.8,
                         slice_diff=rng.choice(["details", "country", "currency", "loss_details", "several", None]))
    # positive values make more operations succeed (bootstrap, moment_match, disaggregate)
    if rng.random() < 0.5:
        t = t.replace(values=lambda c: {k: (np.abs(x) + 1 if isinstance(x, np.ndarray) else abs(x) + 1)
                                        for k, x in c.values.items()})
    # sample arrays of narrower / other dtypes (accepted by Cell.__init__): float32, int32, int16, bool.
    # Writers and numeric code that "widen" such values must not store the widened array back into the cell.
    if v == "array" and rng.random() < 0.35:
        dt = rng.choice([np.float32, np.float32, np.int32, np.int16, np.bool_])
        which = rng.choice(["all", "some"])

        def narrow(x):
            if isinstance(x, np.ndarray) and (which == "all" or rng.random() < 0.5):
                return (x != 0) if dt is np.bool_ else x.astype(dt)
            return x

        try:
            t = t.replace(values=lambda c: {k: narrow(x) for k, x in c.values.items()})
            info["narrow_dtype"] = np.dtype(dt).name
        except Exception:  # noqa: BLE001
            pass
    # metadata whose details / loss_details hold None and other falsy values (the dicts of the frozen
    # Metadata dataclass are mutable: an operation that "cleans" them in place changes its argument)
    falsy = rng.random()
    if falsy < 0.5:
        import dataclasses

        pool = [("note", None), ("zero", 0), ("empty", ""), ("off", False), ("memo", None)]
        ex_d = dict(rng.sample(pool, rng.randint(1, 3)))
        ex_l = dict(rng.sample(pool, rng.randint(0, 2)))
        if falsy < 0.3:
            ex_d["note"] = None
        new_meta = {}
        for m in t.metadata:
            front = rng.random() < 0.5       # insertion order matters too
            d = {**ex_d, **m.details} if front else {**m.details, **ex_d}
            new_meta[m] = dataclasses.replace(m, details=d, loss_details={**m.loss_details, **ex_l})
        try:
            t2 = bermuda_triangle([c._base_replace(metadata=new_meta[c.metadata]) for c in t.cells])
            if len(t2.metadata) == len(t.metadata):
                t = t2
                info["falsy_details"] = sorted(k for k, x in ex_d.items() if x is None) or ["(non-None falsy)"]
        except Exception:  # noqa: BLE001  (incomparable metadata: keep the plain triangle)
            pass
    info["shape"] = f"{v}/{b}/{'multi' if s > 1 else 'single'}"
    return t, info


def bermuda_triangle(cells):
    from bermuda import Triangle

    return Triangle(cells)


_DIRECTED = None


def directed_triangles():
    """Small hand-made triangles, one per input family of notes/HARDENING.md (A-L); every monitored operation
    runs once on each of them in every quick run."""
    global _DIRECTED
    if _DIRECTED is not None:
        return _DIRECTED
    import pandas as pd
    from bermuda import CumulativeCell, IncrementalCell, Metadata, Triangle

    D = datetime.date
    out = {}
    Q = [(D(2020, 1, 1), D(2020, 3, 31)), (D(2020, 4, 1), D(2020, 6, 30)), (D(2020, 7, 1), D(2020, 9, 30))]
    EV = [D(2020, 9, 30), D(2020, 12, 31), D(2021, 3, 31)]

    def grid(meta_of=lambda i, j: None, vals_of=lambda i, j: {"paid_loss": 100 * (i + 1) + j, "earned_premium": 500},
             periods=Q, evs=EV, inc=False, coord=lambda d, k: d):
        cells = []
        for i, (ps, pe) in enumerate(periods):
            prev = ps - datetime.timedelta(days=1)
            for j, e in enumerate(evs):
                if e < pe:
                    continue
                kw = dict(period_start=coord(ps, 0), period_end=coord(pe, 1), evaluation_date=coord(e, 2),
                          values=vals_of(i, j), metadata=meta_of(i, j))
                if inc:
                    cells.append(IncrementalCell(prev_evaluation_date=prev, **kw))
                    prev = e
                else:
                    cells.append(CumulativeCell(**kw))
        return cells

    def add(name, thunk):
        try:
            with warnings.catch_warnings():
                warnings.simplefilter("ignore")
                out[name] = thunk()
        except Exception:  # noqa: BLE001  (a family the constructor itself refuses: nothing to monitor)
            pass

    arr = lambda i, j, n=3: np.array([10.0 * (i + 1) + j + k for k in range(n)])   # noqa: E731
    # A  equal Metadata spelled differently inside one slice
    m1 = Metadata(details={"a": 7, "b": True, "lob": "x"}, loss_details={"c": 1, "d": "y"}, per_occurrence_limit=1000)
    m2 = Metadata(details={"lob": "x", "b": 1, "a": 7.0}, loss_details={"d": "y", "c": 1.0}, per_occurrence_limit=1000.0)
    add("A:equal-metadata-spelled-differently", lambda: Triangle(grid(lambda i, j: m1 if (i + j) % 2 else m2)))
    add("A:same+second-slice", lambda: Triangle(grid(lambda i, j: m1 if (i + j) % 2 else m2) + grid(lambda i, j: Metadata(country="DE"))))
    # B  distinct Metadata that flatten alike
    for nm, ms in {"currency-attr-vs-detail": [Metadata(currency="USD"), Metadata(details={"currency": "USD"})],
                   "detail-vs-loss_detail": [Metadata(details={"k": "v"}), Metadata(loss_details={"k": "v"})],
                   "only-loss_details": [Metadata(loss_details={"cov": "a"}), Metadata(loss_details={"cov": "b"}), Metadata()],
                   "none-empty-missing": [Metadata(details={"x": None}), Metadata(details={"x": ""}), Metadata()]}.items():
        add("B:" + nm, lambda ms=ms: Triangle([c for m in ms for c in grid(lambda i, j: m)]))
    # C  calendar corners
    add("C:february-2000", lambda: Triangle(grid(periods=[(D(2000, 1, 1), D(2000, 1, 31)), (D(2000, 2, 1), D(2000, 2, 29))],
                                                  evs=[D(2000, 2, 28), D(2000, 2, 29), D(2000, 3, 1), D(2000, 3, 31)])))
    add("C:february-2100", lambda: Triangle(grid(periods=[(D(2100, 1, 1), D(2100, 1, 31)), (D(2100, 2, 1), D(2100, 2, 28))],
                                                  evs=[D(2100, 2, 27), D(2100, 2, 28), D(2100, 3, 1), D(2100, 3, 31)])))
    add("C:far-future", lambda: Triangle(grid(periods=[(D(2240, 11, 1), D(2240, 11, 30)), (D(2240, 12, 1), D(2240, 12, 31))],
                                               evs=[D(2240, 12, 31), D(2241, 1, 30), D(2241, 1, 31)])))
    add("C:pre-1970", lambda: Triangle(grid(periods=[(D(1969, 11, 1), D(1969, 11, 30)), (D(1969, 12, 1), D(1969, 12, 31))],
                                            evs=[D(1969, 12, 31), D(1970, 1, 31), D(1970, 2, 28)])))
    # D  coordinates given as datetime / Timestamp / datetime subclass with a time of day

    class _DT(datetime.datetime):
        pass

    conv = [lambda d: datetime.datetime(d.year, d.month, d.day, 13, 45), lambda d: pd.Timestamp(d) + pd.Timedelta(hours=23),
            lambda d: _DT(d.year, d.month, d.day, 0, 0, 1)]
    add("D:datetime-coordinates", lambda: Triangle(grid(coord=lambda d, k: conv[k](d))))
    add("D:datetime-coordinates-incremental", lambda: Triangle(grid(coord=lambda d, k: conv[(k + 1) % 3](d), inc=True)))
    # E  falsy but valid values
    add("E:falsy-values", lambda: Triangle(grid(lambda i, j: Metadata(per_occurrence_limit=0, details={"z": 0, "e": "", "f": False, "n": None}),
                                                lambda i, j: {"paid_loss": 0, "reported_loss": 0.0, "earned_premium": None if j else 0, "incurred_loss": False})))
    # F  degenerate shapes
    add("F:empty", lambda: Triangle([]))
    add("F:one-cell", lambda: Triangle(grid(periods=Q[:1], evs=EV[:1])))
    add("F:field-only-later+all-None", lambda: Triangle(grid(vals_of=lambda i, j: {"paid_loss": 5 + j, "written_premium": None,
                                                                                      **({"reported_loss": 9} if j else {})})))
    add("F:scalar-cells-after-sample-cells", lambda: Triangle(grid(lambda i, j: Metadata(details={"s": "A" if i < 2 else "B"}),
                                                                   lambda i, j: {"paid_loss": arr(i, j) if i < 2 else 7.0, "earned_premium": 500})))
    # G  NumPy corner types
    big = np.arange(8, dtype=np.int64) * 3 + 2**55
    add("G:numpy-scalars+0d+size1+strided", lambda: Triangle(grid(vals_of=lambda i, j: {
        "paid_loss": big[::2], "reported_loss": np.float64(2.5 + j), "reported_claims": np.int64(2**60 + i),
        "earned_premium": np.array(5.0), "incurred_loss": np.array([4.0]), "written_premium": np.arange(8.0)[1::2]})))
    add("G:narrow-dtypes", lambda: Triangle(grid(vals_of=lambda i, j: {
        "paid_loss": arr(i, j).astype(np.float32), "reported_loss": arr(i, j).astype(np.int32),
        "reported_claims": arr(i, j).astype(np.int16), "incurred_loss": arr(i, j) > 11})))
    add("G:2d-fortran", lambda: Triangle(grid(vals_of=lambda i, j: {"paid_loss": np.asfortranarray(np.arange(6.0).reshape(2, 3))})))
    # M  metadata whose only difference are values with colliding CPython hashes
    add("M:hash-colliding-slices", lambda: Triangle([c for m in [Metadata(details={"h": -1, "z": 0}), Metadata(details={"h": -2, "z": 0}),
                                                                 Metadata(details={"h": -1, "z": 2**61 - 1}),
                                                                 Metadata(details={"h": -1, "z": 0}, per_occurrence_limit=-1.0),
                                                                 Metadata(details={"h": -1, "z": 0}, per_occurrence_limit=-2.0)]
                                                     for c in grid(lambda i, j: m, periods=Q[:2])][::-1]))
    # N  dates far outside the datetime64[ns] range, alone and next to ordinary ones
    for y in (2300, 2999, 1600):
        add(f"N:year-{y}", lambda y=y: Triangle(grid(periods=[(D(y, 1, 1), D(y, 3, 31)), (D(y, 4, 1), D(y, 6, 30))],
                                                     evs=[D(y, 6, 30), D(y, 9, 30)])))
    add("N:year-9999+date.max", lambda: Triangle(grid(periods=[(D(9999, 11, 1), D(9999, 11, 30)), (D(9999, 12, 1), D.max)],
                                                      evs=[D(9999, 12, 30)])))
    add("N:ordinary+far", lambda: Triangle(grid(periods=Q[:1], evs=EV[:2]) +
                                           grid(periods=[(D(2999, 1, 1), D(2999, 3, 31))], evs=[D(2999, 3, 31), D(2999, 6, 30)])))
    # I  restated cells
    add("I:restated-cells", lambda: Triangle(grid() + grid(vals_of=lambda i, j: {"paid_loss": 1, "earned_premium": 2})))
    # J  period layouts
    add("J:semi-monthly", lambda: Triangle(grid(periods=[(D(2020, 1, 1), D(2020, 1, 15)), (D(2020, 1, 16), D(2020, 1, 31)), (D(2020, 2, 1), D(2020, 2, 15))],
                                                evs=[D(2020, 1, 31), D(2020, 2, 15), D(2020, 2, 29)])))
    add("J:nested-overlapping", lambda: Triangle(grid(periods=[(D(2020, 1, 1), D(2020, 3, 31)), (D(2020, 1, 1), D(2020, 12, 31)), (D(2020, 3, 1), D(2020, 6, 30))],
                                                      evs=[D(2020, 12, 31), D(2021, 6, 30)])))
    add("J:per-slice-ragged+gaps", lambda: Triangle(grid(lambda i, j: Metadata(country="US"), periods=Q[::2]) +
                                                    grid(lambda i, j: Metadata(country="DE"), evs=EV[1:])))
    add("J:incremental-plain", lambda: Triangle(grid(inc=True)))
    _DIRECTED = out
    return out


_LARGE = {}
LARGE_OPS = ["utils.summarize", "utils.summarize_falsy_kw", "utils.aggregate", "utils.aggregate_positional", "plot.build_plot_data",
             "utils.thin", "utils.blend", "utils.blend_self", "utils.merge", "utils.coalesce", "utils.to_incremental", "utils.to_cumulative",
             "utils.add_statics", "utils.moment_match", "utils.bootstrap", "io.to_binary", "io.to_json_str", "io.to_long_data_frame",
             "tri.select", "tri.derive_fields_fn", "tri.derive_metadata", "tri.right_edge", "tri.slices", "tri.eq", "tri.hash",
             "tri.add", "tri.repr", "cell.to_record", "meta.api", "utils.split", "utils.make_right_triangle", "utils.period_merge"]
LARGE_CHART_OPS = ["plot.plot_right_edge", "plot.plot_histogram", "plot.plot_growth_curve"]


def large_triangles(thorough=False):
    """HARDENING family Q: a few LARGE triangles built once per process (sizes cross the thresholds met in seeded
    changes: > 128 / 129 / 257 cells merging into one output cell, >= 4096 / 5000 samples per array incl. reversed
    views, >= 3100 cells, rows of > 65 cells and > 64 evaluation dates, > 2100 distinct Metadata, integers
    beyond 2**53)."""
    key = bool(thorough)
    if key in _LARGE:
        return _LARGE[key]
    from bermuda import CumulativeCell, IncrementalCell, Metadata, Triangle

    D = datetime.date
    out = {}
    g = np.random.default_rng(12345)

    def me(y, m):
        import calendar
        return D(y, m, calendar.monthrange(y, m)[1])

    def add(name, thunk):
        try:
            with warnings.catch_warnings():
                warnings.simplefilter("ignore")
                out[name] = thunk()
        except Exception:  # noqa: BLE001
            pass

    def slices_tri(nsl, inc=False):
        cells = []
        for s_ in range(nsl):
            m = Metadata(details={"id": 20240000001 + s_}, per_occurrence_limit=2**53 + s_ % 2)
            for p_ in range(2):
                prev = D(2020, 1 + 3 * p_, 1) - datetime.timedelta(days=1)
                for e in (me(2020, 6), me(2020, 9)):
                    vals = {"paid_loss": g.integers(1, 1000, 3).astype(float), "earned_premium": float(100 + s_)}
                    kw = dict(period_start=D(2020, 1 + 3 * p_, 1), period_end=me(2020, 3 + 3 * p_), evaluation_date=e, values=vals, metadata=m)
                    if inc:
                        cells.append(IncrementalCell(prev_evaluation_date=prev, **kw))
                        prev = e
                    else:
                        cells.append(CumulativeCell(**kw))
        return Triangle(cells)

    def many_periods(np_, days=2):
        cells = []
        for p_ in range(np_):
            ps = D(2020, 1, 1) + datetime.timedelta(days=days * p_)
            vals = {"paid_loss": g.integers(1, 1000, 4).astype(float), "earned_premium": 2**53 + p_}
            cells.append(CumulativeCell(period_start=ps, period_end=ps + datetime.timedelta(days=days - 1),
                                        evaluation_date=D(2020, 12, 31), values=vals))
        return Triangle(cells)

    def big_samples(n):
        cells = []
        for p_ in range(2):
            for j, e in enumerate((me(2020, 12), me(2021, 12))):
                a = g.permutation(n).astype(float) + 1
                vals = {"paid_loss": a if (p_ + j) % 2 else a[::-1], "reported_loss": 2 * a + 1, "earned_premium": 5000.0 * n}
                cells.append(CumulativeCell(period_start=D(2019 + p_, 1, 1), period_end=D(2019 + p_, 12, 31), evaluation_date=e, values=vals))
        return Triangle(cells)

    def long_rows(P, L):
        cells = []
        for p_ in range(P):
            y, m = 2000 + p_ // 12, 1 + p_ % 12
            for lag in range(L):
                i = y * 12 + m - 1 + lag
                cells.append(CumulativeCell(period_start=D(y, m, 1), period_end=me(y, m), evaluation_date=me(i // 12, i % 12 + 1),
                                            values={"paid_loss": 100 * (lag + 1) + p_, "earned_premium": 2**53 + 1}))
        return Triangle(cells)

    add("Q:140-slices-one-group", lambda: slices_tri(140))                 # summarize: 140 cells merge into one
    add("Q:257-slices-incremental", lambda: slices_tri(257, inc=True))
    add("Q:140-periods-one-year", lambda: many_periods(140))               # aggregate to a year: 140 cells merge into one
    add("Q:5000-sample-arrays", lambda: big_samples(5000))                 # >= 4096 samples, reversed views
    add("Q:50x66-rows", lambda: long_rows(50, 66))                         # 3300 cells, rows of 66, > 64 evaluation dates
    if thorough:
        add("Q:2200-slices", lambda: slices_tri(2200))
        add("Q:1100-periods", lambda: many_periods(1100, days=1))
        add("Q:100000-sample-arrays", lambda: big_samples(100000))
    _LARGE[key] = out
    return out


def run_case(case: dict, tmp, stop_at_first=True):
    """case = {"seed": int, "shape": [v,b,s] | None, "ops": [names] | None, "length": int}
    Returns (record, violations).  Every call of the sequence is monitored; in addition every
    triangle seen so far (the root and all intermediates) is re-checked after every call, so a write
    through an alias into an EARLIER argument is caught at the position where it happens."""
    import bermuda

    rng = random.Random(case["seed"])
    shape = tuple(case["shape"]) if case.get("shape") else None
    with warnings.catch_warnings():
        warnings.simplefilter("ignore")
        if case.get("large"):
            root = large_triangles(case.get("thorough", False))[case["large"]]
            info = {"shape": "large:" + case["large"], "n_cells": len(root), "large": case["large"]}
        elif case.get("directed"):
            root = directed_triangles()[case["directed"]]
            info = {"shape": "directed:" + case["directed"], "n_cells": len(root), "directed": case["directed"]}
        else:
            root, info = gen_triangle(rng, shape)
    names = sorted(n for n in ops() if not (case.get("no_charts") and n.startswith("plot.plot_")))
    seq = case.get("ops") or [rng.choice(names) for _ in range(case.get("length", 1))]
    cur, live = root, [root]
    trace, violations = [], []
    for step, name in enumerate(seq):
        oprng = random.Random(case["seed"] * 1000003 + step)
        env = Env(cur, root, oprng, tmp, lambda r: gen_triangle(r)[0])
        try:
            with warnings.catch_warnings():
                warnings.simplefilter("ignore")
                f, args, kwargs = ops()[name](env)
        except Exception as ex:  # noqa: BLE001  (builder could not make arguments for this triangle)
            trace.append((name, "skipped:" + type(ex).__name__))
            continue
        res, exc, changes = monitored(f, args, kwargs, extra_watch=live)
        trace.append((name, "raised:" + type(exc).__name__ if exc is not None else "returned"))
        if case.get("directed") and exc is None and res is not None and not changes:
            # HARDENING H: the same call again must not change what the first call handed out
            try:
                with warnings.catch_warnings():
                    warnings.simplefilter("ignore")
                    env2 = Env(cur, root, random.Random(case["seed"] * 1000003 + step), tmp, lambda r: gen_triangle(r)[0])
                    f2, args2, kwargs2 = ops()[name](env2)
                _, _, ch2 = monitored(f2, args2, kwargs2, extra_watch=[res])
                changes += [(lab, "second identical call: " + pth) for lab, pth in ch2 if lab.startswith("live")]
            except Exception:  # noqa: BLE001
                pass
        for label, path in changes:
            violations.append({"seed": case["seed"], "shape": list(shape) if shape else None, "ops": list(seq),
                               "step": step, "op": name, "outcome": trace[-1][1], "argument": label, "change": path,
                               "triangle": info.get("shape"), "directed": case.get("directed"),
                               "large": case.get("large"), "thorough": case.get("thorough", False)})
        # the known defaultdict finding (see c03.classify) does not end the exploration of a sequence
        if stop_at_first and any("defaultdict" not in v["change"] for v in violations):
            break
        nxt = None
        if isinstance(res, bermuda.Triangle):
            nxt = res
        elif isinstance(res, list) and res and isinstance(res[0], bermuda.Triangle):
            nxt = res[oprng.randrange(len(res))]
        elif isinstance(res, dict) and res and all(isinstance(v, bermuda.Triangle) for v in res.values()):
            nxt = list(res.values())[oprng.randrange(len(res))]
        if nxt is not None and len(nxt) > 0 and len(nxt) <= 400:
            cur = nxt
            if not any(nxt is x for x in live):
                live.append(nxt)
    return {"info": info, "trace": trace}, violations
