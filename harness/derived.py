"""Derived inputs (round 8/9, kind K1 "composition"): the 'same' triangle as OTHER public operations hand it out.

`==`-equal is not indistinguishable: an operation's output can differ from a freshly built triangle in the class of
the container (TriangleSlice), the class of the cells, dtype / 0-d-ness / writability / sharing of arrays, key order of
the values / details / loss_details dicts, NumPy vs Python scalars.  `variants(t)` returns (how, triangle) pairs that
hold the same cells by VALUE (the caller compares with its own canonical form if it needs strict identity), each built
by a public operation or by re-spelling the cells the way a public operation does.  A derivation that raises is
skipped (the derivation itself is another property's business)."""
import tempfile
import warnings
from pathlib import Path

import numpy as np

ROOT = Path(__file__).resolve().parent.parent

HOWS = ("from_binary", "from_binary_compressed", "from_dict", "read_only_arrays", "shared_arrays", "zero_d_arrays",
        "numpy_scalars", "reversed_dict_order", "triangle_slice", "basis_round_trip", "filter_true", "select_all",
        "derive_metadata_same", "replace_same")


def _map_values(t, f):
    from bermuda import Triangle

    return Triangle([c.replace(values={k: f(v) for k, v in c.values.items()}) for c in t.cells])


def derive(t, how):
    from bermuda import Metadata, Triangle, TriangleSlice

    if how.startswith("from_binary"):
        (ROOT / "build").mkdir(exist_ok=True)
        with tempfile.TemporaryDirectory(dir=str(ROOT / "build")) as d:
            comp = how.endswith("compressed")
            p = str(Path(d) / ("t.tribc" if comp else "t.trib"))
            t.to_binary(p, compress=comp)
            return Triangle.from_binary(p)
    if how == "from_dict":
        return Triangle.from_dict(t.to_dict())
    if how == "read_only_arrays":
        def ro(v):
            if isinstance(v, np.ndarray):
                v = v.copy()
                v.setflags(write=False)
            return v
        return _map_values(t, ro)
    if how == "shared_arrays":          # one ndarray OBJECT held by every cell that has equal data (as period_merge / add_statics do)
        pool = {}

        def share(v):
            if isinstance(v, np.ndarray) and v.ndim:
                return pool.setdefault((str(v.dtype), v.shape, v.tobytes()), v)
            return v
        return _map_values(t, share)
    if how == "zero_d_arrays":          # the CSV / data-frame readers wrap numbers in 0-d arrays
        return _map_values(t, lambda v: np.array(v) if isinstance(v, (int, float)) and not isinstance(v, bool) else v)
    if how == "numpy_scalars":
        return _map_values(t, lambda v: (np.int64(v) if isinstance(v, int) and not isinstance(v, bool) and abs(v) < 2**62
                                         else np.float64(v) if isinstance(v, float) else v))
    if how == "reversed_dict_order":
        import dataclasses

        def rm(m):
            return dataclasses.replace(m, details=dict(reversed(list(m.details.items()))),
                                       loss_details=dict(reversed(list(m.loss_details.items()))))
        return Triangle([c.replace(metadata=rm(c.metadata), values=dict(reversed(list(c.values.items())))) for c in t.cells])
    if how == "triangle_slice":
        if len(t.slices) != 1:
            raise ValueError("not a single slice")
        return TriangleSlice(t.cells)
    if how == "basis_round_trip":
        return t.to_cumulative().to_incremental() if t.is_incremental else t.to_incremental().to_cumulative()
    if how == "filter_true":
        return t.filter(lambda c: True)
    if how == "select_all":
        return t.select(list(t.fields))
    if how == "derive_metadata_same":
        return t.derive_metadata(details=lambda c: dict(c.metadata.details))
    if how == "replace_same":
        return t.replace(evaluation_date=lambda c: c.evaluation_date)
    raise ValueError(how)


def variants(t, hows=HOWS):
    out = []
    for how in hows:
        try:
            with warnings.catch_warnings():
                warnings.simplefilter("ignore")
                out.append((how, derive(t, how)))
        except Exception:  # noqa: BLE001
            continue
    return out


# ------------------------------------------------------------------------------------------ metamorphic oracle
def by_value(x):
    """representation-independent canonical form of a result (triangle, list, dict, number, array)"""
    import datetime

    if hasattr(x, "cells") and hasattr(x, "slices"):
        return ("tri", sorted(by_value(c) for c in x.cells))
    tn = type(x).__name__
    if tn in ("Cell", "CumulativeCell", "IncrementalCell"):
        return ("cell", "inc" if tn == "IncrementalCell" else "cum", str(x.period_start), str(x.period_end), str(x.evaluation_date),
                str(getattr(x, "prev_evaluation_date", None)) if tn == "IncrementalCell" else "", by_value(x.metadata),
                tuple(sorted((k, by_value(v)) for k, v in x.values.items())))
    if tn == "Metadata":
        import dataclasses

        return ("meta",) + tuple((f.name, by_value(getattr(x, f.name))) for f in dataclasses.fields(x))
    if isinstance(x, dict):
        return ("dict", tuple(sorted(((repr(by_value(k)), by_value(v)) for k, v in x.items()))))
    if isinstance(x, (list, tuple)):
        return ("seq", tuple(by_value(v) for v in x))
    if isinstance(x, (set, frozenset)):
        return ("set", tuple(sorted(repr(by_value(v)) for v in x)))
    if isinstance(x, np.ndarray):
        if x.ndim == 0:
            return by_value(x.item())
        return ("arr", tuple(by_value(v) for v in x.tolist()))
    if isinstance(x, (bool, np.bool_)):
        return ("b", bool(x))
    if isinstance(x, (int, np.integer)):
        return ("n", int(x)) if abs(int(x)) < 2**53 else ("bigint", int(x))
    if isinstance(x, (float, np.floating)):
        f = float(x)
        if f != f:
            return ("nan",)
        return ("n", int(f)) if f == int(f) and abs(f) < 2**53 else ("f", float(f"{f:.12g}"))
    if isinstance(x, (datetime.date, datetime.timedelta)):
        return ("d", str(x))
    if x is None or isinstance(x, (str, bytes)):
        return ("s", x)
    return ("o", tn, repr(x)[:200])


def _ops(pid):
    """operations the property speaks about, as (name, thunk on a triangle); deterministic, default-ish arguments"""
    import datetime

    import bermuda.utils as U

    D = datetime.date
    if pid == "C04":
        return [("to_incremental", lambda t: t.to_incremental()), ("to_cumulative", lambda t: t.to_cumulative()),
                ("to_incremental().to_cumulative()", lambda t: t.to_incremental().to_cumulative())]
    if pid == "C08":
        return [("aggregate(year)", lambda t: t.aggregate(period_resolution=(1, "year"))),
                ("aggregate(eval year)", lambda t: t.aggregate(eval_resolution=(1, "year")))]
    if pid == "C09":
        return [("summarize()", lambda t: t.summarize()), ("summarize(summarize_premium=False)", lambda t: t.summarize(summarize_premium=False))]
    if pid == "C10":
        return [("merge(t, t.right_edge)", lambda t: U.merge(t, t.right_edge)), ("coalesce([t.right_edge, t])", lambda t: U.coalesce([t.right_edge, t])),
                ("join(t, t.right_edge, 'left_anti')", lambda t: U.join(t, t.right_edge, "left_anti")),
                ("join(t, t.right_edge, 'inner', on=['country'])", lambda t: U.join(t, t.right_edge, "inner", on=["country"])),
                ("add_statics(t, t.right_edge, [first field])", lambda t: U.add_statics(t, t.right_edge, [sorted(t.fields)[0]])),
                ("period_merge(t, t.right_edge, suffix='_e')", lambda t: U.period_merge(t, t.right_edge, suffix="_e"))]
    if pid == "C11":
        return [("right_edge", lambda t: t.right_edge), ("clip(min_dev=1, max_dev=24)", lambda t: t.clip(min_dev=1, max_dev=24)),
                ("clip(max_eval=median)", lambda t: t.clip(max_eval=sorted(t.evaluation_dates)[len(t.evaluation_dates) // 2])),
                ("select(first field)", lambda t: t.select([sorted(t.fields)[0]])), ("extract(first field)", lambda t: list(t.extract(sorted(t.fields)[0]))),
                ("slices", lambda t: [(by_value(k), v) for k, v in t.slices.items()]), ("t[1:-1]", lambda t: t[1:-1]),
                ("filter(lag >= 12)", lambda t: t.filter(lambda c: c.dev_lag() >= 12))]
    if pid == "C13":
        names = ["periods", "evaluation_dates", "fields", "metadata", "common_metadata", "num_samples", "is_disjoint", "is_slicewise_disjoint",
                 "period_resolution", "eval_date_resolution", "experience_gaps", "field_cell_counts", "is_incremental", "is_multi_slice"]
        return [(n, (lambda n: lambda t: getattr(t, n))(n)) for n in names] + [
            ("dev_lags()", lambda t: t.dev_lags()), ("is_regular()", lambda t: t.is_regular()), ("is_semi_regular()", lambda t: t.is_semi_regular())]
    if pid == "C15":
        return [("make_right_triangle", lambda t: t.make_right_triangle()), ("fill_forward_gaps", lambda t: U.fill_forward_gaps(t)),
                ("make_right_diagonal", lambda t: t.make_right_diagonal([max(t.evaluation_dates) + datetime.timedelta(days=366)])),
                ("backfill(static_fields=[])", lambda t: U.backfill(t, static_fields=[]))]
    if pid == "C16":
        return [("blend([t, t], linear)", lambda t: U.blend([t, t], method="linear")),
                ("blend([t, t], [0.25, 0.75], linear)", lambda t: U.blend([t, t], weights=[0.25, 0.75], method="linear"))]
    if pid == "C17":
        return [("thin(1, seed=3)", lambda t: t.thin(1, seed=3)), ("thin(num_samples)", lambda t: t.thin(t.num_samples, seed=1))]
    if pid == "C18":
        return [("convert_currency(USD)", lambda t: U.convert_currency(t, "USD", {"GBP": 1.25, "EUR": 1.5, "DE": 2.0}))]
    if pid == "C07":
        return [("to_dict", lambda t: t.to_dict()), ("from_dict(to_dict)", lambda t: type(t).from_dict(t.to_dict()))]
    if pid == "C02":
        return [("hash-free equality with itself rebuilt", lambda t: [c == d for c, d in zip(t.cells, type(t)(list(t.cells)).cells)])]
    return []


# variants outside a property's stated domain (C07: python scalars and 1-d int64/float64 arrays only)
EXCLUDE = {"C07": {"numpy_scalars", "zero_d_arrays"}}


def metamorphic(ctx, pid, triangles, max_fail=3):
    """op(variant) must equal op(original) BY VALUE for every derived variant of every triangle (and raise iff it raises)."""
    ops = _ops(pid)
    if not ops:
        return 0
    n = nf = 0
    for ti, t in enumerate(triangles):
        try:
            if len(t) == 0:
                continue
            vs = [(h, v) for h, v in variants(t) if h not in EXCLUDE.get(pid, ())]
        except Exception:  # noqa: BLE001
            continue
        for name, f in ops:
            def run(x):
                try:
                    with warnings.catch_warnings():
                        warnings.simplefilter("ignore")
                        return "ok", by_value(f(x))
                except Exception as ex:  # noqa: BLE001
                    return "err", type(ex).__name__
            r0 = run(t)
            for how, v in vs:
                n += 1
                r1 = run(v)
                if r1 != r0 and nf < max_fail:
                    nf += 1
                    from harness.coqterm import cell_to_obj

                    what = (f"{name} on the output of `{how}` ({type(v).__name__}, == the original) "
                            + (f"raised {r1[1]}" if r1[0] == "err" else "gives a different result")
                            + (f" (the original raised {r0[1]})" if r0[0] == "err" else ""))
                    ctx.violation("impl-violation", "derived input: " + what,
                                  {"op": "derived-input", "pid": pid, "operation": name, "how": how,
                                   "triangle": [cell_to_obj(c) for c in t.cells], "original": repr(r0)[:600], "derived": repr(r1)[:600]},
                                  found_input=True)
    ctx.count(evaluations=n)
    ctx.hist(f"derived-input metamorphic runs: {n}")
    return n


def sample_triangles(seed, n=6):
    """a few small triangles of the shared generator: 1-3 slices, scalar / sample values, cumulative and incremental"""
    import random

    from harness.gen import Gen

    g = Gen(random.Random(seed * 9176 + 5))
    out = []
    # a prediction-style triangle: sample vectors next to plain numbers in the same cell, two slices, quarterly
    import datetime

    from bermuda import CumulativeCell, Metadata, Triangle

    D = datetime.date
    cells = []
    for si, (country, cur) in enumerate((("DE", "EUR"), ("GB", "GBP"))):
        for q in range(3):
            ps = D(2021, 3 * q + 1, 1)
            pe = D(2021, 3 * q + 4, 1) - datetime.timedelta(days=1) if q < 3 else D(2021, 12, 31)
            for k in range(3 - q):
                m = 3 * (q + k) + 3
                e = D(2021 + (m - 1) // 12 + (1 if (m - 1) % 12 + 1 == 12 else 0), (m % 12) + 1, 1) - datetime.timedelta(days=1)
                b = 100 * (si + 1) + 10 * q + k
                cells.append(CumulativeCell(ps, pe, e, {"paid_loss": np.array([b, b + 2.5, b + 7.0]), "reported_loss": np.array([2 * b, 2 * b + 1.0, 2 * b + 3.0]),
                                                         "earned_premium": 1000.0 * (q + 1), "reported_claims": 5 + k},
                                            Metadata(country=country, currency=cur, details={"lob": "motor", "seg": si}, loss_details={"peril": "wind", "zone": "A"})))
    out.append(Triangle(cells))
    for i in range(n):
        try:
            t, _ = g.triangle(n_slices=1 + i % 3, basis="inc" if i % 3 == 2 else "cum", values=["int", "float", "arr_float", "arr_int"][i % 4],
                              n_periods=2 + i % 3, n_lags=2 + (i + 1) % 3)
            out.append(t)
        except Exception:  # noqa: BLE001
            continue
    return out


def replay(data):
    from bermuda import Triangle

    from harness.coqterm import cell_from_obj

    t = Triangle([cell_from_obj(o) for o in data["triangle"]])
    f = dict(_ops(data["pid"]))[data["operation"]]
    v = derive(t, data["how"])

    def run(x):
        try:
            with warnings.catch_warnings():
                warnings.simplefilter("ignore")
                return "ok", by_value(f(x))
        except Exception as ex:  # noqa: BLE001
            return "err", type(ex).__name__
    r0, r1 = run(t), run(v)
    print(f"{data['operation']} on the triangle and on its `{data['how']}` variant:", "same" if r0 == r1 else "DIFFERENT")
    if r0 != r1:
        print(" original:", repr(r0)[:500])
        print(" derived: ", repr(r1)[:500])
    return 0 if r0 == r1 else 1
