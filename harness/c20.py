"""C20 -- plot data is faithful: one record per cell, correct metrics and labels.

1. T-plot regenerates the description (FieldSummary field order, quantiles() literal, from_metric
   argument order, metric lambdas, row iterator, coordinate keys) from /repo; GenProps/C20_labels.v,
   C20_metrics.v, C20_rows.v discharge labels_ok / metric table / rows obligations on it and instantiate
   the static theorems (Props/C20.v re-checked).
2. Correspondence inside coqc: the model's records (exact Q arithmetic, generated description) vs the
   records of the real build_plot_data on generated triangles: order, coordinates, lag, which
   summaries exist, mean / median / min / max / every quantile field (1e-9).
3. Direct oracle on every case, no model: record <-> cell, each metric recomputed from the cell's own
   fields (ATA from the next cell of the same slice and period found independently), np.quantile at the
   probability written in each q-field name, monotonicity, sd vs np.std.
4. Monitor only (Altair behaviour is not decided): a few plot_*().to_dict() calls, charts per slice.
"""
from __future__ import annotations

import datetime
import json
import math
import random
import re
import shutil
import time
import warnings
from fractions import Fraction

import numpy as np

from pathlib import Path

from harness.common import COQ, REPO, ROOT, parse_coq_eval
from harness.coqterm import NotRepresentable, cstr

D = datetime.date
LOSS = ["paid_loss", "reported_loss", "incurred_loss"]
FIELDS = LOSS + ["earned_premium", "reported_claims"]
STAT_FIELDS = ["mean", "median", "min", "max"]
FIXED_KEYS = {"period_start", "period_end", "evaluation_date", "dev_lag", "last_lag", "last_observed_lag", "fields",
              "experience_resolution", "evaluation_resolution", "tooltip"}


# ------------------------------------------------------------------------------ printers
def cq(x) -> str:
    if isinstance(x, (bool, np.bool_)):
        raise NotRepresentable("bool")
    if isinstance(x, (int, np.integer)):
        f = Fraction(int(x))
    else:
        x = float(x)
        if not math.isfinite(x):
            raise NotRepresentable(f"non-finite {x}")
        f = Fraction(x)
    n = f"({f.numerator})" if f.numerator < 0 else str(f.numerator)
    return f"({n} # {f.denominator})"


def cpval(v) -> str:
    if v is None:
        return "PNoneV"
    if isinstance(v, np.ndarray):
        return "(PArr [" + ";".join(cq(x) for x in v.tolist()) + "])"
    return f"(PNum {cq(v)})"


def cpcell(c, sid) -> str:
    vals = "[" + ";".join(f"({cstr(k)},{cpval(v)})" for k, v in c.values.items()) + "]"
    return (f"(mkPCell {sid} {c.period_start.toordinal()} {c.period_end.toordinal()} "
            f"{c.evaluation_date.toordinal()} {cq(c.dev_lag())} {vals})")


def is_summary(v):
    return isinstance(v, dict) and "snake_case_field" in v


def stat_names(summary: dict):
    return [k for k in summary if k in STAT_FIELDS or re.fullmatch(r"q\d+(_\d+)?", k)]


def crecord(r) -> str:
    sums = []
    for k, v in r.items():
        if k in FIXED_KEYS or not is_summary(v):
            continue
        stats = [(s, v[s]) for s in stat_names(v) if v[s] is not None]
        sums.append(f"({cstr(k)},[" + ";".join(f"({cstr(s)},{cq(x)})" for s, x in stats) + "])")
    return (f"(mkRec {r['period_start'].date().toordinal()} {r['period_end'].date().toordinal()} "
            f"{r['evaluation_date'].date().toordinal()} {cq(r['dev_lag'])} [" + ";".join(sums) + "])")


# ------------------------------------------------------------------------------ replay format
def tri_spec(t):
    from harness.c07 import tri_spec as ts

    return ts(t)


def spec_tri(spec):
    from harness.c07 import spec_tri as st

    return st(spec)


# ------------------------------------------------------------------------------ generation
def shape_values(vals, rng, all_scalar):
    """Denominators stay usable, but PRESENT fields are regularly exactly zero: earned_premium is never zero
    (so ratios are 0, not undefined); paid/reported loss (denominators of the age-to-age metrics) may be a
    scalar 0 / 0.0 only in all-scalar triangles (0 denominator -> ZeroDivisionError -> no summary, which the
    model follows; array / 0 would be NumPy inf, outside the model); incurred_loss and reported_claims (never
    denominators) may be scalar zero, all-zero sample arrays or arrays containing zeros."""
    out = {}
    for k, v in vals.items():
        arr = isinstance(v, np.ndarray)
        if k == "earned_premium" or (k in ("paid_loss", "reported_loss") and (arr or not all_scalar)):
            if arr:
                v = v.copy()
                v[v == 0] = 1
            elif v == 0:
                v = 1 if isinstance(v, int) else 1.0
        if v is not None:
            r = rng.random()
            if k in ("incurred_loss", "reported_claims"):
                if arr and r < 0.15:
                    v = np.zeros_like(v)
                elif arr and r < 0.3:
                    v = v.copy()
                    v[rng.randrange(len(v))] = 0
                elif not arr and r < 0.25:
                    v = 0 if isinstance(v, int) else 0.0
            elif k in ("paid_loss", "reported_loss") and all_scalar and not arr and r < 0.2:
                v = 0 if isinstance(v, int) else 0.0
        out[k] = v
    return out


def gen_cases(ctx, n):
    """triangles with the standard loss / premium fields, scalar and sample valued, 1-3 slices, regular
    and ragged (plus holey), some cells lacking a field or holding None"""
    from bermuda import Triangle
    from harness.gen import Gen, describe

    rng = random.Random(ctx.seed * 6007 + 20)
    g = Gen(rng)
    out = []
    while len(out) < n:
        layout = rng.choice(["regular", "regular", "ragged", "ragged", "holey"])
        values = rng.choice(["int", "float", "arr_float", "arr_int", "mixed", "mixed"])
        fields = rng.sample(FIELDS, rng.randint(2, 5))
        if rng.random() < 0.8 and "earned_premium" not in fields:
            fields.append("earned_premium")
        cells, info = g.cells(layout=layout, basis="cum", n_slices=rng.choice([1, 1, 2, 3]), values=values, fields=fields,
                              n_periods=rng.randint(1, 3), n_lags=rng.randint(1, 4), same_fields=rng.random() < 0.7,
                              n_samples=rng.choice([2, 3, 5, 8]))
        new = []
        all_scalar = not any(isinstance(v, np.ndarray) for c in cells for v in c.values.values())
        for c in cells:
            vals = shape_values(c.values, rng, all_scalar)
            if rng.random() < 0.05 and vals:
                vals[rng.choice(list(vals))] = None
            new.append(c.replace(values=vals))
        rng.shuffle(new)
        with warnings.catch_warnings():
            warnings.simplefilter("ignore")
            t = Triangle(new)
        out.append((t, info, describe(info)))
    return out


def battery():
    from bermuda import CumulativeCell, Metadata, Triangle

    def cell(y, lag, vals, m=None):
        pe = D(y, 12, 31)
        ev = D(y + lag, 12, 31)
        return CumulativeCell(period_start=D(y, 1, 1), period_end=pe, evaluation_date=ev, values=vals, metadata=m)

    out = []
    # F6: a sample array on which wrongly labelled quantiles are not monotone
    xs = np.arange(10.0)
    out.append((Triangle([cell(2020, 0, {"paid_loss": xs, "earned_premium": 100.0})]), {"battery": "samples-0..9"}, "battery/samples"))
    # F17: two slices, same periods: the last cell of slice A's row must have no age-to-age summary
    a, b = Metadata(country="US"), Metadata(country="DE")
    cs = []
    for m, k in ((a, 1), (b, 7)):
        for lag in (0, 1):
            cs.append(cell(2020, lag, {"paid_loss": 100 * k * (lag + 1), "reported_loss": 150 * k * (lag + 2), "earned_premium": 1000}, m))
    out.append((Triangle(cs), {"battery": "two-slices-same-period"}, "battery/two-slices"))
    # present-but-zero inputs (seeded mutant C20-m2): paid_loss 0 / 0.0 at the first lag with a non-zero premium
    # gives a 0 loss and a 0 loss ratio -- both must be summarised; all-zero and zero-containing sample arrays
    out.append((Triangle([cell(2020, 0, {"paid_loss": 0, "reported_loss": 0.0, "earned_premium": 1000}),
                          cell(2020, 1, {"paid_loss": 50, "reported_loss": 80.0, "earned_premium": 1000}),
                          cell(2021, 0, {"incurred_loss": np.zeros(3), "reported_claims": np.array([0, 3, 0], dtype=np.int64),
                                         "earned_premium": 500.0})]),
                {"battery": "present-zero"}, "battery/zeros"))
    # absent and None inputs, scalar/sample mixes
    out.append((Triangle([cell(2020, 0, {"paid_loss": 10}), cell(2020, 1, {"paid_loss": None, "earned_premium": 5}),
                          cell(2021, 0, {"reported_loss": np.array([1.0, 2.0, 4.0]), "earned_premium": np.array([2.0, 4.0, 8.0])})]),
                {"battery": "absent-none"}, "battery/absent"))
    return out


# ------------------------------------------------------------------------------ inputs produced by other operations
DERIVATIONS = ("from_binary", "from_binary_compressed", "from_dict", "read_only_arrays", "to_incremental_to_cumulative")


def derive_input(t, how):
    """the 'same' triangle as another public operation hands it out (round 8, composition): arrays read back from a
    .trib file are READ-ONLY views of the file buffer, JSON rebuilds every array, a basis round trip re-adds the values"""
    import tempfile

    from bermuda import Triangle

    if how.startswith("from_binary"):
        with tempfile.TemporaryDirectory(dir=str(ROOT / "build")) as d:
            comp = how.endswith("compressed")
            p = str(Path(d) / ("t.tribc" if comp else "t.trib"))
            t.to_binary(p, compress=comp)
            return Triangle.from_binary(p)
    if how == "from_dict":
        return Triangle.from_dict(t.to_dict())
    if how == "read_only_arrays":
        cells = []
        for c in t.cells:
            vals = {}
            for k, v in c.values.items():
                if isinstance(v, np.ndarray):
                    v = v.copy()
                    v.setflags(write=False)
                vals[k] = v
            cells.append(c.replace(values=vals))
        return Triangle(cells)
    if how == "to_incremental_to_cumulative":
        return t.to_incremental().to_cumulative() if not t.is_incremental else t.to_cumulative().to_incremental()
    raise ValueError(how)


def fresh_oracle(t):
    """oracle on a triangle whose ==-equal twin may have been plotted before: build_plot_data memoises on equality"""
    import bermuda.plot as bp

    f = bp.build_plot_data
    for _ in range(4):                       # @freezeargs(@cache(f)): the cache object sits one __wrapped__ below
        if hasattr(f, "cache_clear"):
            f.cache_clear()
        f = getattr(f, "__wrapped__", None)
        if f is None:
            break
    return oracle(t)



# ------------------------------------------------------------------------------ implementation
def run_impl(t):
    from bermuda.plot import build_plot_data

    with warnings.catch_warnings():
        warnings.simplefilter("ignore")
        return build_plot_data(t)


def label_prob(name):
    m = re.fullmatch(r"q(\d+)(?:_(\d+))?", name)
    if not m:
        return None
    return float(m.group(1) + ("." + m.group(2) if m.group(2) else "")) / 100.0


def close(a, b, tol=1e-9):
    a, b = float(a), float(b)
    return a == b or abs(a - b) <= tol * (1 + abs(b))


def expected_metrics(t, c):
    """independent recomputation of every built-in metric for cell c (None = no summary)"""
    nxt = [x for x in t.cells if x.metadata == c.metadata and x.period == c.period and x.evaluation_date > c.evaluation_date]
    nxt = min(nxt, key=lambda x: x.evaluation_date) if nxt else None

    def val(cell, f):
        if cell is None or f not in cell.values or cell.values[f] is None:
            return None
        return cell.values[f]

    def div(a, b):
        if a is None or b is None:
            return None
        if isinstance(a, np.ndarray) or isinstance(b, np.ndarray):
            with np.errstate(all="ignore"):            # NumPy: x / 0 is inf / nan, not an exception
                return np.asarray(a, dtype=float) / np.asarray(b, dtype=float)
        if b == 0:
            return None                                 # ZeroDivisionError -> no summary
        return a / b

    out = {}
    for loss, title in (("paid_loss", "paid"), ("reported_loss", "reported"), ("incurred_loss", "incurred")):
        lv, ep = val(c, loss), val(c, "earned_premium")
        out[f"{title}_loss_ratio"] = None if lv is None else div(100 * lv, ep)
        out[f"{title}_loss"] = lv
    out["earned_premium"] = val(c, "earned_premium")
    out["reported_claims"] = val(c, "reported_claims")
    for loss, title in (("paid_loss", "paid"), ("reported_loss", "reported")):
        r = div(val(nxt, loss), val(c, loss))
        out[f"{title}_ata"] = r
        out[f"{title}_incremental_ata"] = None if r is None else r - 1
    return out


def is_month_end(d):
    return (d + datetime.timedelta(days=1)).day == 1


def month_lag(c):
    """months from period_end to evaluation_date for month-aligned cells (None otherwise), computed from the
    calendar only"""
    if is_month_end(c.period_end) and is_month_end(c.evaluation_date):
        return 12 * (c.evaluation_date.year - c.period_end.year) + (c.evaluation_date.month - c.period_end.month)
    return None


def calendar_cases(rng, n):
    """monthly / quarterly triangles whose period ends and evaluation dates run through February of century years
    (2000: leap, 2100: not), ordinary leap years and non-leap years"""
    import calendar

    from bermuda import CumulativeCell, Triangle

    def me(y, m):
        return D(y, m, calendar.monthrange(y, m)[1])

    out = []
    starts = [(1999, 11), (1999, 12), (2000, 1), (2000, 2), (2099, 12), (2100, 1), (2100, 2), (2023, 12), (2024, 1),
              (2024, 2), (2019, 12), (2020, 2), (2022, 12), (2023, 2), (2003, 12), (2004, 2), (1996, 1),
              (1899, 12), (1900, 1), (1968, 11), (1969, 12), (2249, 10), (2023, 3), (2023, 8)]
    for i in range(n):
        y0, m0 = starts[i % len(starts)]
        res = rng.choice([1, 1, 1, 3])
        cells = []
        for p in range(rng.randint(1, 3)):
            k = (y0 * 12 + m0 - 1) + p * res
            ys, ms = k // 12, k % 12 + 1
            ke = k + res - 1
            pe = me(ke // 12, ke % 12 + 1)
            for lag in range(rng.randint(2, 5)):
                kv = ke + lag
                cells.append(CumulativeCell(period_start=D(ys, ms, 1), period_end=pe, evaluation_date=me(kv // 12, kv % 12 + 1),
                                            values={"paid_loss": 10.0 * (lag + 1) + p, "earned_premium": 100 + p}))
        out.append((Triangle(cells), {"calendar": f"{y0}-{m0:02d}", "values": "float"}, f"calendar/{y0}-{m0:02d}/res{res}"))
    return out


def short(arr):
    """small samples verbatim; big ones by size and head (the replay regenerates them from generator parameters)"""
    return arr.tolist() if arr.size <= 64 else {"size": int(arr.size), "head": arr[:6].tolist()}


def oracle(t, records=None):
    """Judge the records of build_plot_data(t) directly.  Returns None or a failure dict."""
    try:
        recs = run_impl(t) if records is None else records
    except Exception as ex:  # noqa: BLE001
        return {"stage": "build_plot_data raised", "raised": f"{type(ex).__name__}: {ex}"[:300]}
    if len(recs) != len(t):
        return {"stage": "one record per cell", "detail": f"{len(recs)} records for {len(t)} cells"}
    for i, (c, r) in enumerate(zip(t.cells, recs)):
        got = (r["period_start"].date(), r["period_end"].date(), r["evaluation_date"].date(), r["dev_lag"])
        want = (c.period_start, c.period_end, c.evaluation_date, c.dev_lag())
        if got != want:
            return {"stage": "record i carries cell i's coordinates and lag (cell order)", "index": i,
                    "got": str(got), "want": str(want)}
        # independent of bermuda.date_utils: for month-aligned cells the lag is the month-index difference
        ml = month_lag(c)
        if ml is not None:
            if r["dev_lag"] != ml:
                return {"stage": "dev_lag of a month-aligned cell is not the number of months between period end and "
                                 "evaluation date", "index": i, "got": r["dev_lag"], "want": ml,
                        "period_end": str(c.period_end), "evaluation_date": str(c.evaluation_date)}
            row = [month_lag(x) for x in t.cells if x.period == c.period]
            if all(x is not None for x in row) and r["last_lag"] != max(row):
                return {"stage": "last_lag is not the largest month lag of the period", "index": i,
                        "got": r["last_lag"], "want": max(row), "period": str(c.period)}
        exp = expected_metrics(t, c)
        have = {k: v for k, v in r.items() if k not in FIXED_KEYS and is_summary(v)}
        for name, e in exp.items():
            if e is None or (isinstance(e, np.ndarray) and e.size == 0):
                # direction 1: an input is missing / None / the scalar division is undefined -> no summary
                if name in have:
                    return {"stage": "absent input must give no summary", "index": i, "metric": name,
                            "got": {k: repr(v) for k, v in have[name].items() if k in ("mean",)}}
                continue
            arr = np.atleast_1d(np.asarray(e, dtype=float))
            if not np.all(np.isfinite(arr)):
                continue                                # NumPy inf / nan: outside the property's domain
            # direction 2: every input present (zero included) -> the summary and its tooltip entry exist
            if name not in have:
                return {"stage": "present inputs must give a summary (value " + repr(float(np.mean(arr))) + ")",
                        "index": i, "metric": name, "cell_values": {k: repr(v) for k, v in c.values.items()}}
            s = have[name]
            if name in c.values and s.get("tooltip", "") not in r["tooltip"]:
                return {"stage": "tooltip entry of a present field missing", "index": i, "metric": name,
                        "tooltip": r["tooltip"]}
            if not close(s["mean"], np.mean(arr)):
                return {"stage": "metric value (mean) differs from the cell's own values", "index": i, "metric": name,
                        "got": float(s["mean"]), "want": float(np.mean(arr))}
            if arr.size >= 2:
                checks = [("median", np.median(arr)), ("min", np.min(arr)), ("max", np.max(arr)), ("sd", np.std(arr))]
                for k, w in checks:
                    if s.get(k) is None or not close(s[k], w):
                        return {"stage": f"summary field {k} is not the statistic its name states", "index": i,
                                "metric": name, "got": None if s.get(k) is None else float(s[k]), "want": float(w),
                                "sample": short(arr)}
                qs = []
                for k in s:
                    p = label_prob(k)
                    if p is None:
                        continue
                    w = np.quantile(arr, p)
                    if s[k] is None or not close(s[k], w):
                        return {"stage": f"summary field {k} is not the {100 * p:g}th percentile", "index": i,
                                "metric": name, "got": None if s[k] is None else float(s[k]), "want": float(w),
                                "sample": short(arr),
                                "all_quantile_fields": {q: (None if s[q] is None else float(s[q])) for q in s if label_prob(q) is not None},
                                "monotone": all(a <= b for a, b in zip(*[[float(s[q]) for q in s if label_prob(q) is not None and s[q] is not None][i:] for i in (0, 1)]))}
                    qs.append((p, float(s[k]), k))
                if len(qs) != 9:
                    return {"stage": "nine quantile fields expected", "index": i, "metric": name, "got": [k for _, _, k in qs]}
                qs.sort()
                for (p1, v1, k1), (p2, v2, k2) in zip(qs, qs[1:]):
                    if v1 > v2 + 1e-12 * (1 + abs(v2)):
                        return {"stage": "quantile summaries not monotone", "index": i, "metric": name,
                                "detail": f"{k1}={v1} > {k2}={v2}", "sample": short(arr)}
                if not (s["min"] <= qs[0][1] + 1e-12 and qs[-1][1] <= s["max"] + 1e-12):
                    return {"stage": "quantiles outside [min, max]", "index": i, "metric": name}
            else:
                for k in ("median", "sd", "min", "max", "q2_5", "q50", "q97_5"):
                    if s.get(k) is not None:
                        return {"stage": "scalar metric must have no sample statistics", "index": i, "metric": name, "field": k}
        extra = set(have) - set(exp)
        if extra:
            return {"stage": "unexpected summaries", "index": i, "got": sorted(extra)}
    return None


# ------------------------------------------------------------------------------ Coq correspondence
HEADER = """From Coq Require Import ZArith QArith List Bool.
From Bermuda Require Import Model.Base Model.Plot.
From Gen Require Import GenPlot.
Import ListNotations.
Local Open Scope Z_scope.
Definition d := {desc}.
"""


def correspondence(ctx, cases, desc_name):
    files, meta, per = [], [], 12
    chunks = [cases[i:i + per] for i in range(0, len(cases), per)]
    for fi, chunk in enumerate(chunks):
        L = [HEADER.format(desc=desc_name)]
        idx = []
        for ci, (t, info, desc) in enumerate(chunk):
            try:
                recs = run_impl(t)
                metas = list(t.slices.keys())
                cells = "[" + ";\n  ".join(cpcell(c, metas.index(c.metadata)) for c in t.cells) + "]"
                rtxt = "[" + ";\n  ".join(crecord(r) for r in recs) + "]"
            except NotRepresentable:
                ctx.hist("corr:skipped-not-representable")
                continue
            except Exception as ex:  # noqa: BLE001  (reported by the oracle)
                ctx.hist(f"corr:impl-raised-{type(ex).__name__}")
                continue
            L.append(f"Definition t{ci} : list pcell := {cells}.\nDefinition r{ci} : list precord := {rtxt}.\n")
            idx.append(ci)
        L.append("Eval vm_compute in failing [" + "; ".join(f"records_close (build_plot_data d t{ci}) r{ci}" for ci in idx) + "].\n")
        f = ctx.build / f"cases_{fi}.v"
        f.write_text("\n".join(L))
        files.append(f)
        meta.append((chunk, idx))
    res = ctx.coqc_many(files, jobs=16, timeout=900)
    mism, n = [], 0
    for f, (chunk, idx) in zip(files, meta):
        rc, out = res[f]
        if rc != 0:
            mism.append({"file": f.name, "coqc": out[-800:]})
            continue
        vals = parse_coq_eval(out)
        if not vals:
            mism.append({"file": f.name, "no-output": out[-300:]})
            continue
        n += len(idx)
        bad = [int(x) for x in vals[-1].strip("[]").replace("%nat", "").split(";") if x.strip()]
        for b in bad:
            t, info, desc = chunk[idx[b]]
            mism.append({"case": desc, "triangle": tri_spec(t)})
    return mism, n


# ------------------------------------------------------------------------------ Altair monitor
N_SAMPLES = 6
UNSUPPORTED_AT_BASELINE = set()   # plot_drip / plot_hose were repaired in /repo (fix F25) and are required like the rest


TITLE_KINDS = ["risk_basis", "country", "currency", "reinsurance_basis", "loss_definition", "per_occurrence_limit",
               "details", "loss_details", "reins-shared-lossdef-differs", "lossdef-shared-reins-differs", "several",
               "others-none"]


def title_metas(kind, n_slices):
    """slices that differ in exactly ONE attribute (or a named combination) while sharing non-None values of the others"""
    from bermuda import Metadata

    shared = dict(risk_basis="Policy", country="US", currency="USD", reinsurance_basis="Net", loss_definition="Loss",
                  per_occurrence_limit=1000, details={"lob": "auto"}, loss_details={"cov": "x"})
    var = {"risk_basis": ["Accident", "Policy", "Underwriting"], "country": ["US", "DE", "FR"], "currency": ["USD", "EUR", "GBP"],
           "reinsurance_basis": ["Gross", "Net", "Ceded"], "loss_definition": ["Loss", "Loss+DCC", "Loss+LAE"],
           "per_occurrence_limit": [1000, 250000.0, 5], "details": [{"lob": "auto"}, {"lob": "home"}, {"lob": "auto", "state": "NY"}],
           "loss_details": [{"cov": "x"}, {"cov": "y"}, {"peril": "wind"}]}
    out = []
    for i in range(n_slices):
        kw = dict(shared)
        if kind in var:
            kw[kind] = var[kind][i]
        elif kind == "reins-shared-lossdef-differs":
            kw = dict(reinsurance_basis="Net", loss_definition=var["loss_definition"][i], country="US")
        elif kind == "lossdef-shared-reins-differs":
            kw = dict(loss_definition="Loss", reinsurance_basis=var["reinsurance_basis"][i])
        elif kind == "several":
            kw.update(country=var["country"][i], loss_definition=var["loss_definition"][i % 2], details={"lob": "auto", "n": i},
                      per_occurrence_limit=None if i == 1 else 1000)
        elif kind == "others-none":
            kw = dict(risk_basis=None, loss_definition=var["loss_definition"][i])
        out.append(Metadata(**kw))
    return out


def expected_label(m, metas):
    """the facet label computed independently: exactly the attributes / detail keys whose value is NOT shared by all
    slices (and is not None), in the documented layout  'Key: v, ...; country reins lossdef (limit x, r Basis, in cur)'"""
    import string

    def differs(get):
        vals = [get(x) for x in metas]
        return any(v != vals[0] for v in vals[1:])

    custom = {}
    for attr in ("details", "loss_details"):
        for k, v in getattr(m, attr).items():
            if not all(k in getattr(x, attr) and getattr(x, attr)[k] == v for x in metas):
                custom[k] = v
    custom_label = ", ".join(f"{string.capwords(k)}: {v}" for k, v in custom.items())
    bare = [getattr(m, a) for a in ("country", "reinsurance_basis", "loss_definition")
            if getattr(m, a) is not None and differs(lambda x, a=a: getattr(x, a))]
    dec = []
    if m.per_occurrence_limit is not None and differs(lambda x: x.per_occurrence_limit):
        dec.append(f"limit {m.per_occurrence_limit}")
    if m.risk_basis is not None and differs(lambda x: x.risk_basis):
        dec.append(f"{m.risk_basis} Basis")
    if m.currency is not None and differs(lambda x: x.currency):
        dec.append(f"in {m.currency}")
    parts = [p_ for p_ in ("; ".join(x for x in (custom_label, " ".join(bare)) if x), "(" + ", ".join(dec) + ")" if dec else "") if p_]
    return " ".join(parts)


def chart_titles(spec):
    """per chart of the concatenation: the set of slice-title texts (title objects anchored in the middle)"""
    def find(x, out):
        if isinstance(x, dict):
            for k, v in x.items():
                if k == "title" and isinstance(v, dict) and "text" in v and v.get("anchor") == "middle":
                    out.add(v["text"])
                else:
                    find(v, out)
        elif isinstance(x, list):
            for y in x:
                find(y, out)
        return out

    for key in ("concat", "hconcat", "vconcat"):
        if key in spec:
            return [find(e, set()) for e in spec[key]]
    return [find(spec, set())]


def expected_titles(t, name, kw):
    import inspect

    import bermuda.plot as bp

    metas = [m for m, _ in slice_reps(t)]
    ns = len(metas)
    labels = kw["facet_titles"] if kw.get("facet_titles") else [expected_label(m, metas) for m in metas]
    sig = inspect.signature(getattr(bp, name)).parameters
    if "metric_spec" not in sig:
        return [{lab} for lab in labels]
    ms = kw.get("metric_spec", sig["metric_spec"].default)
    ms = [ms] if isinstance(ms, str) else list(ms)
    if kw.get("facet_titles"):
        return [{lab} for lab in labels for _ in ms]
    return [{(lab + ": ") * (ns > 1) + m_} for lab in labels for m_ in ms]


def slice_reps(t):
    """==-distinct metadata in triangle (sorted) order, independent of Triangle.slices"""
    out = []
    for c in t.cells:
        if not any(m == c.metadata for m, _ in out):
            out.append((c.metadata, None))
    return out


def plot_triangle(n_slices, mixed, n_samples=N_SAMPLES, n=3, title_kind=None):
    """mixed: observed upper-left cells (scalars) + predicted lower-right cells (samples), the usual shape of a
    prediction triangle; otherwise every cell sample valued (upper-left only)"""
    from bermuda import Cell, Metadata, Triangle

    rng = np.random.default_rng(7)
    cells = []
    tm = title_metas(title_kind, n_slices) if title_kind else None
    for s_ in range(n_slices):
        meta = tm[s_] if tm else Metadata(details={"id": s_ + 1})
        for i in range(n):
            y = 2015 + i
            for j in range(n if mixed else n - i):
                base = 1000.0 * (j + 1) * (1 + 0.1 * s_)
                obs = mixed and (i + j) < n

                def f(m, sd):
                    return float(m) if obs else rng.normal(m, sd, n_samples)

                cells.append(Cell(period_start=D(y, 1, 1), period_end=D(y, 12, 31), evaluation_date=D(y + j, 12, 31),
                                  values={"paid_loss": f(base, 50.0), "reported_loss": f(1.2 * base, 50.0),
                                          "earned_premium": 10000.0, "reported_claims": f(100 * (j + 1), 3.0),
                                          "open_claims": f(50 / (j + 1), 2.0)}, metadata=meta))
    return Triangle(cells)


def plot_options(n_slices):
    """every plot method with its default and with each non-default keyword option, boundary values included
    (n_lines = num_samples, num_samples - 1, 1)"""
    N = N_SAMPLES
    two = ["Paid Loss Ratio", "Reported Loss Ratio"]
    titles = [f"s{i}" for i in range(n_slices)]
    return {
        "plot_right_edge": [{}, {"uncertainty_type": "segments"}, {"uncertainty": False}, {"hide_samples": True},
                            {"ncols": 1}, {"facet_titles": titles}],
        "plot_data_completeness": [{}, {"hide_samples": True}, {"ncols": 1}],
        "plot_heatmap": [{}, {"show_values": False}, {"hide_samples": True}, {"metric_spec": two}, {"metric_spec": "Paid Loss"}],
        "plot_atas": [{}, {"metric_spec": ["Paid ATA", "Reported ATA"]}, {"hide_samples": True}],
        "plot_growth_curve": [{}, {"uncertainty_type": "ribbon"}, {"uncertainty_type": "segments"},
                              {"uncertainty_type": "spaghetti", "n_lines": N}, {"uncertainty_type": "spaghetti", "n_lines": N - 1},
                              {"uncertainty_type": "spaghetti", "n_lines": 1}, {"uncertainty_type": "spaghetti", "n_lines": N, "seed": 3},
                              {"uncertainty": False}, {"hide_samples": True}, {"metric_spec": two}],
        "plot_sunset": [{}, {"uncertainty_type": "segments"}, {"uncertainty": False}, {"hide_samples": True}],
        "plot_mountain": [{}, {"uncertainty_type": "segments"}, {"uncertainty": False}, {"hide_samples": True},
                          {"highlight_ultimates": False}],
        "plot_ballistic": [{}, {"uncertainty": False}, {"hide_samples": True}, {"show_points": False}],
        "plot_broom": [{}, {"rule": None}, {"uncertainty": False}, {"hide_samples": True}, {"show_points": False}],
        "plot_histogram": [{}, {"right_edge": False}, {"metric_spec": ["Paid Loss", "Reported Loss"]}, {"hide_samples": True}],
        "plot_drip": [{}, {"uncertainty": False}, {"hide_samples": True}, {"show_points": False}],
        "plot_hose": [{}, {"uncertainty": False}, {"hide_samples": True}, {"show_points": False}],
    }


def n_charts(spec):
    for key in ("concat", "hconcat", "vconcat"):
        if key in spec:
            return len(spec[key])
    return 1


def plot_call(t, name, kw):
    """Returns None or a failure description: the chart must serialise to a schema-valid Vega-Lite spec with one
    chart per slice (and per metric)."""
    import bermuda.plot as bp

    try:
        with warnings.catch_warnings():
            warnings.simplefilter("ignore")
            spec = getattr(bp, name)(t, **kw).to_dict(validate=True)
    except Exception as ex:  # noqa: BLE001
        return {"raised": f"{type(ex).__name__}: {ex}"[:300]}
    ms = kw.get("metric_spec")
    want = len(t.slices) * (len(ms) if isinstance(ms, list) else 1)
    if "vega-lite" not in spec.get("$schema", ""):
        return {"detail": "not a Vega-Lite specification", "schema": spec.get("$schema")}
    if n_charts(spec) != want:
        return {"detail": f"{n_charts(spec)} charts for {len(t.slices)} slice(s) x {want // len(t.slices)} metric(s)"}
    got, exp = chart_titles(spec), expected_titles(t, name, kw)
    if want == 1 and got == [set()]:
        got = exp          # a single chart is not a concatenation: its title slot holds the figure's main title
    if got != exp:
        return {"detail": "facet titles do not say what distinguishes the slices (each differing attribute / detail, and "
                          "only those)", "got": [sorted(x) for x in got], "want": [sorted(x) for x in exp],
                "slice_metadata": [repr(m) for m, _ in slice_reps(t)]}
    return None


def _plot_job(job):
    ns, mixed, name, kw, tk = job
    return plot_call(plot_triangle(ns, mixed, title_kind=tk), name, kw)


def vega_monitor(ctx):
    """NOT a decision procedure (Altair / Vega-Lite are outside the model): every plot function is called with its
    default and with each non-default keyword option at boundary values on 1-3-slice triangles; each call must
    return a chart that validates against the Vega-Lite schema with one chart per slice and metric."""
    plan = []
    pure_ok = {"plot_right_edge", "plot_data_completeness", "plot_heatmap", "plot_atas", "plot_growth_curve",
               "plot_ballistic", "plot_broom", "plot_histogram"}
    for ns in (1, 2, 3):
        for mixed in (True, False):
            t = plot_triangle(ns, mixed)
            for name, opts in plot_options(ns).items():
                for kw in opts:
                    full = (ns == 2 and mixed) or not ctx.quick
                    boundary = name == "plot_growth_curve" and ("n_lines" in kw or kw.get("uncertainty_type") in ("ribbon", "segments"))
                    if not (full or boundary or (mixed and kw == {})):
                        continue
                    if not mixed and (name not in pure_ok or kw.get("hide_samples")):
                        continue      # all-sample triangles: hide_samples leaves nothing to plot
                    plan.append((ns, mixed, t, name, kw, None))
    if ctx.quick:      # the thorough battery contains it anyway
        t1 = plot_triangle(1, True)
        plan.append((1, True, t1, "plot_sunset", {"uncertainty": False}, None))
        plan.append((1, True, t1, "plot_sunset", {"uncertainty": False, "metric_spec": ["Paid Incremental ATA", "Reported Incremental ATA"]}, None))
    # facet titles: slices differing in each single attribute (sharing non-None values of the others) and combinations
    names = list(plot_options(2))
    for i, tk in enumerate(TITLE_KINDS):
        ns = 3 if i % 2 else 2
        t = plot_triangle(ns, True, title_kind=tk)
        rot = names if not ctx.quick else [names[(2 * i + j) % len(names)] for j in range(2)]
        if tk in ("reins-shared-lossdef-differs", "lossdef-shared-reins-differs") and ctx.quick:
            rot = ["plot_data_completeness", "plot_heatmap", "plot_ballistic", "plot_right_edge", "plot_histogram"]
        for name in rot:
            plan.append((ns, True, t, name, {}, tk))
    res, unsupported = {}, {}
    from concurrent.futures import ProcessPoolExecutor

    with ProcessPoolExecutor(max_workers=8) as ex:        # independent, CPU-bound Altair calls
        results = list(ex.map(_plot_job, [(ns, mixed, name, kw, tk) for ns, mixed, _, name, kw, tk in plan], chunksize=4))
    for (ns, mixed, t, name, kw, tk), r in zip(plan, results):
        key = f"{name}({json.dumps(kw, sort_keys=True)})/{ns}-slice/{'mixed' if mixed else 'samples'}" + (f"/titles:{tk}" if tk else "")
        ctx.count(evaluations=1)
        if name in UNSUPPORTED_AT_BASELINE:
            unsupported[key] = "ok" if r is None else r
            ctx.hist("monitor:unsupported-at-baseline-" + ("ok" if r is None else "raises"))
            continue
        res[key] = "ok" if r is None else r
        ctx.hist("monitor:" + ("ok" if r is None else "FAIL"))
        if r is not None:
            fc = None
            ms_ = kw.get("metric_spec")
            if (name == "plot_sunset" and kw.get("uncertainty") is False and ns * (len(ms_) if isinstance(ms_, list) else 1) == 1
                    and "interactive()" in str(r.get("raised", ""))):
                # the figure is a single chart (1 slice x 1 metric): the empty LayerChart placeholder used for
                # uncertainty=False cannot be made interactive
                fc = {"kind": "plot_sunset_no_uncertainty_single_chart"}
            ctx.violation("impl-violation",
                          f"{name}(**{kw}) on a {ns}-slice {'observed+predicted' if mixed else 'all-sample'} triangle "
                          f"({N_SAMPLES} samples) does not give a valid Vega-Lite spec with one rightly titled chart per slice: {json.dumps(r, default=str)[:600]}",
                          {"plot_call": {"method": name, "kwargs": kw, "n_slices": ns, "mixed": mixed,
                                         "n_samples": N_SAMPLES, "title_kind": tk}, "triangle": tri_spec(t), "failure": r},
                          found_input=True, finding_class=fc)
    ctx.extra["vega_lite_monitor"] = {"calls": len(res), "failed": {k: v for k, v in res.items() if v != "ok"},
                                      "unsupported_at_baseline": unsupported}
    ctx.log(f"Vega-Lite monitor: {len(res)} plot calls, {sum(1 for v in res.values() if v != 'ok')} failing; "
            f"{len(unsupported)} baseline-unsupported probes")


def hardening_cases():
    """directed streams for the input families of notes/HARDENING.md (A, B, D, F, G, I, J; C = calendar_cases,
    E = zeros in the generator, H / K / L = hardening_checks and the plot battery)"""
    import pandas as pd

    from bermuda import Cell, CumulativeCell, Metadata, Triangle

    def yr(y, lag, vals, m=None, cls=CumulativeCell):
        return cls(period_start=D(y, 1, 1), period_end=D(y, 12, 31), evaluation_date=D(y + lag, 12, 31), values=vals, metadata=m)

    def std(k, lag):
        return {"paid_loss": 100.0 * k * (lag + 1), "reported_loss": 150 * k * (lag + 2), "earned_premium": 1000 + k}

    out = []
    # A: ONE slice whose equal Metadata is spelt two ways (key order, 7 vs 7.0, True vs 1, 1000 vs 1000.0), next to a
    #    genuinely different slice: rows (and age-to-age neighbours) must not split
    m1 = Metadata(country="US", per_occurrence_limit=1000, details={"n": 7, "flag": True, "lob": "auto"}, loss_details={"a": 1, "b": 2})
    m2 = Metadata(country="US", per_occurrence_limit=1000.0, details={"lob": "auto", "flag": 1, "n": 7.0}, loss_details={"b": 2, "a": 1})
    m3 = Metadata(country="DE", details={"n": 7, "flag": True, "lob": "auto"})
    out.append((Triangle([yr(y, lag, std(k, lag), (m1 if (lag + y) % 2 else m2) if k < 3 else m3)
                          for y in (2019, 2020) for lag in (0, 1, 2) for k in (1, 3)]), {"family": "A"}, "hardening/A-spellings"))
    # B: distinct metadata that flatten alike, all with the same periods
    ms = [Metadata(details={"k": "v"}), Metadata(loss_details={"k": "v"}), Metadata(details={"currency": "USD"}),
          Metadata(currency="USD"), Metadata(loss_details={"k": "w"})]
    out.append((Triangle([yr(2020, lag, std(i + 1, lag), m) for i, m in enumerate(ms) for lag in (0, 1)]),
                {"family": "B"}, "hardening/B-flatten-alike"))
    # D: coordinates given as datetime / Timestamp / datetime subclass with a time of day
    class MyDT(datetime.datetime):
        pass

    out.append((Triangle([CumulativeCell(period_start=datetime.datetime(2020, 1, 1, 13, 5), period_end=pd.Timestamp("2020-12-31 23:59:59"),
                                         evaluation_date=MyDT(2020 + lag, 12, 31, 7, 0), values=std(1, lag)) for lag in (0, 1)]),
                {"family": "D"}, "hardening/D-datetime-coordinates"))
    # F: one cell; a field present only at later evaluations / missing in the first cell; an all-None field
    out.append((Triangle([yr(2020, 0, {"paid_loss": 5, "earned_premium": 10})]), {"family": "F"}, "hardening/F-one-cell"))
    out.append((Triangle([yr(2020, 0, {"earned_premium": 100, "incurred_loss": None}), yr(2020, 1, {"earned_premium": 100, "paid_loss": 7, "incurred_loss": None}),
                          yr(2020, 2, {"paid_loss": 9.5, "reported_loss": 11, "earned_premium": 100, "incurred_loss": None}),
                          yr(2021, 0, {"paid_loss": np.array([1.0, 2.0, 4.0]), "earned_premium": 50}), yr(2021, 1, {"paid_loss": 6, "earned_premium": 50})]),
                {"family": "F"}, "hardening/F-late-fields"))
    # G: NumPy scalars, size-1 arrays, int32 / int16 sample arrays, strided arrays
    out.append((Triangle([yr(2020, 0, {"paid_loss": np.int64(40), "reported_loss": np.float64(60.5), "earned_premium": np.int64(2**40)}),
                          yr(2020, 1, {"paid_loss": np.array([50]), "reported_loss": np.array([70.25]), "earned_premium": np.int64(2**40)})]),
                {"family": "G"}, "hardening/G-numpy-scalars"))
    base = np.arange(1, 13)
    out.append((Triangle([yr(2020, 0, {"paid_loss": base[::3].astype(np.int32), "reported_loss": base[::-3].astype(np.int16), "earned_premium": 100}),
                          yr(2020, 1, {"paid_loss": (2.0 * base)[1::3], "reported_loss": np.asfortranarray(base[:4] * 3.0), "earned_premium": 100})]),
                {"family": "G"}, "hardening/G-array-types"))
    # I: restated cells (same coordinates, other values); only fields without a row-neighbour metric
    with warnings.catch_warnings():
        warnings.simplefilter("ignore")
        out.append((Triangle([yr(2020, 0, {"incurred_loss": 5, "earned_premium": 100}), yr(2020, 0, {"incurred_loss": 6, "earned_premium": 100}),
                              yr(2020, 1, {"incurred_loss": 8, "earned_premium": 100})]), {"family": "I"}, "hardening/I-restated"))
    # J: semi-monthly periods inside one month, periods sharing a start / an end, nested periods
    ps = [(D(2020, 1, 1), D(2020, 1, 15)), (D(2020, 1, 16), D(2020, 1, 31)), (D(2020, 1, 1), D(2020, 1, 31)),
          (D(2020, 1, 1), D(2020, 12, 31)), (D(2019, 7, 1), D(2020, 1, 31))]
    out.append((Triangle([CumulativeCell(period_start=a, period_end=b, evaluation_date=e, values=std(i + 1, k))
                          for i, (a, b) in enumerate(ps) for k, e in enumerate((D(2020, 12, 31), D(2021, 1, 31), D(2021, 3, 31)))]),
                {"family": "J"}, "hardening/J-period-layouts"))
    return out


def rec_canon(x):
    """strict canonical form of build_plot_data results"""
    if isinstance(x, dict):
        return ("dict", tuple((k, rec_canon(v)) for k, v in x.items()))
    if isinstance(x, (list, tuple)):
        return (type(x).__name__, tuple(rec_canon(v) for v in x))
    if isinstance(x, np.ndarray):
        return ("arr", str(x.dtype), x.tobytes().hex())
    if isinstance(x, (float, np.floating)):
        return ("f", float(x).hex())
    return (type(x).__name__, repr(x))


def hardening_checks(ctx):
    """H (same call twice, caller edits a result), K (argument spellings and non-default options of build_plot_data),
    L (refusals both ways), E (seed=0)"""
    import bermuda.plot as bp
    from bermuda import Triangle

    fails = []
    t = plot_triangle(2, True)
    with warnings.catch_warnings():
        warnings.simplefilter("ignore")
        base = bp.build_plot_data(t)
        want = rec_canon(base)
        # K: positional vs keyword, defaults spelt out
        for label, thunk in (("positional defaults", lambda: bp.build_plot_data(t, None, True, False, False)),
                             ("keyword defaults", lambda: bp.build_plot_data(triangle=t, metric_dict=None, remove_empties=True, flat=False, keep_samples=False)),
                             ("explicit COMMON_METRIC_DICT", lambda: bp.build_plot_data(t, bp.COMMON_METRIC_DICT)),
                             ("same call again", lambda: bp.build_plot_data(t)),
                             ("equal triangle built again", lambda: bp.build_plot_data(Triangle(list(reversed(t.cells)))))):
            try:
                if rec_canon(thunk()) != want:
                    fails.append((f"build_plot_data: {label}", "records differ from the default call", None))
            except Exception as ex:  # noqa: BLE001
                fails.append((f"build_plot_data: {label}", f"raised {type(ex).__name__}: {ex}"[:200], None))
        # K: non-default options
        names = [bp._to_snake_case(n) for n in bp.COMMON_METRIC_DICT]
        try:
            full = bp.build_plot_data(t, remove_empties=False)
            for r0, r1 in zip(base, full):
                if [k for k in r1 if k in names] != names or any((r1[k] != {}) != (k in r0) for k in names) \
                        or any(rec_canon(r1[k]) != rec_canon(r0[k]) for k in names if k in r0):
                    fails.append(("build_plot_data(remove_empties=False)", "absent metrics must be {} and present ones unchanged", None))
                    break
            ctx.hist("probe:K1-remove_empties-false-ok")
        except KeyError as ex:
            ctx.hist("probe:K1-remove_empties-false-KeyError")
            ctx.violation("impl-violation", f"build_plot_data(t, remove_empties=False) raises KeyError: {ex} (a cell lacks some "
                          "built-in metric, as practically every cell does)", {"triangle": tri_spec(t), "remove_empties_probe": True},
                          found_input=True, finding_class={"kind": "build_plot_data_remove_empties_false_keyerror"})
        except Exception as ex:  # noqa: BLE001
            fails.append(("build_plot_data(remove_empties=False)", f"raised {type(ex).__name__}: {ex}"[:200], None))
        try:
            flat = bp.build_plot_data(t, flat=True)
            for r0, r2 in zip(base, flat):
                exp = {}
                for k, v in r0.items():
                    if isinstance(v, dict):
                        exp.update({f"{k}_{a}": b for a, b in v.items()})
                    else:
                        exp[k] = v
                if rec_canon(r2) != rec_canon(exp):
                    fails.append(("build_plot_data(flat=True)", "not the flattened default record", None))
                    break
            keep = bp.build_plot_data(t, keep_samples=True)
            for c, r0, r3 in zip(t.cells, base, keep):
                v = c.values["paid_loss"]
                m = r3["paid_loss"]["metric"]
                if isinstance(v, np.ndarray) and (not isinstance(m, dict) or list(m.keys()) != list(range(len(v))) or list(m.values()) != v.tolist()):
                    fails.append(("build_plot_data(keep_samples=True)", "metric must hold the samples in order", None))
                    break
                if any(r3["paid_loss"][k] != r0["paid_loss"][k] for k in ("mean", "median", "q2_5", "q97_5", "min", "max")):
                    fails.append(("build_plot_data(keep_samples=True)", "statistics changed", None))
                    break
        except Exception as ex:  # noqa: BLE001
            fails.append(("build_plot_data non-default options", f"raised {type(ex).__name__}: {ex}"[:200], None))
        # E: seed=0 is a seed (spaghetti lines drawn reproducibly), and differs from another seed's draw
        kw = {"uncertainty_type": "spaghetti", "n_lines": N_SAMPLES - 2}
        tp = plot_triangle(1, False)
        try:
            a = bp.plot_growth_curve(tp, seed=0, **kw).to_dict(validate=True)
            b = bp.plot_growth_curve(tp, seed=0, **kw).to_dict(validate=True)
            c = bp.plot_growth_curve(tp, **kw, seed=12345).to_dict(validate=True)
            # (whether equal seeds draw equal lines is not part of C20's statement: recorded, not judged)
            ctx.hist("info:plot_growth_curve-same-seed-same-chart-" + str(json.dumps(a, sort_keys=True, default=str) == json.dumps(b, sort_keys=True, default=str)))
            ctx.hist("hardening:seed0-vs-other-" + ("differs" if json.dumps(a, sort_keys=True, default=str) != json.dumps(c, sort_keys=True, default=str) else "same"))
        except Exception as ex:  # noqa: BLE001
            fails.append(("plot_growth_curve(seed=0)", f"raised {type(ex).__name__}: {ex}"[:200], None))
        # L: refusals both ways
        refusals = [("n_lines = num_samples + 1", lambda: bp.plot_growth_curve(tp, uncertainty_type="spaghetti", n_lines=N_SAMPLES + 1), ValueError),
                    ("unknown metric name", lambda: bp.plot_heatmap(t, metric_spec="No Such Metric"), ValueError),
                    ("unknown metric name in a list", lambda: bp.plot_growth_curve(t, metric_spec=["Paid Loss", "Nope"]), ValueError),
                    ("non-string metric reference", lambda: bp.plot_atas(t, metric_spec=[3]), ValueError)]
        for label, thunk, exc in refusals:
            try:
                thunk().to_dict()
                fails.append((f"refusal: {label}", "accepted", None))
            except exc:
                pass
            except Exception as ex:  # noqa: BLE001
                fails.append((f"refusal: {label}", f"raised {type(ex).__name__} instead of {exc.__name__}", None))
    ctx.count(evaluations=5 + 3 + 3 + 4)
    ctx.hist("hardening:K/E/L checks", 15)
    for label, why, pc in fails[:5]:
        data = {"triangle": tri_spec(t), "hardening_check": label, "failure": why}
        if pc:
            data["plot_call"] = dict(pc, n_samples=N_SAMPLES)
        ctx.violation("impl-violation", f"plot data / plot option check fails: {label}: {why}", data, found_input=True)
    # H: a caller edits a returned record; a fresh equal triangle must still get correct records
    cache_probe(ctx)
    return fails


def cache_probe(ctx, spec=None):
    """build_plot_data is cached: the cached value must not be shared mutable state"""
    import bermuda.plot as bp
    from bermuda import CumulativeCell, Triangle

    def mk():
        return Triangle([CumulativeCell(period_start=D(2031, 1, 1), period_end=D(2031, 12, 31), evaluation_date=D(2031 + k, 12, 31),
                                        values={"paid_loss": 17 * (k + 1), "earned_premium": 1234}) for k in (0, 1)])

    t = mk()
    with warnings.catch_warnings():
        warnings.simplefilter("ignore")
        r1 = bp.build_plot_data(t)
        before = rec_canon(r1)
        keep = (r1[0]["dev_lag"], r1[0]["paid_loss"]["mean"])
        r1[0]["dev_lag"] = 999
        r1[0]["paid_loss"]["mean"] = -1
        r2 = bp.build_plot_data(mk())
        bad = rec_canon(r2) != before
        if bad:      # leave the cache as we found it
            r2[0]["dev_lag"], r2[0]["paid_loss"]["mean"] = keep
    ctx.hist("probe:H-cache-" + ("shared" if bad else "ok"))
    if bad:
        ctx.violation("impl-violation", "build_plot_data hands out its cached list: after a caller edited record 0 "
                      "(dev_lag=999, paid_loss mean=-1) the next call on an equal triangle returns the edited record",
                      {"triangle": tri_spec(t), "cache_probe": True}, found_input=True,
                      finding_class={"kind": "build_plot_data_cache_shares_mutable_result"})
    return bad


# ------------------------------------------------------------------------------ large stream (family Q)
def make_large(kind, **pr):
    """big inputs by generator parameters (so that replays need no 10**5-element literals)"""
    import calendar

    from bermuda import CumulativeCell, Metadata, Triangle

    def me(k):
        y, m = divmod(k, 12)
        return D(y, m + 1, calendar.monthrange(y, m + 1)[1])

    rng = np.random.default_rng(pr.get("seed", 1))
    if kind == "samples":            # sample arrays of n items, incl. reversed / strided / Fortran views
        n = pr["n"]
        cells = []
        for y in (2019, 2020):
            for lag in (0, 1, 2):
                paid = rng.gamma(2.0, 500.0 * (lag + 1), 2 * n)[::2]
                rep = np.asfortranarray(rng.normal(2000.0 * (lag + 1), 300.0, n))[::-1]
                cells.append(CumulativeCell(period_start=D(y, 1, 1), period_end=D(y, 12, 31), evaluation_date=D(y + lag, 12, 31),
                                            values={"paid_loss": paid, "reported_loss": rep, "earned_premium": 10000.0,
                                                    "incurred_loss": rng.integers(0, 10**6, n).astype(np.int64)}))
        return Triangle(cells)
    if kind == "long":               # rows of > 65 cells, > 64 evaluation dates, n_slices x periods x lags cells, big integers
        cells = []
        for s_ in range(pr["n_slices"]):
            m = Metadata(details={"id": 2**53 + 1 + s_})
            for p_ in range(pr["periods"]):
                k0 = 12 * 2000 + 12 * p_
                for lag in range(pr["lags"]):
                    v = (2**53 + 1 + lag) if (s_ == 0 and p_ == 0) else 1000 * (lag + 1) + p_ + s_
                    cells.append(CumulativeCell(period_start=D(2000 + p_, 1, 1), period_end=D(2000 + p_, 12, 31), evaluation_date=me(k0 + 11 + lag),
                                                values={"paid_loss": v, "reported_loss": 1.5 * v, "earned_premium": 50000 + p_}, metadata=m))
        order = rng.permutation(len(cells))
        return Triangle([cells[i] for i in order])
    if kind == "seam":               # equal-metadata cells created before and after > n distinct Metadata were seen by Cell
        def cell(m, lag, k):
            return CumulativeCell(period_start=D(2021, 1, 1), period_end=D(2021, 12, 31), evaluation_date=D(2021 + lag, 12, 31),
                                  values={"paid_loss": 100.0 * k * (lag + 1), "reported_loss": 150 * k * (lag + 2), "earned_premium": 1000}, metadata=m)

        mk = [lambda: Metadata(country="US", details={"lob": "auto", "n": 7}), lambda: Metadata(country="DE", loss_details={"cov": "x"})]
        first = [cell(f(), 0, k + 1) for k, f in enumerate(mk)]
        filler = [cell(Metadata(details={"filler": pr.get("offset", 0) + i}), 0, 1) for i in range(pr["n"])]
        later = [cell(f(), lag, k + 1) for k, f in enumerate(mk) for lag in (1, 2)]
        del filler
        return Triangle(first + later)
    raise ValueError(kind)


def large_stream(ctx):
    """Family Q, judged by the direct oracle only (no Coq literals: the theorems -- quantile monotonicity, labels,
    neighbours -- are size independent; it is the correspondence that samples).  An early small case is re-checked after
    the large work."""
    quick = ctx.quick
    plan = [("samples", {"n": n, "seed": ctx.seed}) for n in ([4096, 4097, 5000, 10000] if quick else [4096, 4097, 5000, 10000, 20000, 100000])]
    plan += [("seam", {"n": 2100 if quick else 4300, "offset": 0}),
             ("long", {"n_slices": 5, "periods": 3, "lags": 21, "seed": ctx.seed}),
             ("long", {"n_slices": 1, "periods": 1, "lags": 70, "seed": ctx.seed})]
    if not quick:
        plan += [("long", {"n_slices": 6, "periods": 6, "lags": 31, "seed": ctx.seed}), ("seam", {"n": 2100, "offset": 10**6})]
    t0 = time.time()
    fails = []
    for kind, pr in plan:
        with warnings.catch_warnings():
            warnings.simplefilter("ignore")
            t = make_large(kind, **pr)
        r = oracle(t)
        ctx.count(evaluations=len(t), traces=1)
        ctx.hist(f"large:{kind}-{'-'.join(str(v) for k, v in pr.items() if k != 'seed')}")
        if r is not None:
            fails.append((kind, pr, r))
    # an early small case rebuilt after the large work (not served from build_plot_data's cache: premium shifted)
    from bermuda import Triangle

    t_early = battery()[1][0]
    rebuilt = Triangle([c.replace(values={**c.values, "earned_premium": c.values["earned_premium"] + 1 + ctx.seed}) for c in spec_tri(tri_spec(t_early)).cells])
    r = oracle(rebuilt)
    if r is not None:
        fails.append(("early-recheck", {}, r))
    ctx.log(f"large stream: {len(plan)} big cases + early re-check, {len(fails)} failures, {time.time() - t0:.1f}s")
    for kind, pr, r in fails[:4]:
        ctx.violation("impl-violation", f"large stream ({kind} {pr}): plot data not faithful: {json.dumps(r, default=str)[:700]}",
                      {"large": {"kind": kind, "params": pr}, "failure": r}, found_input=True)
    return fails


# ------------------------------------------------------------------------------ run
def run(ctx):
    from translate import t_plot

    ctx.rule = (
        "cases: directed battery (sample array 0..9; two slices with equal periods; present-but-zero inputs; absent / None inputs) + harness.gen "
        "monthly / quarterly calendar triangles through Feb 2000 / Feb 2100 / leap and non-leap years (dev_lag and last_lag tied to the month-index difference), triangles with the standard fields paid/reported/incurred loss, earned premium, reported claims (2-5 of them, "
        "not always the same per cell, occasionally None), int / dyadic float scalars and int64 / float64 sample arrays "
        "(2-8 samples) and mixes, 1-3 slices, regular / ragged / holey layouts, 1-3 periods x 1-4 lags; present fields are "
        "regularly exactly zero (scalar 0 / 0.0, all-zero arrays, arrays containing zeros) with earned_premium non-zero; "
        "array-by-zero divisions (NumPy inf) avoided. Every case goes through coqc (model records vs build_plot_data) and through the direct "
        "oracle. Non-trivial = at least 2 cells; distinct by canonical form.")
    ctx.assumptions += [
        "translate/t_plot.py reads the Python AST faithfully; Model/Plot.v interprets the generated description",
        "NumPy's default quantile method is linear interpolation on the sorted sample; np.median = quantile 1/2 "
        "(validated numerically on every run to 1e-9)",
        "floats are compared with 1e-9 relative tolerance against exact rational arithmetic",
        "dev_lag is taken from cell.dev_lag() (date arithmetic is C12); tooltip / unit / last_lag / resolution entries "
        "of the records are not modelled",
        "large stream (family Q: 4096-10**5-sample arrays incl. views, rows of 70 cells, 240+-cell triangles, ints beyond 2**53, "
        "> 2100 distinct Metadata between equal-metadata cells, early case re-checked afterwards) is judged by the direct oracle "
        "only -- no Coq literals: the theorems are size independent, it is the correspondence that samples",
        "NOT DECIDED: sd is compared numerically with np.std only; validity of Vega-Lite specifications and 'one facet "
        "per slice' are behaviour of Altair -- only monitored: every plot function with its default and each non-default "
        "option at boundary values (n_lines = num_samples, num_samples-1, 1; every uncertainty_type) on 1-3-slice "
        "observed+predicted and all-sample triangles, to_dict(validate=True), charts counted",
    ]
    from harness.coqterm import canon_tri

    # 1. translate
    gen_ok = False
    try:
        gen = t_plot.translate(REPO)
        ctx.obligation("T-plot translation of bermuda/plot.py", True)
        (ctx.build / "GenPlot.v").write_text(gen)
        gen_ok = True
    except t_plot.Unsupported as ex:
        ctx.obligation("T-plot translation of bermuda/plot.py", False, str(ex))
        ctx.log(f"translator failed closed: {ex}")
    except Exception as ex:  # noqa: BLE001
        ctx.obligation("T-plot translation of bermuda/plot.py", False, repr(ex))
    for f in set(ctx.build.glob("cases_*")) | set(ctx.build.glob("*.vo")) | set(ctx.build.glob("*.glob")):
        f.unlink(missing_ok=True)
    # 2. proofs
    ctx.audit_tree(["Model/Plot.v", "Proofs/PlotQuantile.v", "Proofs/PlotRecords.v", "Props/C20.v"])
    ctx.prove_static("Props/C20.v")
    desc_name = "std_desc"
    if gen_ok:
        rc, out = ctx.coqc(ctx.build / "GenPlot.v", timeout=300)
        ctx.obligation("GenPlot.v compiles", rc == 0, out)
        if rc == 0:
            desc_name = "GenPlot.desc"
            for name in ("C20_labels.v", "C20_metrics.v", "C20_rows.v"):
                shutil.copy(COQ / "GenProps" / name, ctx.build / name)
            res = {n: ctx.prove(ctx.build / n, timeout=600) for n in ("C20_labels.v", "C20_metrics.v", "C20_rows.v")}
            if not all(ok for ok, _ in res.values()):
                import difflib

                exp = (COQ / "GenExpected" / "GenPlot.v")
                if exp.exists():
                    dd = "".join(difflib.unified_diff(exp.read_text().splitlines(1), gen.splitlines(1), "expected", "generated"))
                    ctx.extra["generated_desc_diff"] = dd[:6000]
        else:
            gen_ok = False
    if not gen_ok:
        (ctx.build / "GenPlot.v").write_text("From Bermuda Require Import Model.Plot.\nDefinition desc := std_desc.\n")
        ctx.coqc(ctx.build / "GenPlot.v", timeout=300)
    ctx.log("proof files done; generating cases")
    # 3. cases + direct oracle
    cases = (battery() + calendar_cases(random.Random(ctx.seed * 97 + 2), 48 if ctx.quick else 192) + hardening_cases()
             + gen_cases(ctx, 110 if ctx.quick else 900))
    fails = []
    for t, info, desc in cases:
        ctx.hist("case:" + desc.split("/")[0] + "/" + str(info.get("values", "")))
        ctx.hist(f"slices:{len(t.slices)}")
        if len(t) >= 2:
            ctx.nontriv(canon_tri(t, ordered=True))
        r = oracle(t)
        ctx.count(evaluations=len(t), traces=1)
        if r is not None:
            fails.append((t, desc, r))
    # 3b. the same triangles as OTHER public operations hand them out (derived inputs): the records must be as faithful
    nd = 0
    for j, (t, info, desc) in enumerate(cases):
        if len(t) == 0 or (j % 3 and not any(isinstance(v, np.ndarray) and v.ndim for c in t.cells for v in c.values.values())):
            continue
        how = DERIVATIONS[j % len(DERIVATIONS)]
        try:
            with warnings.catch_warnings():
                warnings.simplefilter("ignore")
                td = derive_input(t, how)
        except Exception:  # noqa: BLE001  -- the derivation itself is the business of C04/C05/C07
            ctx.hist("derived-input:refused:" + how)
            continue
        if canon_tri(td, ordered=True) != canon_tri(t, ordered=True) and how != "to_incremental_to_cumulative":
            ctx.hist("derived-input:not-identical(skipped):" + how)
            continue
        nd += 1
        ctx.hist("derived-input:" + how)
        r = fresh_oracle(td)
        ctx.count(evaluations=len(td), traces=1)
        if r is not None and fresh_oracle(t) is None:
            fails.append((td, f"{desc} via {how}", {**r, "derived_by": how}))
            ctx.violation("impl-violation", f"plot data not faithful on the output of {how} ({desc}), faithful on the same cells built "
                          f"directly: {r}", {"triangle": tri_spec(t), "derived_by": how, "failure": r}, found_input=True)
            if len(fails) > 6:
                break
    ctx.log(f"derived inputs: {nd} triangles")
    ctx.sample({"case": cases[10][2], "triangle": tri_spec(cases[10][0])[:2]})
    ctx.log(f"direct oracle: {len(cases)} triangles, {len(fails)} failures")
    for t, desc, r in [f for f in fails if "derived_by" not in f[2]][:5]:
        ctx.violation("impl-violation", f"plot data not faithful ({desc}): {r}",
                      {"triangle": shrink(t), "failure": r}, found_input=True)
    # 4. correspondence in coqc
    mism, ncorr = correspondence(ctx, cases, desc_name)
    ctx.count(evaluations=ncorr, traces=ncorr)
    ctx.log(f"correspondence: {ncorr} triangles in coqc, {len(mism)} mismatching")
    ctx.obligation("correspondence model records vs build_plot_data (order, coordinates, summaries, statistics)",
                   not mism, json.dumps(mism[:2], default=str)[:1500])
    if mism and not fails:
        ctx.violation("correspondence", "model and build_plot_data differ on a generated triangle",
                      {"mismatches": mism[:3]}, found_input=False)
    # 5. monitor
    vega_monitor(ctx)
    large_stream(ctx)
    hf = hardening_checks(ctx)
    ctx.log(f"hardening checks (K/E/L/H): {len(hf)} failures")


def shrink(t):
    from bermuda import Triangle

    cells = list(t.cells)

    def bad(cs):
        try:
            with warnings.catch_warnings():
                warnings.simplefilter("ignore")
                return bool(cs) and oracle(Triangle(cs)) is not None
        except Exception:  # noqa: BLE001
            return False

    if not bad(cells):
        return tri_spec(t)
    i = 0
    while i < len(cells) and len(cells) > 1:
        trial = cells[:i] + cells[i + 1:]
        if bad(trial):
            cells = trial
        else:
            i += 1
    for i in range(len(cells)):
        for k in list(cells[i].values):
            vals = {a: b for a, b in cells[i].values.items() if a != k}
            trial = cells[:i] + [cells[i].replace(values=vals)] + cells[i + 1:]
            if bad(trial):
                cells = trial
    return tri_spec(cells)


def replay(ctx, data):
    if data.get("large"):
        kind, pr = data["large"]["kind"], data["large"]["params"]
        if kind == "early-recheck":
            print("the early re-check needs the whole large stream; re-running it")
            class _L:
                quick, seed = True, 1
                def count(self, *a, **k): pass
                def hist(self, *a, **k): pass
                def log(self, *a): print(*a)
                def violation(self, kind, what, *a, **k): print("FAILS:", what[:900])
            return 1 if large_stream(_L()) else 0
        with warnings.catch_warnings():
            warnings.simplefilter("ignore")
            t = make_large(kind, **pr)
        print(f"make_large({kind!r}, **{pr}): {len(t)} cells, {len(t.slices)} slice(s), {t.num_samples} sample(s)")
        r = oracle(t)
        if r is None:
            print("build_plot_data: one record per cell in order, metrics and labelled statistics as stated: OK")
            return 0
        print("plot data NOT faithful:", json.dumps(r, default=str)[:1500])
        return 1
    if data.get("remove_empties_probe"):
        import bermuda.plot as bp

        try:
            with warnings.catch_warnings():
                warnings.simplefilter("ignore")
                r = bp.build_plot_data(spec_tri(data["triangle"]), remove_empties=False)
            print(f"build_plot_data(t, remove_empties=False): {len(r)} records: OK")
            return 0
        except Exception as ex:  # noqa: BLE001
            print(f"build_plot_data(t, remove_empties=False) raises {type(ex).__name__}: {ex}")
            return 1
    if data.get("cache_probe"):
        class _C:
            def hist(self, *a, **k): pass
            def violation(self, *a, **k): print("cached records are shared mutable state:", a[1][:200])
        return 1 if cache_probe(_C()) else 0
    pc = data.get("plot_call")
    if pc:
        t = plot_triangle(pc["n_slices"], pc["mixed"], pc.get("n_samples", N_SAMPLES), title_kind=pc.get("title_kind"))
        print(f"bermuda.plot.{pc['method']}(triangle, **{pc['kwargs']}) on a {len(t.slices)}-slice triangle with "
              f"{t.num_samples} samples ({len(t)} cells)")
        r = plot_call(t, pc["method"], pc["kwargs"])
        if r is None:
            print("valid Vega-Lite specification with one chart per slice: OK")
            return 0
        print("NOT a valid spec with one chart per slice:", json.dumps(r, default=str)[:800])
        return 1
    spec = data.get("triangle")
    if not spec:
        print("replay data holds no triangle:", json.dumps(data, default=str)[:2000])
        return 1
    with warnings.catch_warnings():
        warnings.simplefilter("ignore")
        t = spec_tri(spec)
        if data.get("derived_by"):
            t = derive_input(t, data["derived_by"])
            print("input derived by", data["derived_by"])
    print(f"triangle with {len(t)} cell(s), {len(t.slices)} slice(s)")
    for c in t.cells[:6]:
        print("  ", repr(c)[:300])
    r = fresh_oracle(t)
    if r is None:
        print("build_plot_data: one record per cell in order, metrics and labelled statistics as stated: OK")
        return 0
    print("plot data NOT faithful:", json.dumps(r, default=str)[:1500])
    return 1
