"""C20 -- plot data is faithful: one record per cell, correct metrics and labels.

1. T-plot regenerates the description (FieldSummary field order, quantiles() literal, from_metric
   argument order, metric lambdas, row iterator, coordinate keys) from /repo; GenProps/C20_labels.v,
   C20_metrics.v, C20_rows.v discharge labels_ok / metric table / rows obligations on it and instantiate
   the static theorems (Props/C20.v re-checked).
2. Correspondence inside coqc: the model's records (exact Q arithmetic, generated description) vs the
   records of the real build_plot_data on generated triangles: order, coordinates, lag, which
   summaries exist, mean / median / min / max / every quantile field (1e-9).
3. Direct oracle on every case, no model: record <-> cell, each metric recomputed from the cell's own
   fields (ATA from the next cell of the same slice and period found independently), np.quantile at the
   probability written in each q-field name, monotonicity, sd vs np.std.
4. Monitor only (Altair behaviour is not decided): a few plot_*().to_dict() calls, charts per slice.
"""
from __future__ import annotations

import datetime
import json
import math
import random
import re
import shutil
import warnings
from fractions import Fraction

import numpy as np

from harness.common import COQ, REPO, parse_coq_eval
from harness.coqterm import NotRepresentable, cstr

D = datetime.date
LOSS = ["paid_loss", "reported_loss", "incurred_loss"]
FIELDS = LOSS + ["earned_premium", "reported_claims"]
STAT_FIELDS = ["mean", "median", "min", "max"]
FIXED_KEYS = {"period_start", "period_end", "evaluation_date", "dev_lag", "last_lag", "last_observed_lag", "fields",
              "experience_resolution", "evaluation_resolution", "tooltip"}


# ------------------------------------------------------------------------------ printers
def cq(x) -> str:
    if isinstance(x, (bool, np.bool_)):
        raise NotRepresentable("bool")
    if isinstance(x, (int, np.integer)):
        f = Fraction(int(x))
    else:
        x = float(x)
        if not math.isfinite(x):
            raise NotRepresentable(f"non-finite {x}")
        f = Fraction(x)
    n = f"({f.numerator})" if f.numerator < 0 else str(f.numerator)
    return f"({n} # {f.denominator})"


def cpval(v) -> str:
    if v is None:
        return "PNoneV"
    if isinstance(v, np.ndarray):
        return "(PArr [" + ";".join(cq(x) for x in v.tolist()) + "])"
    return f"(PNum {cq(v)})"


def cpcell(c, sid) -> str:
    vals = "[" + ";".join(f"({cstr(k)},{cpval(v)})" for k, v in c.values.items()) + "]"
    return (f"(mkPCell {sid} {c.period_start.toordinal()} {c.period_end.toordinal()} "
            f"{c.evaluation_date.toordinal()} {cq(c.dev_lag())} {vals})")


def is_summary(v):
    return isinstance(v, dict) and "snake_case_field" in v


def stat_names(summary: dict):
    return [k for k in summary if k in STAT_FIELDS or re.fullmatch(r"q\d+(_\d+)?", k)]


def crecord(r) -> str:
    sums = []
    for k, v in r.items():
        if k in FIXED_KEYS or not is_summary(v):
            continue
        stats = [(s, v[s]) for s in stat_names(v) if v[s] is not None]
        sums.append(f"({cstr(k)},[" + ";".join(f"({cstr(s)},{cq(x)})" for s, x in stats) + "])")
    return (f"(mkRec {r['period_start'].date().toordinal()} {r['period_end'].date().toordinal()} "
            f"{r['evaluation_date'].date().toordinal()} {cq(r['dev_lag'])} [" + ";".join(sums) + "])")


# ------------------------------------------------------------------------------ replay format
def tri_spec(t):
    from harness.c07 import tri_spec as ts

    return ts(t)


def spec_tri(spec):
    from harness.c07 import spec_tri as st

    return st(spec)


# ------------------------------------------------------------------------------ generation
def shape_values(vals, rng, all_scalar):
    """Denominators stay usable, but PRESENT fields are regularly exactly zero: earned_premium is never zero
    (so ratios are 0, not undefined); paid/reported loss (denominators of the age-to-age metrics) may be a
    scalar 0 / 0.0 only in all-scalar triangles (0 denominator -> ZeroDivisionError -> no summary, which the
    model follows; array / 0 would be NumPy inf, outside the model); incurred_loss and reported_claims (never
    denominators) may be scalar zero, all-zero sample arrays or arrays containing zeros."""
    out = {}
    for k, v in vals.items():
        arr = isinstance(v, np.ndarray)
        if k == "earned_premium" or (k in ("paid_loss", "reported_loss") and (arr or not all_scalar)):
            if arr:
                v = v.copy()
                v[v == 0] = 1
            elif v == 0:
                v = 1 if isinstance(v, int) else 1.0
        if v is not None:
            r = rng.random()
            if k in ("incurred_loss", "reported_claims"):
                if arr and r < 0.15:
                    v = np.zeros_like(v)
                elif arr and r < 0.3:
                    v = v.copy()
                    v[rng.randrange(len(v))] = 0
                elif not arr and r < 0.25:
                    v = 0 if isinstance(v, int) else 0.0
            elif k in ("paid_loss", "reported_loss") and all_scalar and not arr and r < 0.2:
                v = 0 if isinstance(v, int) else 0.0
        out[k] = v
    return out


def gen_cases(ctx, n):
    """triangles with the standard loss / premium fields, scalar and sample valued, 1-3 slices, regular
    and ragged (plus holey), some cells lacking a field or holding None"""
    from bermuda import Triangle
    from harness.gen import Gen, describe

    rng = random.Random(ctx.seed * 6007 + 20)
    g = Gen(rng)
    out = []
    while len(out) < n:
        layout = rng.choice(["regular", "regular", "ragged", "ragged", "holey"])
        values = rng.choice(["int", "float", "arr_float", "arr_int", "mixed", "mixed"])
        fields = rng.sample(FIELDS, rng.randint(2, 5))
        if rng.random() < 0.8 and "earned_premium" not in fields:
            fields.append("earned_premium")
        cells, info = g.cells(layout=layout, basis="cum", n_slices=rng.choice([1, 1, 2, 3]), values=values, fields=fields,
                              n_periods=rng.randint(1, 3), n_lags=rng.randint(1, 4), same_fields=rng.random() < 0.7,
                              n_samples=rng.choice([2, 3, 5, 8]))
        new = []
        all_scalar = not any(isinstance(v, np.ndarray) for c in cells for v in c.values.values())
        for c in cells:
            vals = shape_values(c.values, rng, all_scalar)
            if rng.random() < 0.05 and vals:
                vals[rng.choice(list(vals))] = None
            new.append(c.replace(values=vals))
        rng.shuffle(new)
        with warnings.catch_warnings():
            warnings.simplefilter("ignore")
            t = Triangle(new)
        out.append((t, info, describe(info)))
    return out


def battery():
    from bermuda import CumulativeCell, Metadata, Triangle

    def cell(y, lag, vals, m=None):
        pe = D(y, 12, 31)
        ev = D(y + lag, 12, 31)
        return CumulativeCell(period_start=D(y, 1, 1), period_end=pe, evaluation_date=ev, values=vals, metadata=m)

    out = []
    # F6: a sample array on which wrongly labelled quantiles are not monotone
    xs = np.arange(10.0)
    out.append((Triangle([cell(2020, 0, {"paid_loss": xs, "earned_premium": 100.0})]), {"battery": "samples-0..9"}, "battery/samples"))
    # F17: two slices, same periods: the last cell of slice A's row must have no age-to-age summary
    a, b = Metadata(country="US"), Metadata(country="DE")
    cs = []
    for m, k in ((a, 1), (b, 7)):
        for lag in (0, 1):
            cs.append(cell(2020, lag, {"paid_loss": 100 * k * (lag + 1), "reported_loss": 150 * k * (lag + 2), "earned_premium": 1000}, m))
    out.append((Triangle(cs), {"battery": "two-slices-same-period"}, "battery/two-slices"))
    # present-but-zero inputs (seeded mutant C20-m2): paid_loss 0 / 0.0 at the first lag with a non-zero premium
    # gives a 0 loss and a 0 loss ratio -- both must be summarised; all-zero and zero-containing sample arrays
    out.append((Triangle([cell(2020, 0, {"paid_loss": 0, "reported_loss": 0.0, "earned_premium": 1000}),
                          cell(2020, 1, {"paid_loss": 50, "reported_loss": 80.0, "earned_premium": 1000}),
                          cell(2021, 0, {"incurred_loss": np.zeros(3), "reported_claims": np.array([0, 3, 0], dtype=np.int64),
                                         "earned_premium": 500.0})]),
                {"battery": "present-zero"}, "battery/zeros"))
    # absent and None inputs, scalar/sample mixes
    out.append((Triangle([cell(2020, 0, {"paid_loss": 10}), cell(2020, 1, {"paid_loss": None, "earned_premium": 5}),
                          cell(2021, 0, {"reported_loss": np.array([1.0, 2.0, 4.0]), "earned_premium": np.array([2.0, 4.0, 8.0])})]),
                {"battery": "absent-none"}, "battery/absent"))
    return out


# ------------------------------------------------------------------------------ implementation
def run_impl(t):
    from bermuda.plot import build_plot_data

    with warnings.catch_warnings():
        warnings.simplefilter("ignore")
        return build_plot_data(t)


def label_prob(name):
    m = re.fullmatch(r"q(\d+)(?:_(\d+))?", name)
    if not m:
        return None
    return float(m.group(1) + ("." + m.group(2) if m.group(2) else "")) / 100.0


def close(a, b, tol=1e-9):
    a, b = float(a), float(b)
    return a == b or abs(a - b) <= tol * (1 + abs(b))


def expected_metrics(t, c):
    """independent recomputation of every built-in metric for cell c (None = no summary)"""
    nxt = [x for x in t.cells if x.metadata == c.metadata and x.period == c.period and x.evaluation_date > c.evaluation_date]
    nxt = min(nxt, key=lambda x: x.evaluation_date) if nxt else None

    def val(cell, f):
        if cell is None or f not in cell.values or cell.values[f] is None:
            return None
        return cell.values[f]

    def div(a, b):
        if a is None or b is None:
            return None
        if isinstance(a, np.ndarray) or isinstance(b, np.ndarray):
            with np.errstate(all="ignore"):            # NumPy: x / 0 is inf / nan, not an exception
                return np.asarray(a, dtype=float) / np.asarray(b, dtype=float)
        if b == 0:
            return None                                 # ZeroDivisionError -> no summary
        return a / b

    out = {}
    for loss, title in (("paid_loss", "paid"), ("reported_loss", "reported"), ("incurred_loss", "incurred")):
        lv, ep = val(c, loss), val(c, "earned_premium")
        out[f"{title}_loss_ratio"] = None if lv is None else div(100 * lv, ep)
        out[f"{title}_loss"] = lv
    out["earned_premium"] = val(c, "earned_premium")
    out["reported_claims"] = val(c, "reported_claims")
    for loss, title in (("paid_loss", "paid"), ("reported_loss", "reported")):
        r = div(val(nxt, loss), val(c, loss))
        out[f"{title}_ata"] = r
        out[f"{title}_incremental_ata"] = None if r is None else r - 1
    return out


def is_month_end(d):
    return (d + datetime.timedelta(days=1)).day == 1


def month_lag(c):
    """months from period_end to evaluation_date for month-aligned cells (None otherwise), computed from the
    calendar only"""
    if is_month_end(c.period_end) and is_month_end(c.evaluation_date):
        return 12 * (c.evaluation_date.year - c.period_end.year) + (c.evaluation_date.month - c.period_end.month)
    return None


def calendar_cases(rng, n):
    """monthly / quarterly triangles whose period ends and evaluation dates run through February of century years
    (2000: leap, 2100: not), ordinary leap years and non-leap years"""
    import calendar

    from bermuda import CumulativeCell, Triangle

    def me(y, m):
        return D(y, m, calendar.monthrange(y, m)[1])

    out = []
    starts = [(1999, 11), (1999, 12), (2000, 1), (2000, 2), (2099, 12), (2100, 1), (2100, 2), (2023, 12), (2024, 1),
              (2024, 2), (2019, 12), (2020, 2), (2022, 12), (2023, 2), (2003, 12), (2004, 2), (1996, 1)]
    for i in range(n):
        y0, m0 = starts[i % len(starts)]
        res = rng.choice([1, 1, 1, 3])
        cells = []
        for p in range(rng.randint(1, 3)):
            k = (y0 * 12 + m0 - 1) + p * res
            ys, ms = k // 12, k % 12 + 1
            ke = k + res - 1
            pe = me(ke // 12, ke % 12 + 1)
            for lag in range(rng.randint(2, 5)):
                kv = ke + lag
                cells.append(CumulativeCell(period_start=D(ys, ms, 1), period_end=pe, evaluation_date=me(kv // 12, kv % 12 + 1),
                                            values={"paid_loss": 10.0 * (lag + 1) + p, "earned_premium": 100 + p}))
        out.append((Triangle(cells), {"calendar": f"{y0}-{m0:02d}", "values": "float"}, f"calendar/{y0}-{m0:02d}/res{res}"))
    return out


def oracle(t, records=None):
    """Judge the records of build_plot_data(t) directly.  Returns None or a failure dict."""
    try:
        recs = run_impl(t) if records is None else records
    except Exception as ex:  # noqa: BLE001
        return {"stage": "build_plot_data raised", "raised": f"{type(ex).__name__}: {ex}"[:300]}
    if len(recs) != len(t):
        return {"stage": "one record per cell", "detail": f"{len(recs)} records for {len(t)} cells"}
    for i, (c, r) in enumerate(zip(t.cells, recs)):
        got = (r["period_start"].date(), r["period_end"].date(), r["evaluation_date"].date(), r["dev_lag"])
        want = (c.period_start, c.period_end, c.evaluation_date, c.dev_lag())
        if got != want:
            return {"stage": "record i carries cell i's coordinates and lag (cell order)", "index": i,
                    "got": str(got), "want": str(want)}
        # independent of bermuda.date_utils: for month-aligned cells the lag is the month-index difference
        ml = month_lag(c)
        if ml is not None:
            if r["dev_lag"] != ml:
                return {"stage": "dev_lag of a month-aligned cell is not the number of months between period end and "
                                 "evaluation date", "index": i, "got": r["dev_lag"], "want": ml,
                        "period_end": str(c.period_end), "evaluation_date": str(c.evaluation_date)}
            row = [month_lag(x) for x in t.cells if x.period == c.period]
            if all(x is not None for x in row) and r["last_lag"] != max(row):
                return {"stage": "last_lag is not the largest month lag of the period", "index": i,
                        "got": r["last_lag"], "want": max(row), "period": str(c.period)}
        exp = expected_metrics(t, c)
        have = {k: v for k, v in r.items() if k not in FIXED_KEYS and is_summary(v)}
        for name, e in exp.items():
            if e is None or (isinstance(e, np.ndarray) and e.size == 0):
                # direction 1: an input is missing / None / the scalar division is undefined -> no summary
                if name in have:
                    return {"stage": "absent input must give no summary", "index": i, "metric": name,
                            "got": {k: repr(v) for k, v in have[name].items() if k in ("mean",)}}
                continue
            arr = np.atleast_1d(np.asarray(e, dtype=float))
            if not np.all(np.isfinite(arr)):
                continue                                # NumPy inf / nan: outside the property's domain
            # direction 2: every input present (zero included) -> the summary and its tooltip entry exist
            if name not in have:
                return {"stage": "present inputs must give a summary (value " + repr(float(np.mean(arr))) + ")",
                        "index": i, "metric": name, "cell_values": {k: repr(v) for k, v in c.values.items()}}
            s = have[name]
            if name in c.values and s.get("tooltip", "") not in r["tooltip"]:
                return {"stage": "tooltip entry of a present field missing", "index": i, "metric": name,
                        "tooltip": r["tooltip"]}
            if not close(s["mean"], np.mean(arr)):
                return {"stage": "metric value (mean) differs from the cell's own values", "index": i, "metric": name,
                        "got": float(s["mean"]), "want": float(np.mean(arr))}
            if arr.size >= 2:
                checks = [("median", np.median(arr)), ("min", np.min(arr)), ("max", np.max(arr)), ("sd", np.std(arr))]
                for k, w in checks:
                    if s.get(k) is None or not close(s[k], w):
                        return {"stage": f"summary field {k} is not the statistic its name states", "index": i,
                                "metric": name, "got": None if s.get(k) is None else float(s[k]), "want": float(w),
                                "sample": arr.tolist()}
                qs = []
                for k in s:
                    p = label_prob(k)
                    if p is None:
                        continue
                    w = np.quantile(arr, p)
                    if s[k] is None or not close(s[k], w):
                        return {"stage": f"summary field {k} is not the {100 * p:g}th percentile", "index": i,
                                "metric": name, "got": None if s[k] is None else float(s[k]), "want": float(w),
                                "sample": arr.tolist(),
                                "all_quantile_fields": {q: (None if s[q] is None else float(s[q])) for q in s if label_prob(q) is not None},
                                "monotone": all(a <= b for a, b in zip(*[[float(s[q]) for q in s if label_prob(q) is not None and s[q] is not None][i:] for i in (0, 1)]))}
                    qs.append((p, float(s[k]), k))
                if len(qs) != 9:
                    return {"stage": "nine quantile fields expected", "index": i, "metric": name, "got": [k for _, _, k in qs]}
                qs.sort()
                for (p1, v1, k1), (p2, v2, k2) in zip(qs, qs[1:]):
                    if v1 > v2 + 1e-12 * (1 + abs(v2)):
                        return {"stage": "quantile summaries not monotone", "index": i, "metric": name,
                                "detail": f"{k1}={v1} > {k2}={v2}", "sample": arr.tolist()}
                if not (s["min"] <= qs[0][1] + 1e-12 and qs[-1][1] <= s["max"] + 1e-12):
                    return {"stage": "quantiles outside [min, max]", "index": i, "metric": name}
            else:
                for k in ("median", "sd", "min", "max", "q2_5", "q50", "q97_5"):
                    if s.get(k) is not None:
                        return {"stage": "scalar metric must have no sample statistics", "index": i, "metric": name, "field": k}
        extra = set(have) - set(exp)
        if extra:
            return {"stage": "unexpected summaries", "index": i, "got": sorted(extra)}
    return None


# ------------------------------------------------------------------------------ Coq correspondence
HEADER = """From Coq Require Import ZArith QArith List Bool.
From Bermuda Require Import Model.Base Model.Plot.
From Gen Require Import GenPlot.
Import ListNotations.
Local Open Scope Z_scope.
Definition d := {desc}.
"""


def correspondence(ctx, cases, desc_name):
    files, meta, per = [], [], 12
    chunks = [cases[i:i + per] for i in range(0, len(cases), per)]
    for fi, chunk in enumerate(chunks):
        L = [HEADER.format(desc=desc_name)]
        idx = []
        for ci, (t, info, desc) in enumerate(chunk):
            try:
                recs = run_impl(t)
                metas = list(t.slices.keys())
                cells = "[" + ";\n  ".join(cpcell(c, metas.index(c.metadata)) for c in t.cells) + "]"
                rtxt = "[" + ";\n  ".join(crecord(r) for r in recs) + "]"
            except NotRepresentable:
                ctx.hist("corr:skipped-not-representable")
                continue
            except Exception as ex:  # noqa: BLE001  (reported by the oracle)
                ctx.hist(f"corr:impl-raised-{type(ex).__name__}")
                continue
            L.append(f"Definition t{ci} : list pcell := {cells}.\nDefinition r{ci} : list precord := {rtxt}.\n")
            idx.append(ci)
        L.append("Eval vm_compute in failing [" + "; ".join(f"records_close (build_plot_data d t{ci}) r{ci}" for ci in idx) + "].\n")
        f = ctx.build / f"cases_{fi}.v"
        f.write_text("\n".join(L))
        files.append(f)
        meta.append((chunk, idx))
    res = ctx.coqc_many(files, jobs=16, timeout=900)
    mism, n = [], 0
    for f, (chunk, idx) in zip(files, meta):
        rc, out = res[f]
        if rc != 0:
            mism.append({"file": f.name, "coqc": out[-800:]})
            continue
        vals = parse_coq_eval(out)
        if not vals:
            mism.append({"file": f.name, "no-output": out[-300:]})
            continue
        n += len(idx)
        bad = [int(x) for x in vals[-1].strip("[]").replace("%nat", "").split(";") if x.strip()]
        for b in bad:
            t, info, desc = chunk[idx[b]]
            mism.append({"case": desc, "triangle": tri_spec(t)})
    return mism, n


# ------------------------------------------------------------------------------ Altair monitor
def vega_monitor(ctx, t1, t2):
    """NOT a decision procedure: calls a few plot methods and counts charts per slice."""
    res = {}
    for name in ("plot_right_edge", "plot_data_completeness", "plot_heatmap", "plot_growth_curve", "plot_mountain"):
        for label, t in (("1-slice", t1), ("2-slice", t2)):
            key = f"{name}/{label}"
            try:
                with warnings.catch_warnings():
                    warnings.simplefilter("ignore")
                    spec = getattr(t, name)().to_dict()
                n = len(spec["concat"]) if "concat" in spec else (len(spec.get("hconcat", spec.get("vconcat", [0]))))
                res[key] = {"charts": n, "slices": len(t.slices), "schema": spec.get("$schema", "")[-30:]}
                ok = "$schema" in spec and n >= len(t.slices) and n % len(t.slices) == 0
                ctx.hist("monitor:" + ("ok" if ok else "mismatch"))
                if not ok:
                    ctx.violation("impl-violation", f"{name} on a {label} triangle: {n} charts for {len(t.slices)} slices "
                                  "(Vega-Lite monitor)", {"triangle": tri_spec(t), "method": name, "charts": n},
                                  found_input=True)
            except Exception as ex:  # noqa: BLE001
                res[key] = {"raised": f"{type(ex).__name__}: {ex}"[:200]}
                ctx.hist("monitor:raised")
    ctx.extra["vega_lite_monitor"] = res


# ------------------------------------------------------------------------------ run
def run(ctx):
    from translate import t_plot

    ctx.rule = (
        "cases: directed battery (sample array 0..9; two slices with equal periods; present-but-zero inputs; absent / None inputs) + harness.gen "
        "monthly / quarterly calendar triangles through Feb 2000 / Feb 2100 / leap and non-leap years (dev_lag and last_lag tied to the month-index difference), triangles with the standard fields paid/reported/incurred loss, earned premium, reported claims (2-5 of them, "
        "not always the same per cell, occasionally None), int / dyadic float scalars and int64 / float64 sample arrays "
        "(2-8 samples) and mixes, 1-3 slices, regular / ragged / holey layouts, 1-3 periods x 1-4 lags; present fields are "
        "regularly exactly zero (scalar 0 / 0.0, all-zero arrays, arrays containing zeros) with earned_premium non-zero; "
        "array-by-zero divisions (NumPy inf) avoided. Every case goes through coqc (model records vs build_plot_data) and through the direct "
        "oracle. Non-trivial = at least 2 cells; distinct by canonical form.")
    ctx.assumptions += [
        "translate/t_plot.py reads the Python AST faithfully; Model/Plot.v interprets the generated description",
        "NumPy's default quantile method is linear interpolation on the sorted sample; np.median = quantile 1/2 "
        "(validated numerically on every run to 1e-9)",
        "floats are compared with 1e-9 relative tolerance against exact rational arithmetic",
        "dev_lag is taken from cell.dev_lag() (date arithmetic is C12); tooltip / unit / last_lag / resolution entries "
        "of the records are not modelled",
        "NOT DECIDED: sd is compared numerically with np.std only; validity of Vega-Lite specifications and 'one facet "
        "per slice' are behaviour of Altair -- only monitored (a few plot_*().to_dict() calls, charts counted)",
    ]
    from harness.coqterm import canon_tri

    # 1. translate
    gen_ok = False
    try:
        gen = t_plot.translate(REPO)
        ctx.obligation("T-plot translation of bermuda/plot.py", True)
        (ctx.build / "GenPlot.v").write_text(gen)
        gen_ok = True
    except t_plot.Unsupported as ex:
        ctx.obligation("T-plot translation of bermuda/plot.py", False, str(ex))
        ctx.log(f"translator failed closed: {ex}")
    except Exception as ex:  # noqa: BLE001
        ctx.obligation("T-plot translation of bermuda/plot.py", False, repr(ex))
    for f in set(ctx.build.glob("cases_*")) | set(ctx.build.glob("*.vo")) | set(ctx.build.glob("*.glob")):
        f.unlink(missing_ok=True)
    # 2. proofs
    ctx.audit_tree(["Model/Plot.v", "Proofs/PlotQuantile.v", "Proofs/PlotRecords.v", "Props/C20.v"])
    ctx.prove_static("Props/C20.v")
    desc_name = "std_desc"
    if gen_ok:
        rc, out = ctx.coqc(ctx.build / "GenPlot.v", timeout=300)
        ctx.obligation("GenPlot.v compiles", rc == 0, out)
        if rc == 0:
            desc_name = "GenPlot.desc"
            for name in ("C20_labels.v", "C20_metrics.v", "C20_rows.v"):
                shutil.copy(COQ / "GenProps" / name, ctx.build / name)
            res = {n: ctx.prove(ctx.build / n, timeout=600) for n in ("C20_labels.v", "C20_metrics.v", "C20_rows.v")}
            if not all(ok for ok, _ in res.values()):
                import difflib

                exp = (COQ / "GenExpected" / "GenPlot.v")
                if exp.exists():
                    dd = "".join(difflib.unified_diff(exp.read_text().splitlines(1), gen.splitlines(1), "expected", "generated"))
                    ctx.extra["generated_desc_diff"] = dd[:6000]
        else:
            gen_ok = False
    if not gen_ok:
        (ctx.build / "GenPlot.v").write_text("From Bermuda Require Import Model.Plot.\nDefinition desc := std_desc.\n")
        ctx.coqc(ctx.build / "GenPlot.v", timeout=300)
    ctx.log("proof files done; generating cases")
    # 3. cases + direct oracle
    cases = (battery() + calendar_cases(random.Random(ctx.seed * 97 + 2), 34 if ctx.quick else 170)
             + gen_cases(ctx, 110 if ctx.quick else 900))
    fails = []
    for t, info, desc in cases:
        ctx.hist("case:" + desc.split("/")[0] + "/" + str(info.get("values", "")))
        ctx.hist(f"slices:{len(t.slices)}")
        if len(t) >= 2:
            ctx.nontriv(canon_tri(t, ordered=True))
        r = oracle(t)
        ctx.count(evaluations=len(t), traces=1)
        if r is not None:
            fails.append((t, desc, r))
    ctx.sample({"case": cases[10][2], "triangle": tri_spec(cases[10][0])[:2]})
    ctx.log(f"direct oracle: {len(cases)} triangles, {len(fails)} failures")
    for t, desc, r in fails[:5]:
        ctx.violation("impl-violation", f"plot data not faithful ({desc}): {r}",
                      {"triangle": shrink(t), "failure": r}, found_input=True)
    # 4. correspondence in coqc
    mism, ncorr = correspondence(ctx, cases, desc_name)
    ctx.count(evaluations=ncorr, traces=ncorr)
    ctx.log(f"correspondence: {ncorr} triangles in coqc, {len(mism)} mismatching")
    ctx.obligation("correspondence model records vs build_plot_data (order, coordinates, summaries, statistics)",
                   not mism, json.dumps(mism[:2], default=str)[:1500])
    if mism and not fails:
        ctx.violation("correspondence", "model and build_plot_data differ on a generated triangle",
                      {"mismatches": mism[:3]}, found_input=False)
    # 5. monitor
    two = [t for t, _, _ in cases if len(t.slices) == 2 and len(t) >= 4]
    one = [t for t, _, _ in cases if len(t.slices) == 1 and len(t) >= 4]
    if one and two:
        vega_monitor(ctx, one[0], two[0])


def shrink(t):
    from bermuda import Triangle

    cells = list(t.cells)

    def bad(cs):
        try:
            with warnings.catch_warnings():
                warnings.simplefilter("ignore")
                return bool(cs) and oracle(Triangle(cs)) is not None
        except Exception:  # noqa: BLE001
            return False

    if not bad(cells):
        return tri_spec(t)
    i = 0
    while i < len(cells) and len(cells) > 1:
        trial = cells[:i] + cells[i + 1:]
        if bad(trial):
            cells = trial
        else:
            i += 1
    for i in range(len(cells)):
        for k in list(cells[i].values):
            vals = {a: b for a, b in cells[i].values.items() if a != k}
            trial = cells[:i] + [cells[i].replace(values=vals)] + cells[i + 1:]
            if bad(trial):
                cells = trial
    return tri_spec(cells)


def replay(ctx, data):
    spec = data.get("triangle")
    if not spec:
        print("replay data holds no triangle:", json.dumps(data, default=str)[:2000])
        return 1
    with warnings.catch_warnings():
        warnings.simplefilter("ignore")
        t = spec_tri(spec)
    print(f"triangle with {len(t)} cell(s), {len(t.slices)} slice(s)")
    for c in t.cells[:6]:
        print("  ", repr(c)[:300])
    r = oracle(t)
    if r is None:
        print("build_plot_data: one record per cell in order, metrics and labelled statistics as stated: OK")
        return 0
    print("plot data NOT faithful:", json.dumps(r, default=str)[:1500])
    return 1
